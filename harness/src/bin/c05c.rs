//! C05 harness, fault family "logical failure by corrupted reads".
//!
//! `c05c run <n_images> <variants_per_read (0 = all)> [only <image> [<op index>]]`   (parent: spawns `child` processes)
//!   quick tier: at most 10 read positions per operation; thorough tier: every read position, every abort sibling
//! `c05c child <image> <first_run> <n_images> <variants_per_read> [<op index>]`
//!
//! A storage backend that, while armed, serves DAMAGED bytes for one chosen read (or, "sticky", for every
//! later read of the same offset while armed) and otherwise behaves like memory: silent corruption of bytes
//! READ while the database is open -- no I/O error, so nothing is latched.  The cache size is 0, so every
//! page the engine looks at (apart from the transaction's own dirty pages) reaches the backend.
//!
//! Per image (a cleanly closed database with multi-level tables, multimap tables with inline and subtree
//! collections, several persistent savepoints and non-empty DATA_FREED / DATA_ALLOCATED records) and per
//! operation kind that reads stored structure while mutating (rename / delete of tables and multimap tables,
//! restore_savepoint, delete_persistent_savepoint, persistent_savepoint, open_table, insert / remove / pop,
//! retain / retain_in / extract_if / extract_from_if, multimap insert / remove / remove_all, cursor splice):
//!   count run    the operation, armed without a plan: the list of reads it performs (offset, length) and
//!                the tree each page belongs to (H3 reach of the image)
//!   fault runs   for (sampled in quick, all in thorough) reads j and damage variants (type byte, entry count,
//!                key / value end offsets, child pointers and checksums, first bytes of keys and values =
//!                record version / table type / collection type bytes, length fields, whole page zeroed,
//!                another page's bytes): fresh open of the image, begin_write, an unrelated write, H3 view,
//!                ARM, the operation under `catch`, DISARM, H3 view.  If the operation FAILED (error or panic):
//!                  (i)  an unrelated write and commit() anyway: either the commit is refused (then the state
//!                       must be the pre-transaction state) or the committed state must equal the state in
//!                       which the failed operation did not happen at all (tables, contents, persistent
//!                       savepoints stored and in the tracker, tracker reference counts = one per visible
//!                       savepoint, savepoint validity through restore in scratch transactions, page
//!                       accounting: own_checkb on the H3 state), in the session and after a reopen;
//!                  (ii) sibling run: abort() instead: pre-transaction state, in the session and after reopen.
//!                retain / extract: the entries the predicate rejected / the iterator yielded before the
//!                failure are legitimately gone (each is reported to the caller), nothing else.
//! A failed operation that was error-atomic and got committed is fine; a half-applied one is the violation.
//! Panics inside redb caused by damaged bytes are classified separately (`res=panic`): decoders that panic on
//! corrupt data are C12's recorded weakness; they are reported here only if a half-applied state got committed.
//!
//! Files (appended run by run; a child that dies -- redb panicking in a destructor while unwinding cannot be
//! caught -- is restarted by the parent after the run in progress):
//!   corrupt_runs.txt   F lines: one per fault run (kind, site, damage, result, staged?, flags, end, verdict)
//!   corrupt_viol.txt   S3 failures
//!   corrupt_trace.txt  own_util trace (S lines checked by ocaml/c06_driver.ml: own_checkb)
//!   corrupt_logs.txt   per image / operation: what was built and which reads the operation performs
#[path = "../own_util.rs"]
mod own_util;

use own_util::*;
use redb::verif::{VPage, VReach, VTxnSnapshot};
use redb::{
    CommitError, Database, MultimapTableDefinition, ReadableDatabase, ReadableMultimapTable, ReadableTable,
    SavepointError, StorageBackend, StorageError, TableDefinition, TableError, WriteTransaction,
};
use rv_harness::backend::RecBackend;
use rv_harness::{Rng, catch, seed_from_env, silence_panics};
use std::collections::{BTreeMap, BTreeSet};
use std::fmt::Write as _;
use std::io::Write as _;
use std::ops::Bound;
use std::sync::{Arc, Mutex};

fn tdef(name: &str) -> TableDefinition<'_, u64, &'static [u8]> {
    TableDefinition::new(name)
}
fn mdef(name: &str) -> MultimapTableDefinition<'_, u64, &'static [u8]> {
    MultimapTableDefinition::new(name)
}

// ====================================================================================== the backend

#[derive(Clone, Debug)]
enum Damage {
    Xor(usize, u8),
    Set(usize, u8),
    Zero,
    /// another page's bytes (a misdirected read)
    Other(Vec<u8>),
}

impl Damage {
    fn name(&self) -> String {
        match self {
            Damage::Xor(o, m) => format!("xor@{o}:{m:02x}"),
            Damage::Set(o, v) => format!("set@{o}:{v:02x}"),
            Damage::Zero => "zero".into(),
            Damage::Other(_) => "otherpage".into(),
        }
    }
    fn apply(&self, out: &mut [u8]) {
        match self {
            Damage::Xor(o, m) => {
                if *o < out.len() {
                    out[*o] ^= *m;
                }
            }
            Damage::Set(o, v) => {
                if *o < out.len() {
                    out[*o] = *v;
                }
            }
            Damage::Zero => out.fill(0),
            Damage::Other(b) => {
                let n = b.len().min(out.len());
                out[..n].copy_from_slice(&b[..n]);
            }
        }
    }
}

#[derive(Clone, Debug)]
struct Plan {
    /// index among the reads made while armed
    read: usize,
    damage: Damage,
    /// every later read of the same offset while armed is damaged too
    sticky: bool,
}

#[derive(Debug, Default)]
struct CShared {
    data: Vec<u8>,
    armed: bool,
    reads: Vec<(u64, usize)>,
    plan: Option<Plan>,
    sticky_off: Option<u64>,
    fired: u32,
}

#[derive(Clone, Debug)]
struct CorruptBackend(Arc<Mutex<CShared>>);

impl CorruptBackend {
    fn with_data(data: Vec<u8>) -> Self {
        CorruptBackend(Arc::new(Mutex::new(CShared { data, ..Default::default() })))
    }
    fn handle(&self) -> Self {
        CorruptBackend(self.0.clone())
    }
    fn g(&self) -> std::sync::MutexGuard<'_, CShared> {
        self.0.lock().unwrap_or_else(std::sync::PoisonError::into_inner)
    }
    fn arm(&self, plan: Option<Plan>) {
        let mut g = self.g();
        g.armed = true;
        g.reads.clear();
        g.plan = plan;
        g.sticky_off = None;
        g.fired = 0;
    }
    fn disarm(&self) -> (Vec<(u64, usize)>, u32) {
        let mut g = self.g();
        g.armed = false;
        g.plan = None;
        g.sticky_off = None;
        (std::mem::take(&mut g.reads), g.fired)
    }
    fn snapshot(&self) -> Vec<u8> {
        self.g().data.clone()
    }
}

impl StorageBackend for CorruptBackend {
    fn len(&self) -> std::io::Result<u64> {
        Ok(self.g().data.len() as u64)
    }
    fn read(&self, offset: u64, out: &mut [u8]) -> std::io::Result<()> {
        let mut g = self.g();
        let off = offset as usize;
        if off + out.len() > g.data.len() {
            return Err(std::io::Error::new(std::io::ErrorKind::UnexpectedEof, "read beyond the end"));
        }
        out.copy_from_slice(&g.data[off..off + out.len()]);
        if g.armed {
            let idx = g.reads.len();
            g.reads.push((offset, out.len()));
            let mut hit: Option<Damage> = None;
            if let Some(p) = &g.plan {
                if p.read == idx || (p.sticky && g.sticky_off == Some(offset)) {
                    hit = Some(p.damage.clone());
                }
            }
            if let Some(d) = hit {
                d.apply(out);
                g.fired += 1;
                if g.plan.as_ref().is_some_and(|p| p.sticky) {
                    g.sticky_off = Some(offset);
                }
            }
        }
        Ok(())
    }
    fn set_len(&self, len: u64) -> std::io::Result<()> {
        self.g().data.resize(len as usize, 0);
        Ok(())
    }
    fn sync_data(&self) -> std::io::Result<()> {
        Ok(())
    }
    fn write(&self, offset: u64, data: &[u8]) -> std::io::Result<()> {
        let mut g = self.g();
        let off = offset as usize;
        if off + data.len() > g.data.len() {
            return Err(std::io::Error::new(std::io::ErrorKind::UnexpectedEof, "write beyond the end"));
        }
        g.data[off..off + data.len()].copy_from_slice(data);
        Ok(())
    }
}

// ====================================================================================== page layout: the selected bytes

const LEAF: u8 = 1;
const BRANCH: u8 = 2;

/// (fixed key width, fixed value width) of the tree a page belongs to, by class name
fn widths(class: &str) -> (Option<usize>, Option<usize>) {
    if class.starts_with("table:") {
        (Some(8), None)
    } else if class.starts_with("mm:") {
        // top-level multimap tree: u64 -> collection; pages of subtrees (value -> ()) are walked too, they
        // decode as "variable key, zero-width value"; both readings are offered to the sampler
        (Some(8), None)
    } else if class == "data-master" || class == "sys-master" {
        (None, None)
    } else if class == "sys:persistent_savepoints" || class == "sys:savepoint" {
        (Some(8), None)
    } else if class == "sys:next_savepoint_id" {
        (Some(0), Some(8))
    } else {
        // freed / allocated tables: (txn id, pagination id) -> page list
        (Some(16), None)
    }
}

/// offsets worth damaging in a page: (offset, what)
fn selected_bytes(page: &[u8], class: &str) -> Vec<(usize, &'static str)> {
    let mut out: Vec<(usize, &'static str)> = vec![(0, "type"), (1, "pad"), (2, "count-lo"), (3, "count-hi")];
    if page.len() < 8 {
        return out;
    }
    let n = u16::from_le_bytes([page[2], page[3]]) as usize;
    let u32at = |o: usize| -> usize {
        if o + 4 <= page.len() { u32::from_le_bytes(page[o..o + 4].try_into().unwrap()) as usize } else { 0 }
    };
    match page[0] {
        LEAF => {
            let (kw, vw) = widths(class);
            let mut off = 4;
            let mut key_ends: Vec<usize> = vec![];
            let mut val_ends: Vec<usize> = vec![];
            if kw.is_none() {
                for i in 0..n {
                    if i < 2 || i + 1 == n {
                        out.push((off + 4 * i, "key-end"));
                        out.push((off + 4 * i + 1, "key-end"));
                    }
                    key_ends.push(u32at(off + 4 * i));
                }
                off += 4 * n;
            }
            if vw.is_none() {
                for i in 0..n {
                    if i < 2 || i + 1 == n {
                        out.push((off + 4 * i, "value-end"));
                        out.push((off + 4 * i + 1, "value-end"));
                        out.push((off + 4 * i + 3, "value-end-hi"));
                    }
                    val_ends.push(u32at(off + 4 * i));
                }
                off += 4 * n;
            }
            // key data starts at `off`
            let keys_start = off;
            let keys_end = match kw {
                Some(w) => keys_start + w * n,
                None => key_ends.last().copied().unwrap_or(keys_start),
            };
            if keys_start < page.len() {
                out.push((keys_start, "key0"));
            }
            if let Some(w) = kw {
                if w > 0 && n > 1 && keys_start + w < page.len() {
                    out.push((keys_start + w, "key1"));
                }
            }
            // value data
            let mut vstart = keys_end;
            for i in 0..n.min(64) {
                let vend = match vw {
                    Some(w) => vstart + w,
                    None => val_ends.get(i).copied().unwrap_or(vstart),
                };
                if vstart >= page.len() || vend > page.len() || vend < vstart {
                    break;
                }
                if i < 3 || i + 1 == n {
                    // first byte = record version / table type / collection type; then id / length / root fields
                    out.push((vstart, if i + 1 == n && i > 0 { "value-byte0-last" } else { "value-byte0" }));
                    for d in [1usize, 2, 9, 10, 17, 18, 19, 26, 34, 43, 48, 53, 57, 61, 65, 70, 75] {
                        if vstart + d < vend {
                            out.push((vstart + d, "value-field"));
                        }
                    }
                    if vend > vstart + 1 {
                        out.push((vend - 1, "value-last"));
                    }
                }
                vstart = vend;
            }
        }
        BRANCH => {
            // 8 byte header, (n+1) * 16 checksums, (n+1) * 8 page numbers, key ends, keys
            let cs = 8;
            let pn = cs + 16 * (n + 1);
            for i in 0..=n {
                if i < 2 || i == n {
                    out.push((cs + 16 * i, "child-checksum"));
                    // page number: low bytes = index, then region, top byte holds the order
                    out.push((pn + 8 * i, "child-index"));
                    out.push((pn + 8 * i + 2, "child-index-hi"));
                    out.push((pn + 8 * i + 4, "child-region"));
                    out.push((pn + 8 * i + 7, "child-order"));
                }
            }
            let ke = pn + 8 * (n + 1);
            out.push((ke, "branch-key-end"));
            out.push((ke + 4 * n, "branch-key0"));
        }
        _ => {}
    }
    out.retain(|(o, _)| *o < page.len());
    out.sort();
    out.dedup_by_key(|x| x.0);
    out
}

// ====================================================================================== logical dump

#[derive(Clone, Debug, PartialEq, Eq, Default)]
struct Logical {
    tables: BTreeMap<String, Vec<(u64, u64)>>,
    mtables: BTreeMap<String, Vec<(u64, u64)>>,
}

fn vhash(v: &[u8]) -> u64 {
    (redb::verif::xxh3_128(v) as u64) ^ ((v.len() as u64) << 48)
}

fn dump(db: &Database) -> Result<Logical, String> {
    let r = catch(|| -> Result<Logical, redb::Error> {
        let rt = db.begin_read()?;
        let mut l = Logical::default();
        let names: Vec<String> = rt.list_tables()?.map(|h| redb::TableHandle::name(&h).to_string()).collect();
        for n in names {
            let t = rt.open_table(tdef(&n))?;
            let mut v = vec![];
            for e in t.iter()? {
                let (k, val) = e?;
                v.push((k.value(), vhash(val.value())));
            }
            l.tables.insert(n, v);
        }
        let names: Vec<String> = rt.list_multimap_tables()?.map(|h| redb::MultimapTableHandle::name(&h).to_string()).collect();
        for n in names {
            let t = rt.open_multimap_table(mdef(&n))?;
            let mut v = vec![];
            for e in t.iter()? {
                let (k, vals) = e?;
                let key = k.value();
                for x in vals {
                    v.push((key, vhash(x?.value())));
                }
            }
            l.mtables.insert(n, v);
        }
        Ok(l)
    });
    match r {
        Ok(Ok(l)) => Ok(l),
        Ok(Err(e)) => Err(format!("dump failed: {e}")),
        Err(p) => Err(format!("dump panicked: {p}")),
    }
}

fn describe_diff(a: &Logical, b: &Logical) -> String {
    let mut s = String::new();
    let an: Vec<&String> = a.tables.keys().chain(a.mtables.keys()).collect();
    let bn: Vec<&String> = b.tables.keys().chain(b.mtables.keys()).collect();
    if an != bn {
        write!(s, "tables expected {an:?} found {bn:?}; ").unwrap();
    }
    for (n, va) in a.tables.iter().chain(a.mtables.iter()) {
        let vb = b.tables.get(n).or_else(|| b.mtables.get(n));
        if let Some(vb) = vb {
            if va != vb {
                let sa: BTreeSet<&(u64, u64)> = va.iter().collect();
                let sb: BTreeSet<&(u64, u64)> = vb.iter().collect();
                let missing: Vec<u64> = sa.difference(&sb).take(6).map(|x| x.0).collect();
                let extra: Vec<u64> = sb.difference(&sa).take(6).map(|x| x.0).collect();
                write!(s, "table {n}: {} entries expected, {} found (keys missing {missing:?}, unexpected {extra:?}); ", va.len(), vb.len()).unwrap();
            }
        }
    }
    s
}

// ====================================================================================== images

const CONFIGS: [(usize, u64); 4] = [(512, 16), (512, 64), (1024, 8), (512, 0)];

fn builder(cfg: (usize, u64), cache: usize) -> redb::Builder {
    let mut b = Database::builder();
    b.verif_set_page_size(cfg.0);
    if cfg.1 > 0 {
        b.verif_set_region_size(cfg.1 * cfg.0 as u64);
    }
    b.set_cache_size(cache);
    b
}

struct Image {
    cfg: (usize, u64),
    bytes: Vec<u8>,
    /// persistent savepoint ids, ascending
    psp: Vec<u64>,
    /// keys of t0 (for choosing targets)
    t0_keys: Vec<u64>,
    /// multimap m0: a key with an inline collection, a key with a subtree collection
    mm_inline: u64,
    mm_subtree: u64,
    /// values stored under the two keys
    mm_inline_vals: Vec<Vec<u8>>,
    mm_subtree_vals: Vec<Vec<u8>>,
    descr: String,
}

fn val(r: &mut Rng, k: u64) -> Vec<u8> {
    let sz = *r.pick(&[6usize, 20, 20, 60, 60, 140, 300]);
    vec![(k & 0xff) as u8; sz]
}

fn build_image(r: &mut Rng, idx: usize) -> Image {
    let cfg = CONFIGS[(idx + seed_from_env() as usize) % CONFIGS.len()];
    let be = CorruptBackend::with_data(vec![]);
    let db = builder(cfg, 1 << 20).create_with_backend(be.handle()).expect("create");
    let n0 = r.range(60, 220);
    let n2 = r.range(8, 50);
    let mut descr = format!("page={} region_pages={} t0:{n0} t2:{n2}", cfg.0, cfg.1);
    let mut psp = vec![];
    let mut next_key = 0u64;
    // tables
    {
        let t = db.begin_write().unwrap();
        {
            let mut t0 = t.open_table(tdef("t0")).unwrap();
            for _ in 0..n0 {
                next_key += r.range(1, 5);
                let v = val(r, next_key);
                t0.insert(next_key, v.as_slice()).unwrap();
            }
            let mut t1 = t.open_table(tdef("t1")).unwrap();
            for k in 0..r.range(1, 4) {
                t1.insert(k * 7, [k as u8; 5].as_slice()).unwrap();
            }
            let mut t2 = t.open_table(tdef("t2")).unwrap();
            for k in 0..n2 {
                let v = val(r, k);
                t2.insert(k * 3, v.as_slice()).unwrap();
            }
            let mut tm = t.open_table(tdef("tm")).unwrap();
            tm.insert(0, [9u8; 4].as_slice()).unwrap();
            let mut m0 = t.open_multimap_table(mdef("m0")).unwrap();
            for k in 0..6u64 {
                // keys 0..2 inline (few small values), 3..5 subtrees (many values)
                let nv = if k < 3 { r.range(1, 3) } else { r.range(30, 90) };
                for j in 0..nv {
                    let mut v = vec![k as u8; if k < 3 { 6 } else { *r.pick(&[8usize, 24, 40]) }];
                    v[0] = j as u8;
                    v[1] = (j >> 8) as u8;
                    m0.insert(k, v.as_slice()).unwrap();
                }
            }
            // m2: many keys (multi-level top-level tree), key 50 holds a subtree collection
            let mut m2 = t.open_multimap_table(mdef("m2")).unwrap();
            for k in 0..r.range(90, 160) {
                let nv = if k == 50 { r.range(40, 70) } else { 1 };
                for j in 0..nv {
                    let mut v = vec![k as u8; if k == 50 { 20 } else { 30 }];
                    v[0] = j as u8;
                    m2.insert(k, v.as_slice()).unwrap();
                }
            }
            let mut m1 = t.open_multimap_table(mdef("m1")).unwrap();
            m1.insert(1, [1u8; 3].as_slice()).unwrap();
            m1.insert(1, [2u8; 3].as_slice()).unwrap();
        }
        t.commit().unwrap();
    }
    // persistent savepoints separated by modifications (so that DATA_FREED / DATA_ALLOCATED have records)
    let nsp = r.range(2, 3);
    for s in 0..nsp {
        let t = db.begin_write().unwrap();
        psp.push(t.persistent_savepoint().unwrap());
        t.commit().unwrap();
        let t = db.begin_write().unwrap();
        {
            let mut t0 = t.open_table(tdef("t0")).unwrap();
            for _ in 0..r.range(5, 25) {
                next_key += r.range(1, 4);
                let v = val(r, next_key);
                t0.insert(next_key, v.as_slice()).unwrap();
            }
            for _ in 0..r.range(3, 15) {
                let k = r.below(next_key);
                t0.remove(k).unwrap();
            }
            let mut t2 = t.open_table(tdef("t2")).unwrap();
            t2.insert(1000 + s, [s as u8; 30].as_slice()).unwrap();
            let mut m0 = t.open_multimap_table(mdef("m0")).unwrap();
            m0.insert(4, [200 + s as u8; 12].as_slice()).unwrap();
        }
        t.commit().unwrap();
    }
    // one more plain commit so that the latest state is not a savepoint's state
    {
        let t = db.begin_write().unwrap();
        {
            let mut t1 = t.open_table(tdef("t1")).unwrap();
            t1.insert(500, [5u8; 9].as_slice()).unwrap();
        }
        t.commit().unwrap();
    }
    let t0_keys: Vec<u64> = {
        let rt = db.begin_read().unwrap();
        let t0 = rt.open_table(tdef("t0")).unwrap();
        t0.iter().unwrap().map(|e| e.unwrap().0.value()).collect()
    };
    let vals_of = |k: u64| -> Vec<Vec<u8>> {
        let rt = db.begin_read().unwrap();
        let m0 = rt.open_multimap_table(mdef("m0")).unwrap();
        m0.get(k).unwrap().map(|v| v.unwrap().value().to_vec()).collect()
    };
    let (mm_inline_vals, mm_subtree_vals) = (vals_of(1), vals_of(4));
    write!(descr, " t0_final:{} savepoints:{psp:?} m0[1]:{} m0[4]:{}", t0_keys.len(), mm_inline_vals.len(), mm_subtree_vals.len()).unwrap();
    drop(db);
    Image { cfg, bytes: be.snapshot(), psp, t0_keys, mm_inline: 1, mm_subtree: 4, mm_inline_vals, mm_subtree_vals, descr }
}

// ====================================================================================== operations

#[derive(Clone, Debug)]
enum Op {
    RenameTable(&'static str, &'static str),
    RenameMultimap(&'static str, &'static str),
    DeleteTable(&'static str),
    DeleteMultimap(&'static str),
    /// restore to the persistent savepoint with this index in `psp`; `nondurable`: set_durability(None) first
    Restore(usize, bool),
    DeleteSavepoint(usize),
    PersistentSavepoint,
    OpenExisting(&'static str),
    OpenNew(&'static str),
    OpenMultimapExisting(&'static str),
    Insert(&'static str, u64, usize),
    Remove(&'static str, u64),
    PopFirst(&'static str),
    PopLast(&'static str),
    Retain(&'static str, u64),
    RetainIn(&'static str, u64, u64),
    ExtractIf(&'static str, u64),
    ExtractFromIf(&'static str, u64, u64),
    MmInsert(&'static str, u64, usize),
    MmRemove(&'static str, u64, u8),
    MmRemoveAll(&'static str, u64),
    CursorSplice(&'static str, u64),
}

impl Op {
    /// Poison.v kind
    fn kind(&self) -> &'static str {
        match self {
            Op::RenameTable(..) | Op::RenameMultimap(..) => "rename",
            Op::DeleteTable(_) | Op::DeleteMultimap(_) => "delete",
            Op::Restore(..) => "restore",
            Op::DeleteSavepoint(_) => "spdelete",
            Op::PersistentSavepoint => "savepoint",
            Op::Retain(..) | Op::RetainIn(..) => "retain",
            Op::ExtractIf(..) | Op::ExtractFromIf(..) => "extract",
            Op::CursorSplice(..) => "cursor",
            Op::MmInsert(..) | Op::MmRemove(..) | Op::MmRemoveAll(..) => "multimap",
            _ => "write",
        }
    }
    /// the call needs a transaction that is not dirty
    fn needs_clean(&self) -> bool {
        matches!(self, Op::PersistentSavepoint)
    }
}

fn ops_for(img: &Image, r: &mut Rng) -> Vec<Op> {
    let k_mid = img.t0_keys[img.t0_keys.len() / 2];
    let k_lo = img.t0_keys[1];
    let k_hi = img.t0_keys[img.t0_keys.len() - 2];
    let k_rand = *r.pick(&img.t0_keys);
    let fresh = k_mid + 1_000_000;
    let last = img.psp.len() - 1;
    vec![
        Op::DeleteSavepoint(0),
        Op::DeleteSavepoint(last),
        Op::PersistentSavepoint,
        Op::Restore(0, false),
        Op::Restore(last, false),
        Op::Restore(last, true),
        Op::RenameTable("t0", "t9"),
        Op::RenameTable("t1", "t8"),
        Op::RenameMultimap("m0", "m9"),
        Op::DeleteTable("t0"),
        Op::DeleteTable("t2"),
        Op::DeleteMultimap("m0"),
        Op::OpenExisting("t0"),
        Op::OpenNew("t7"),
        Op::OpenMultimapExisting("m0"),
        Op::Insert("t0", fresh, 40),
        Op::Insert("t0", k_rand, 400),
        Op::Insert("t0", k_lo + 1_000_000, 1500),
        Op::Remove("t0", k_mid),
        Op::Remove("t0", k_lo),
        Op::Remove("t0", k_hi),
        Op::PopFirst("t0"),
        Op::PopLast("t0"),
        Op::Retain("t0", r.range(2, 4)),
        Op::RetainIn("t0", k_mid, 2),
        Op::ExtractIf("t0", r.range(2, 3)),
        Op::ExtractFromIf("t0", k_mid, 2),
        Op::MmInsert("m0", img.mm_inline, 6),
        Op::MmInsert("m0", img.mm_subtree, 24),
        Op::MmInsert("m0", img.mm_inline, 300),
        Op::MmRemove("m0", img.mm_subtree, 3),
        Op::MmRemove("m0", img.mm_inline, 0),
        Op::MmRemoveAll("m0", img.mm_subtree),
        Op::MmRemoveAll("m0", img.mm_inline),
        Op::MmInsert("m2", 50, 20),
        Op::MmRemove("m2", 50, 7),
        Op::MmRemoveAll("m2", 50),
        Op::MmInsert("m2", 20, 30),
        Op::MmRemove("m2", 21, 0),
        Op::CursorSplice("t0", r.range(2, 9)),
    ]
}

#[derive(Clone, Copy, Debug, PartialEq, Eq)]
enum Res {
    Ok,
    Corrupted,
    Logical,
    Io,
    Panic,
}

impl Res {
    fn name(self) -> &'static str {
        match self {
            Res::Ok => "ok",
            Res::Corrupted => "corrupted",
            Res::Logical => "logical",
            Res::Io => "io",
            Res::Panic => "panic",
        }
    }
}

fn cls_storage(e: &StorageError) -> Res {
    match e {
        StorageError::Io(_) | StorageError::PreviousIo => Res::Io,
        StorageError::Corrupted(_) => Res::Corrupted,
        _ => Res::Logical,
    }
}
fn cls_table(e: &TableError) -> Res {
    match e {
        TableError::Storage(s) => cls_storage(s),
        _ => Res::Logical,
    }
}
fn cls_sp(e: &SavepointError) -> Res {
    match e {
        SavepointError::Storage(s) => cls_storage(s),
        _ => Res::Logical,
    }
}
fn cls_err(e: &redb::Error) -> Res {
    match e {
        redb::Error::Io(_) | redb::Error::PreviousIo => Res::Io,
        redb::Error::Corrupted(_) => Res::Corrupted,
        _ => Res::Logical,
    }
}

/// what the operation reported to the caller before it failed (these effects are legitimately applied)
#[derive(Default, Debug)]
struct Reported {
    /// keys of the target table the caller was told are gone (retain: rejected by the predicate; extract: yielded)
    removed: Vec<u64>,
    table: Option<&'static str>,
}

/// run `op` between arm and disarm; everything that must exist before (table handles, savepoint handles) is
/// prepared unarmed
fn exec_op(op: &Op, img: &Image, txn: &mut WriteTransaction, be: &CorruptBackend, plan: Option<Plan>) -> (Res, String, Reported, Vec<(u64, usize)>, u32) {
    let mut rep = Reported::default();
    let mut msg = String::new();
    let mut set = |r: Result<Result<(), Res>, String>, e: String| -> Res {
        match r {
            Ok(Ok(())) => Res::Ok,
            Ok(Err(k)) => {
                msg = e;
                k
            }
            Err(p) => {
                msg = p.chars().take(160).collect();
                Res::Panic
            }
        }
    };
    macro_rules! armed {
        ($body:expr) => {{
            be.arm(plan.clone());
            let mut emsg = String::new();
            let r = catch(|| $body(&mut emsg));
            let (reads, fired) = be.disarm();
            (set(r, emsg), reads, fired)
        }};
    }
    let (res, reads, fired) = match op {
        Op::RenameTable(a, b) => armed!(|m: &mut String| txn.rename_table(tdef(a), tdef(b)).map_err(|e| { *m = e.to_string(); cls_table(&e) })),
        Op::RenameMultimap(a, b) => armed!(|m: &mut String| txn.rename_multimap_table(mdef(a), mdef(b)).map_err(|e| { *m = e.to_string(); cls_table(&e) })),
        Op::DeleteTable(a) => armed!(|m: &mut String| txn.delete_table(tdef(a)).map(|_| ()).map_err(|e| { *m = e.to_string(); cls_table(&e) })),
        Op::DeleteMultimap(a) => armed!(|m: &mut String| txn.delete_multimap_table(mdef(a)).map(|_| ()).map_err(|e| { *m = e.to_string(); cls_table(&e) })),
        Op::Restore(i, nd) => {
            if *nd {
                let _ = txn.set_durability(redb::Durability::None);
            }
            match catch(|| txn.get_persistent_savepoint(img.psp[*i])) {
                Ok(Ok(sp)) => armed!(|m: &mut String| txn.restore_savepoint(&sp).map_err(|e| { *m = e.to_string(); cls_sp(&e) })),
                other => {
                    msg = format!("preparation failed: get_persistent_savepoint: {:?}", other.map(|r| r.map(|_| ())));
                    (Res::Ok, vec![], 0)
                }
            }
        }
        Op::DeleteSavepoint(i) => armed!(|m: &mut String| txn.delete_persistent_savepoint(img.psp[*i]).map(|_| ()).map_err(|e| { *m = e.to_string(); cls_sp(&e) })),
        Op::PersistentSavepoint => armed!(|m: &mut String| txn.persistent_savepoint().map(|_| ()).map_err(|e| { *m = e.to_string(); cls_sp(&e) })),
        Op::OpenExisting(a) | Op::OpenNew(a) => armed!(|m: &mut String| txn.open_table(tdef(a)).map(|_| ()).map_err(|e| { *m = e.to_string(); cls_table(&e) })),
        Op::OpenMultimapExisting(a) => armed!(|m: &mut String| txn.open_multimap_table(mdef(a)).map(|_| ()).map_err(|e| { *m = e.to_string(); cls_table(&e) })),
        Op::Insert(..) | Op::Remove(..) | Op::PopFirst(_) | Op::PopLast(_) | Op::Retain(..) | Op::RetainIn(..) | Op::ExtractIf(..) | Op::ExtractFromIf(..) | Op::CursorSplice(..) => {
            let name: &'static str = match op {
                Op::Insert(a, ..) | Op::Remove(a, ..) | Op::PopFirst(a) | Op::PopLast(a) | Op::Retain(a, ..) | Op::RetainIn(a, ..) | Op::ExtractIf(a, ..) | Op::ExtractFromIf(a, ..) | Op::CursorSplice(a, ..) => a,
                _ => unreachable!(),
            };
            rep.table = Some(name);
            let removed = std::cell::RefCell::new(Vec::<u64>::new());
            let out = match catch(|| txn.open_table(tdef(name))) {
                Ok(Ok(mut tab)) => {
                    let r = armed!(|m: &mut String| -> Result<(), Res> {
                        let st = |m: &mut String, e: StorageError| { *m = e.to_string(); cls_storage(&e) };
                        match op {
                            Op::Insert(_, k, sz) => { tab.insert(*k, vec![0xabu8; *sz].as_slice()).map(|_| ()).map_err(|e| st(m, e)) }
                            Op::Remove(_, k) => tab.remove(*k).map(|_| ()).map_err(|e| st(m, e)),
                            Op::PopFirst(_) => tab.pop_first().map(|_| ()).map_err(|e| st(m, e)),
                            Op::PopLast(_) => tab.pop_last().map(|_| ()).map_err(|e| st(m, e)),
                            Op::Retain(_, md) => tab.retain(|k, _| { let keep = k % *md != 0; if !keep { removed.borrow_mut().push(k); } keep }).map_err(|e| st(m, e)),
                            Op::RetainIn(_, lo, md) => tab.retain_in(*lo.., |k, _| { let keep = k % *md != 0; if !keep { removed.borrow_mut().push(k); } keep }).map_err(|e| st(m, e)),
                            Op::ExtractIf(_, md) => {
                                let it = tab.extract_if(|k, _| k % *md == 0).map_err(|e| st(m, e))?;
                                for e in it {
                                    let (k, _) = e.map_err(|e| st(m, e))?;
                                    removed.borrow_mut().push(k.value());
                                }
                                Ok(())
                            }
                            Op::ExtractFromIf(_, lo, md) => {
                                let it = tab.extract_from_if(*lo.., |k, _| k % *md == 0).map_err(|e| st(m, e))?;
                                for e in it {
                                    let (k, _) = e.map_err(|e| st(m, e))?;
                                    removed.borrow_mut().push(k.value());
                                }
                                Ok(())
                            }
                            Op::CursorSplice(_, n) => {
                                let base = tab.last().map_err(|e| st(m, e))?.map(|(k, _)| k.value() + 1).unwrap_or(0).max(5_000_000);
                                let mut cur = tab.upper_bound_mut(Bound::<u64>::Unbounded).map_err(|e| st(m, e))?;
                                for i in 0..*n {
                                    cur.insert_before(base + i, vec![i as u8; 50].as_slice()).map_err(|e| st(m, e))?;
                                }
                                cur.close().map_err(|e| st(m, e))
                            }
                            _ => unreachable!(),
                        }
                    });
                    let _ = catch(move || drop(tab));
                    r
                }
                other => {
                    msg = format!("preparation failed: open_table: {:?}", other.map(|r| r.map(|_| ())));
                    (Res::Ok, vec![], 0)
                }
            };
            rep.removed = removed.into_inner();
            out
        }
        Op::MmInsert(..) | Op::MmRemove(..) | Op::MmRemoveAll(..) => {
            let name: &'static str = match op {
                Op::MmInsert(a, ..) | Op::MmRemove(a, ..) | Op::MmRemoveAll(a, ..) => a,
                _ => unreachable!(),
            };
            match catch(|| txn.open_multimap_table(mdef(name))) {
                Ok(Ok(mut tab)) => {
                    let r = armed!(|m: &mut String| -> Result<(), Res> {
                        let st = |m: &mut String, e: StorageError| { *m = e.to_string(); cls_storage(&e) };
                        match op {
                            Op::MmInsert(_, k, sz) => { let mut v = vec![0xcdu8; *sz]; v[0] = 250; tab.insert(*k, v.as_slice()).map(|_| ()).map_err(|e| st(m, e)) }
                            Op::MmRemove(_, k, j) => {
                                // the j-th value stored under k
                                if name == "m2" {
                                    let mut v = vec![*k as u8; if *k == 50 { 20 } else { 30 }];
                                    v[0] = *j;
                                    tab.remove(*k, v.as_slice()).map(|_| ()).map_err(|e| st(m, e))
                                } else {
                                    let vals = if *k == img.mm_inline { &img.mm_inline_vals } else { &img.mm_subtree_vals };
                                    let v = &vals[(*j as usize) % vals.len()];
                                    tab.remove(*k, v.as_slice()).map(|_| ()).map_err(|e| st(m, e))
                                }
                            }
                            Op::MmRemoveAll(_, k) => {
                                // the values are gone when remove_all returns; the iterator only reads them back
                                tab.remove_all(*k).map(|_| ()).map_err(|e| st(m, e))
                            }
                            _ => unreachable!(),
                        }
                    });
                    let _ = catch(move || drop(tab));
                    r
                }
                other => {
                    msg = format!("preparation failed: open_multimap_table: {:?}", other.map(|r| r.map(|_| ())));
                    (Res::Ok, vec![], 0)
                }
            }
        }
    };
    (res, msg, rep, reads, fired)
}

// ====================================================================================== one run

fn txn_sig(t: &VTxnSnapshot) -> String {
    format!(
        "{:?}|{:?}|{:?}|{:?}|{:?}|{:?}|{:?}|{:?}|{:?}",
        t.allocated_since_commit, t.data_freed_pages, t.system_freed_pages, t.data_master_root,
        t.system_master_root, t.data_pending_updates, t.system_pending_updates, t.savepoint_state, t.restored_transaction
    )
}

/// the LOGICAL view the write transaction would publish: catalog with staged roots applied (names, kinds,
/// roots, lengths), stored persistent savepoints, DATA_FREED keys, staged savepoint state, restore marker.
/// The savepoint id counter (NEXT_SAVEPOINT_TABLE) is left out: ids are consumed, never reused, like
/// transaction ids.  `None` = the working trees cannot be walked.
fn logical_view(txn: &WriteTransaction) -> Option<String> {
    let snap = txn.verif_snapshot();
    match catch(|| txn.verif_reach_current()) {
        Ok(Ok(r)) => {
            let tabs: Vec<(String, bool, Option<redb::verif::VRoot>, u64)> = r.data_tables.iter().map(|t| (t.name.clone(), t.multimap, t.root, t.length)).collect();
            let sys: Vec<(String, Option<redb::verif::VRoot>, u64)> = r.system_tables.iter().filter(|t| t.name != "next_savepoint_id").map(|t| (t.name.clone(), t.root, t.length)).collect();
            Some(format!("{tabs:?}|{sys:?}|{:?}|{:?}|{:?}", r.persistent_savepoints, snap.savepoint_state, snap.restored_transaction))
        }
        _ => None,
    }
}

/// the transaction-local state right after a call, with the bytes of every uncommitted page
#[derive(Clone, Debug, Default)]
struct TxnState {
    pages: BTreeMap<VPage, u128>,
    data_freed: BTreeSet<VPage>,
    system_freed: BTreeSet<VPage>,
    pending: BTreeSet<String>,
    /// staged roots: (tree|name|root) and (tree|name|length), compared componentwise (an intermediate
    /// combination -- new root, old length -- is a partial execution, not absorbed damage)
    pending_eff: BTreeSet<String>,
    /// the catalog in force (staged roots applied), in the same two forms
    catalog: BTreeSet<String>,
    roots: (String, String),
    sp_created: BTreeSet<(u64, u64)>,
    sp_deleted: BTreeSet<(u64, u64)>,
    sp_invalidated: BTreeSet<u64>,
    restored: Option<u64>,
}

fn txn_state(txn: &WriteTransaction, s: &VTxnSnapshot) -> Option<TxnState> {
    let mut t = TxnState::default();
    for p in &s.allocated_since_commit {
        match catch(|| txn.verif_read_page(*p)) {
            Ok(Ok(b)) => {
                t.pages.insert(*p, redb::verif::xxh3_128(&b));
            }
            _ => return None,
        }
    }
    t.data_freed = s.data_freed_pages.iter().copied().collect();
    t.system_freed = s.system_freed_pages.iter().copied().collect();
    for u in s.data_pending_updates.iter() {
        t.pending.insert(format!("d{u:?}"));
        t.pending_eff.insert(format!("d|{}|r{:?}", u.0, u.1));
        t.pending_eff.insert(format!("d|{}|l{}", u.0, u.2));
    }
    for u in s.system_pending_updates.iter() {
        t.pending.insert(format!("s{u:?}"));
        t.pending_eff.insert(format!("s|{}|r{:?}", u.0, u.1));
        t.pending_eff.insert(format!("s|{}|l{}", u.0, u.2));
    }
    if let Ok(Ok(r)) = catch(|| txn.verif_reach_current()) {
        for x in &r.data_tables {
            t.catalog.insert(format!("d|{}|r{:?}", x.name, x.root));
            t.catalog.insert(format!("d|{}|l{}", x.name, x.length));
        }
        for x in &r.system_tables {
            t.catalog.insert(format!("s|{}|r{:?}", x.name, x.root));
            t.catalog.insert(format!("s|{}|l{}", x.name, x.length));
        }
    }
    t.roots = (format!("{:?}", s.data_master_root), format!("{:?}", s.system_master_root));
    t.sp_created = s.savepoint_state.created_persistent.iter().copied().collect();
    t.sp_deleted = s.savepoint_state.deleted_persistent.iter().copied().collect();
    t.sp_invalidated = s.savepoint_state.invalidated.iter().copied().collect();
    t.restored = s.restored_transaction;
    Some(t)
}

/// "truthful partial execution": everything the transaction holds after the failed call (bytes of its
/// uncommitted pages, freed queues, staged roots, savepoint bookkeeping) is something the transaction held
/// before the call or holds after the fault-free execution of the same call.  Then no damaged byte was
/// absorbed into what a commit would publish (garbage in, garbage out is C12's subject, not C05's), and a
/// difference between the committed state and the no-op state is a half-applied operation.
fn truthful(d: &TxnState, b: &TxnState, a: &TxnState) -> bool {
    d.pages.iter().all(|(p, h)| a.pages.get(p) == Some(h) || b.pages.get(p) == Some(h))
        && d.data_freed.iter().all(|p| a.data_freed.contains(p) || b.data_freed.contains(p))
        && d.system_freed.iter().all(|p| a.system_freed.contains(p) || b.system_freed.contains(p))
        // a staged root is one staged before / by the fault-free call, or re-stages the root in force before the call
        && d.pending_eff.iter().all(|u| a.pending_eff.contains(u) || b.pending_eff.contains(u) || b.catalog.contains(u))
        && (d.roots.0 == a.roots.0 || d.roots.0 == b.roots.0)
        && (d.roots.1 == a.roots.1 || d.roots.1 == b.roots.1)
        && d.sp_created.iter().all(|x| a.sp_created.contains(x) || b.sp_created.contains(x))
        && d.sp_deleted.iter().all(|x| a.sp_deleted.contains(x) || b.sp_deleted.contains(x))
        && d.sp_invalidated.iter().all(|x| a.sp_invalidated.contains(x) || b.sp_invalidated.contains(x))
        && (d.restored == a.restored || d.restored == b.restored)
}

struct Pre {
    d0: Logical,
    psp0: Vec<u64>,
    /// page offset -> class of the tree it belongs to
    classes: BTreeMap<u64, String>,
}

fn page_offset(cfg: (usize, u64), layout: &redb::verif::VLayout, p: VPage) -> u64 {
    let ps = cfg.0 as u64;
    let region_size = (layout.header_pages as u64 + layout.full_region_pages as u64) * ps;
    ps + p.region as u64 * region_size + layout.header_pages as u64 * ps + p.index as u64 * (ps << p.order)
}

fn classify(cfg: (usize, u64), db: &Database) -> BTreeMap<u64, String> {
    let snap = db.verif_snapshot();
    let lat = snap.mem.latest().clone();
    let mut m = BTreeMap::new();
    let Ok(r): Result<VReach, _> = db.verif_reach(lat.data_root, lat.system_root) else { return m };
    let lay = &snap.mem.layout;
    for p in &r.data_master_pages {
        m.insert(page_offset(cfg, lay, *p), "data-master".to_string());
    }
    for p in &r.system_master_pages {
        m.insert(page_offset(cfg, lay, *p), "sys-master".to_string());
    }
    for t in &r.data_tables {
        for p in &t.pages {
            m.insert(page_offset(cfg, lay, *p), format!("{}:{}", if t.multimap { "mm" } else { "table" }, t.name));
        }
    }
    for t in &r.system_tables {
        for p in &t.pages {
            m.insert(page_offset(cfg, lay, *p), format!("sys:{}", t.name));
        }
    }
    // pages reachable only from savepoints
    for sp in &r.persistent_savepoints {
        if let Ok(rr) = db.verif_reach(sp.data_root, None) {
            for p in &rr.data_pages {
                m.entry(page_offset(cfg, lay, *p)).or_insert_with(|| format!("savepoint:{}", sp.id));
            }
        }
    }
    m
}

fn open_world(cfg: (usize, u64), be: &CorruptBackend, cache: usize) -> Result<World, String> {
    let db = match catch(|| builder(cfg, cache).create_with_backend(be.handle())) {
        Ok(Ok(db)) => db,
        Ok(Err(e)) => return Err(format!("open failed: {e}")),
        Err(p) => return Err(format!("open panicked: {p}")),
    };
    let dummy = RecBackend::new();
    dummy.0.lock().unwrap().record = false;
    Ok(World { backend: dummy, page_size: cfg.0, region_pages: cfg.1, db: Some(db), wtx: None, pins: vec![], next_handle: 1, dur_content: (u64::MAX, vec![]), rust_violations: vec![] })
}

/// the pins of the world := the persistent savepoints stored in the latest system tree
fn adopt_pins(w: &mut World) -> Result<Vec<u64>, String> {
    w.pins.clear();
    let snap = w.db().verif_snapshot();
    let lat = snap.mem.latest().clone();
    let recs = w.reach(lat.data_root, lat.system_root)?.persistent_savepoints;
    let mut ids = vec![];
    for rec in recs {
        let (pages, content) = w.pin_pages(rec.data_root).map_err(|e| format!("persistent savepoint {} cannot be walked: {e}", rec.id))?;
        ids.push(rec.id);
        w.pins.push(Pin { handle: World::handle_of_savepoint(rec.id), kind: PinKind::Pers(rec.id), txn: rec.transaction_id, root: rec.data_root, pages, content, valid: true });
    }
    Ok(ids)
}

const MARK1: u64 = 1 << 42;
const MARK2: u64 = (1 << 42) + 1;

#[derive(Clone, Copy, Debug, PartialEq, Eq)]
enum End {
    Commit,
    Abort,
}

/// the state right before the call, identical in every run of the same operation on the same image
#[derive(Clone)]
struct PreOp {
    st_before: Option<TxnState>,
    lv_before: Option<String>,
}

struct RunOut {
    preop: Option<PreOp>,
    /// count run: the transaction-local state after the fault-free call
    truth: Option<TxnState>,
    /// fault run: Some(true) = truthful partial execution, Some(false) = damaged bytes may have been absorbed
    truthful: Option<bool>,
    res: Res,
    msg: String,
    reads: Vec<(u64, usize)>,
    fired: u32,
    sig_changed: bool,
    /// Some(true/false) or None when the working trees cannot be walked after the failure
    logical_changed: Option<bool>,
    poisoned: bool,
    latched: bool,
    endres: &'static str,
    viol: Vec<String>,
    notes: Vec<String>,
    trace: String,
}

/// compare the state of `w` (no live write transaction) with the expectation
fn check_state(w: &mut World, tag: &str, when: &str, wants: &[Logical], psp0: &[u64], probe: bool, out: &mut RunOut) {
    let ids = match adopt_pins(w) {
        Ok(ids) => ids,
        Err(e) => {
            out.viol.push(format!("{when}: {e}"));
            return;
        }
    };
    if ids != psp0 {
        out.viol.push(format!("{when}: persistent savepoints stored in the system tree {ids:?}, expected {psp0:?}"));
    }
    match w.observe() {
        Ok(o) => {
            writeln!(out.trace, "X {}", when.replace(' ', "_")).unwrap();
            out.trace.push_str(&o.abs.line(&format!("{tag}:{}", when.replace(' ', "_"))));
            out.trace.push('\n');
            let tr = &o.db.tracker;
            if tr.persistent_savepoints != psp0 {
                out.viol.push(format!("{when}: tracker persistent savepoints {:?}, expected {psp0:?}", tr.persistent_savepoints));
            }
            let valid: Vec<u64> = tr.valid_savepoints.iter().map(|x| x.0).collect();
            if valid != psp0 {
                out.viol.push(format!("{when}: tracker valid savepoints {valid:?}, expected {psp0:?} (a savepoint nobody can see stays registered, or a visible one is not)"));
            }
            if tr.live_write_transaction.is_some() {
                out.viol.push(format!("{when}: tracker still has a live write transaction"));
            }
            if o.db.mem.needs_repair || o.db.mem.storage_failure {
                out.notes.push(format!("{when}: needs_repair={} storage_failure={}", o.db.mem.needs_repair, o.db.mem.storage_failure));
            }
        }
        Err(e) => out.viol.push(format!("{when}: the committed state cannot be walked: {e}")),
    }
    for v in w.rust_violations.drain(..) {
        out.viol.push(format!("{when}: {v}"));
    }
    match dump(w.db()) {
        Ok(d) => {
            if !wants.iter().any(|w| w == &d) {
                out.viol.push(format!("{when}: contents differ from the state in which the failed operation did not happen: {}", describe_diff(&wants[0], &d)));
            }
        }
        Err(e) => out.viol.push(format!("{when}: {e}")),
    }
    if probe {
        // savepoint validity through restore, in scratch transactions that are aborted
        for id in psp0 {
            let r = catch(|| -> Result<(), String> {
                let mut t = w.db().begin_write().map_err(|e| format!("begin_write: {e}"))?;
                let sp = t.get_persistent_savepoint(*id).map_err(|e| format!("get_persistent_savepoint: {e}"))?;
                t.restore_savepoint(&sp).map_err(|e| format!("restore_savepoint: {e}"))?;
                t.abort().map_err(|e| format!("abort: {e}"))?;
                Ok(())
            });
            match r {
                Ok(Ok(())) => {}
                Ok(Err(e)) => out.viol.push(format!("{when}: persistent savepoint {id} is no longer restorable: {e}")),
                Err(p) => out.viol.push(format!("{when}: restoring persistent savepoint {id} panicked: {}", p.chars().take(120).collect::<String>())),
            }
        }
    }
}

fn run_one(img: &Image, pre: Option<&Pre>, truth: Option<&TxnState>, preop: Option<&PreOp>, op: &Op, plan: Option<Plan>, end: End, tag: &str) -> RunOut {
    let mut out = RunOut {
        preop: None, truth: None, truthful: None,
        res: Res::Ok, msg: String::new(), reads: vec![], fired: 0, sig_changed: false, logical_changed: Some(false),
        poisoned: false, latched: false, endres: "-", viol: vec![], notes: vec![], trace: String::new(),
    };
    let be = CorruptBackend::with_data(img.bytes.clone());
    let mut w = match open_world(img.cfg, &be, 0) {
        Ok(w) => w,
        Err(e) => {
            out.viol.push(e);
            return out;
        }
    };
    writeln!(out.trace, "H {tag} page={} region_pages={}", img.cfg.0, img.cfg.1).unwrap();
    let mut txn = match catch(|| w.db().begin_write()) {
        Ok(Ok(t)) => t,
        other => {
            out.viol.push(format!("begin_write failed: {:?}", other.map(|r| r.map(|_| ()))));
            return out;
        }
    };
    let mut want = pre.map(|p| p.d0.clone()).unwrap_or_default();
    let mut mark = |txn: &WriteTransaction, key: u64, want: &mut Logical, notes: &mut Vec<String>| {
        let r = catch(|| -> Result<(), redb::Error> {
            let mut tm = txn.open_table(tdef("tm"))?;
            tm.insert(key, [7u8; 3].as_slice())?;
            Ok(())
        });
        match r {
            Ok(Ok(())) => {
                let e = want.tables.entry("tm".into()).or_default();
                e.push((key, vhash(&[7u8; 3])));
                e.sort();
            }
            other => notes.push(format!("marker write {key} failed: {other:?}")),
        }
    };
    if !op.needs_clean() {
        mark(&txn, MARK1, &mut want, &mut out.notes);
    }
    let before = txn.verif_snapshot();
    let (st_before, lv_before) = match preop {
        Some(p) => (p.st_before.clone(), p.lv_before.clone()),
        None => (txn_state(&txn, &before), logical_view(&txn)),
    };
    if pre.is_none() {
        out.preop = Some(PreOp { st_before: st_before.clone(), lv_before: lv_before.clone() });
    }
    let (res, msg, rep, reads, fired) = exec_op(op, img, &mut txn, &be, plan);
    out.res = res;
    out.msg = msg;
    out.reads = reads;
    out.fired = fired;
    let after = match catch(|| txn.verif_snapshot()) {
        Ok(s) => s,
        Err(p) => {
            // a lock of the transaction is poisoned by the panic: nothing more can be done with it in-process
            out.notes.push(format!("snapshot after the call panicked: {}", p.chars().take(100).collect::<String>()));
            out.sig_changed = true;
            out.logical_changed = None;
            std::mem::forget(txn);
            std::mem::forget(w);
            out.endres = "unusable";
            if let Some(pre) = pre {
                reopen_check(img, &be, tag, "after the transaction became unusable", &[pre.d0.clone()], &pre.psp0, &mut out);
            }
            return out;
        }
    };
    out.sig_changed = txn_sig(&before) != txn_sig(&after);
    out.poisoned = after.poisoned;
    out.latched = after.db.mem.storage_failure;
    // (the walk of the working trees is skipped when the call succeeded: nothing is judged then)
    if res != Res::Ok || pre.is_none() {
        let lv_after = logical_view(&txn);
        out.logical_changed = match (&lv_before, &lv_after) {
            (Some(a), Some(b)) => Some(a != b),
            _ => None,
        };
    }
    if res == Res::Ok && pre.is_some() {
        let _ = catch(|| txn.abort());
        return out;
    }
    let st_after = txn_state(&txn, &after);
    if pre.is_none() {
        out.truth = st_after;
        let _ = catch(|| txn.abort());
        return out;
    }
    if res == Res::Ok {
        // the operation did not fail (the damage was not looked at, or absorbed): nothing to judge
        let _ = catch(|| txn.abort());
        return out;
    }
    out.truthful = match (&st_after, &st_before, truth) {
        (Some(d), Some(b), Some(a)) => Some(truthful(d, b, a)),
        _ => Some(false),
    };
    let pre = pre.unwrap();
    // acceptable contents after a successful commit: the failed operation did not happen at all; for retain /
    // extract also: exactly the entries reported to the caller before the failure are gone
    let mut wants: Vec<Logical> = vec![];
    let committed;
    match end {
        End::Commit => {
            mark(&txn, MARK2, &mut want, &mut out.notes);
            wants.push(want.clone());
            if let Some(t) = rep.table {
                if !rep.removed.is_empty() {
                    let mut w2 = want.clone();
                    if let Some(v) = w2.tables.get_mut(t) {
                        v.retain(|(k, _)| !rep.removed.contains(k));
                    }
                    wants.push(w2);
                }
            }
            match catch(|| txn.commit()) {
                Ok(Ok(())) => {
                    out.endres = "ok";
                    committed = true;
                }
                Ok(Err(CommitError::TransactionPoisoned)) => {
                    out.endres = "poisoned";
                    committed = false;
                }
                Ok(Err(CommitError::Storage(e))) => {
                    out.endres = if matches!(e, StorageError::Io(_) | StorageError::PreviousIo) { "ioerr" } else { "err" };
                    out.notes.push(format!("commit error: {e}"));
                    committed = false;
                }
                Ok(Err(e)) => {
                    out.endres = "err";
                    out.notes.push(format!("commit error: {e}"));
                    committed = false;
                }
                Err(p) => {
                    out.endres = "panic";
                    out.notes.push(format!("commit panicked: {}", p.chars().take(120).collect::<String>()));
                    committed = false;
                }
            }
        }
        End::Abort => {
            match catch(|| txn.abort()) {
                Ok(Ok(())) => out.endres = "ok",
                Ok(Err(e)) => {
                    out.endres = if matches!(e, StorageError::Io(_) | StorageError::PreviousIo) { "ioerr" } else { "err" };
                    out.notes.push(format!("abort error: {e}"));
                }
                Err(p) => {
                    out.endres = "panic";
                    out.notes.push(format!("abort panicked: {}", p.chars().take(120).collect::<String>()));
                }
            }
            committed = false;
        }
    }
    if committed && out.truthful != Some(true) {
        // damaged bytes may have been absorbed into what was committed (the pages / queues the transaction
        // held after the failed call are not those of a fault-free execution): whatever was committed is
        // "garbage in, garbage out", which C05 does not speak about
        out.endres = "ok-gigo";
        w.pins.clear();
        let _ = catch(|| drop(w.db.take()));
        std::mem::forget(w);
        return out;
    }
    let expected: Vec<Logical> = if committed { wants } else { vec![pre.d0.clone()] };
    let what = if committed { "after the commit" } else if end == End::Commit { "after the refused commit" } else { "after the abort" };
    // in the session (skipped when the end itself went wrong: then only the reopen counts)
    if out.endres != "panic" && out.endres != "err" && out.endres != "ioerr" {
        let r = catch(|| check_state(&mut w, tag, what, &expected, &pre.psp0, true, &mut out));
        if let Err(p) = r {
            out.viol.push(format!("{what}: observing the state panicked: {}", p.chars().take(160).collect::<String>()));
        }
    }
    // after a reopen
    w.pins.clear();
    let closed = catch(|| drop(w.db.take()));
    if closed.is_err() {
        out.notes.push("closing the database panicked".into());
    }
    std::mem::forget(w);
    reopen_check(img, &be, tag, what, &expected, &pre.psp0, &mut out);
    out
}

fn reopen_check(img: &Image, be: &CorruptBackend, tag: &str, what: &str, expected: &[Logical], psp0: &[u64], out: &mut RunOut) {
    match open_world(img.cfg, be, 1 << 20) {
        Ok(mut w2) => {
            let when = format!("{what} and a reopen");
            let r = catch(|| check_state(&mut w2, tag, &when, expected, psp0, false, out));
            if let Err(p) = r {
                out.viol.push(format!("{when}: observing the state panicked: {}", p.chars().take(160).collect::<String>()));
            }
            let r = catch(|| -> Result<(), redb::Error> {
                let t = w2.db().begin_write()?;
                {
                    let mut tab = t.open_table(tdef("tm"))?;
                    tab.insert(1u64 << 43, [1u8; 2].as_slice())?;
                }
                t.commit()?;
                Ok(())
            });
            match r {
                Ok(Ok(())) => {}
                other => out.viol.push(format!("{when}: a new transaction does not commit: {other:?}")),
            }
            w2.pins.clear();
        }
        Err(e) => out.viol.push(format!("{what}: reopen: {e}")),
    }
}

// ====================================================================================== child: all runs of one image

struct Files {
    cases: std::fs::File,
    runs: std::fs::File,
    viol: std::fs::File,
    trace: std::fs::File,
    logs: std::fs::File,
    progress: std::fs::File,
}

fn append(name: &str) -> std::fs::File {
    std::fs::OpenOptions::new().create(true).append(true).open(name).unwrap()
}

fn child(args: &[String]) {
    let image: usize = args[2].parse().unwrap();
    let first_run: usize = args[3].parse().unwrap();
    let variants: usize = args[5].parse().unwrap();
    let only_op: Option<usize> = args.get(6).and_then(|s| s.parse().ok());
    let thorough = rv_harness::tier_is_thorough();
    let mut master = Rng::new(seed_from_env() ^ 0xC05C);
    let mut r = Rng::new(0);
    for i in 0..=image {
        r = master.fork(i as u64);
    }
    let mut f = Files { cases: append("corrupt_cases.txt"), runs: append("corrupt_runs.txt"), viol: append("corrupt_viol.txt"), trace: append("corrupt_trace.txt"), logs: append("corrupt_logs.txt"), progress: append("corrupt_progress.txt") };
    let img = build_image(&mut r, image);
    // pre-transaction state of the image
    let pre = {
        let be = CorruptBackend::with_data(img.bytes.clone());
        let w = open_world(img.cfg, &be, 1 << 20).expect("open image");
        let d0 = dump(w.db()).expect("dump image");
        let classes = classify(img.cfg, w.db());
        Pre { d0, psp0: img.psp.clone(), classes }
    };
    if first_run == 0 {
        writeln!(f.logs, "image {image}: {}", img.descr).unwrap();
    }
    let ops = ops_for(&img, &mut r);
    let mut run_no = 0usize;
    let mut summary: BTreeMap<String, u64> = BTreeMap::new();
    let mut count = |summary: &mut BTreeMap<String, u64>, k: String| *summary.entry(k).or_default() += 1;
    let other_page: Vec<u8> = {
        // some other valid page of the image (a t2 leaf if possible)
        let off = pre.classes.iter().find(|(_, c)| c.as_str() == "table:t2").map(|(o, _)| *o as usize).unwrap_or(img.cfg.0);
        img.bytes[off..off + img.cfg.0].to_vec()
    };
    // operations completed by an earlier child of this image (after a process abort): "OPDONE image op run_no"
    let mut done_ops: BTreeMap<usize, usize> = BTreeMap::new();
    if first_run > 0 {
        for l in std::fs::read_to_string("corrupt_progress.txt").unwrap_or_default().lines() {
            let p: Vec<&str> = l.split(' ').collect();
            if p.len() == 4 && p[0] == "OPDONE" && p[1].parse() == Ok(image) {
                if let (Ok(o), Ok(n)) = (p[2].parse::<usize>(), p[3].parse::<usize>()) {
                    done_ops.insert(o, n);
                }
            }
        }
    }
    for (oi, op) in ops.iter().enumerate() {
        let mut ro = r.fork(oi as u64);
        if only_op.is_some() && only_op != Some(oi) {
            continue;
        }
        if let Some(n) = done_ops.get(&oi) {
            run_no = *n;
            continue;
        }
        // ---- count run
        let base = run_one(&img, None, None, None, op, None, End::Abort, &format!("i{image}.o{oi}.count"));
        if first_run == 0 || run_no >= first_run {
            let mut s = String::new();
            for (j, (off, len)) in base.reads.iter().enumerate() {
                write!(s, " {j}:{}@{off}+{len}", pre.classes.get(off).map(|c| c.as_str()).unwrap_or("other")).unwrap();
            }
            writeln!(f.logs, "image {image} op {oi} {op:?} kind={} res={} {} reads:{s}", op.kind(), base.res.name(), base.msg).unwrap();
        }
        if base.res != Res::Ok || !base.msg.is_empty() {
            // the fault-free operation must succeed
            if run_no >= first_run {
                writeln!(f.viol, "i{image}.o{oi}.count: the fault-free run of {op:?} did not succeed: {} {}", base.res.name(), base.msg).unwrap();
            }
            writeln!(f.progress, "OPDONE {image} {oi} {run_no}").unwrap();
            continue;
        }
        // ---- fault runs
        let nreads = base.reads.len();
        // quick tier: at most 10 read positions per operation (the first four, the last three, three sampled)
        let positions: Vec<usize> = if thorough || nreads <= 10 {
            (0..nreads).collect()
        } else {
            let mut c: BTreeSet<usize> = [0, 1, 2, 3, nreads - 3, nreads - 2, nreads - 1].into_iter().collect();
            while c.len() < 10 {
                c.insert(ro.below(nreads as u64) as usize);
            }
            c.into_iter().collect()
        };
        for j in positions {
            let (off, len) = base.reads[j];
            let class = pre.classes.get(&off).cloned().unwrap_or_else(|| "other".to_string());
            let nth = base.reads[..=j].iter().filter(|x| x.0 == off).count();
            let page = &img.bytes[off as usize..(off as usize + len).min(img.bytes.len())];
            // the full variant list for this read
            let mut all: Vec<(Damage, &'static str)> = vec![];
            for (o, what) in selected_bytes(page, &class) {
                all.push((Damage::Xor(o, 0xff), what));
                all.push((Damage::Xor(o, 0x01), what));
                all.push((Damage::Set(o, 0x00), what));
                all.push((Damage::Xor(o, 0x80), what));
                all.push((Damage::Set(o, 0x09), what));
            }
            all.push((Damage::Zero, "page"));
            all.push((Damage::Other(other_page.clone()), "page"));
            // `variants` damage variants per read (0 = every variant)
            let chosen: Vec<usize> = if variants == 0 || all.len() <= variants {
                (0..all.len()).collect()
            } else {
                // always: the type byte, the entry count, the first byte of the first value; the rest sampled
                let mut c: BTreeSet<usize> = BTreeSet::new();
                for want in ["type", "count-lo", "value-byte0", "value-byte0-last", "child-index", "child-order"] {
                    if let Some(i) = all.iter().position(|(_, w)| *w == want) {
                        c.insert(i + (ro.below(5) as usize).min(all.len() - 1 - i).min(if want == "type" { 4 } else { 4 }));
                    }
                }
                while c.len() < variants.min(all.len()) {
                    c.insert(ro.below(all.len() as u64) as usize);
                }
                c.into_iter().collect()
            };
            for vi in chosen {
                let (dmg, what) = all[vi].clone();
                let sticky = ro.chance(1, 4);
                let do_abort_sibling = thorough || ro.chance(1, 3);
                let base_no = run_no;
                run_no += 2;
                if base_no < first_run {
                    continue;
                }
                for end in [End::Commit, End::Abort] {
                    let this = if end == End::Commit { base_no } else { base_no + 1 };
                    let tag = format!("i{image}.o{oi}.r{j}.v{vi}{}.{}", if sticky { "s" } else { "" }, if end == End::Commit { "c" } else { "a" });
                    writeln!(f.progress, "{this} {tag}").unwrap();
                    let plan = Plan { read: j, damage: dmg.clone(), sticky };
                    let o = run_one(&img, Some(&pre), base.truth.as_ref(), base.preop.as_ref(), op, Some(plan), end, &tag);
                    let failed = o.res != Res::Ok;
                    let verdict = if !failed { "n/a" } else if o.viol.is_empty() { "ok" } else { "VIOL" };
                    writeln!(
                        f.runs,
                        "F {tag} kind={} op={} read={j}/{nreads} class={class} nth={nth} what={what} dmg={}{} fired={} res={} truthful={} sig={} logical={} poisoned={} latched={} end={} endres={} verdict={verdict}",
                        op.kind(), format!("{op:?}").replace(' ', ""), dmg.name(), if sticky { "+sticky" } else { "" }, o.fired, o.res.name(), match o.truthful { Some(true) => "1", Some(false) => "0", None => "-" },
                        u8::from(o.sig_changed), match o.logical_changed { Some(true) => "1", Some(false) => "0", None => "x" },
                        u8::from(o.poisoned), u8::from(o.latched), if end == End::Commit { "commit" } else { "abort" }, o.endres
                    )
                    .unwrap();
                    if failed {
                        // the block for ocaml/c05_driver.ml: flags of the failed call and the result of the end
                        // against the extracted model (flags_after / corrupt_outcome_ok / commit_result)
                        let staged = match (op.kind(), o.logical_changed) {
                            // entry-by-entry calls: the harness cannot tell a reported prefix from an unreported part
                            ("retain" | "extract" | "cursor", _) => "-",
                            (_, Some(false)) => "0",
                            _ => "1",
                        };
                        let mut blk = format!("R {tag}\n");
                        match o.res {
                            // every error that is not an I/O error is, in this family, caused by the damaged read --
                            // also an argument / state error computed from damaged bytes (e.g. restore_savepoint_inner
                            // meeting a bogus later savepoint id: ImmediateDurabilityRequired after the root swap)
                            Res::Corrupted => writeln!(blk, "K {} {staged} {} {}", op.kind(), u8::from(o.poisoned), u8::from(o.latched)).unwrap(),
                            Res::Logical => writeln!(blk, "L {} {staged} {} {}", op.kind(), u8::from(o.poisoned), u8::from(o.latched)).unwrap(),
                            // latched storage: the working trees cannot be walked, "mutated" falls back on the raw signature
                            Res::Io => writeln!(
                                blk, "C {} {} io 0 0 {} {}", op.kind(),
                                match o.logical_changed { Some(b) => u8::from(b), None => u8::from(o.sig_changed) },
                                u8::from(o.poisoned), u8::from(o.latched)
                            ).unwrap(),
                            _ => {}
                        }
                        let er = match o.endres { "ok" | "ok-gigo" => Some("ok"), "poisoned" => Some("poisoned"), "ioerr" => Some("ioerr"), _ => None };
                        if let Some(er) = er {
                            writeln!(blk, "E {} {} {} {er}", if end == End::Commit { "commit" } else { "abort" }, u8::from(o.poisoned), u8::from(o.latched)).unwrap();
                        } else {
                            writeln!(blk, "E none 0 0 -").unwrap();
                        }
                        f.cases.write_all(blk.as_bytes()).unwrap();
                    }
                    count(&mut summary, format!("res_{}_{}", op.kind(), o.res.name()));
                    if failed {
                        count(&mut summary, format!("end_{}_{}_{}", if end == End::Commit { "commit" } else { "abort" }, o.res.name(), o.endres));
                        f.trace.write_all(o.trace.as_bytes()).unwrap();
                    }
                    for v in &o.viol {
                        let cls = if o.res == Res::Panic { "after-internal-panic" } else { "after-error" };
                        writeln!(
                            f.viol,
                            "{tag}: [{cls}] {:?} failed ({}: {}) with read {j} ({class}, {what}, {}) damaged, staged={}/{} poisoned={} end={:?}:{} :: {}",
                            op, o.res.name(), o.msg.replace('\n', " "), dmg.name(), u8::from(o.sig_changed),
                            match o.logical_changed { Some(true) => "1", Some(false) => "0", None => "x" }, u8::from(o.poisoned), end, o.endres, v.replace('\n', " ")
                        )
                        .unwrap();
                    }
                    if !failed || !do_abort_sibling {
                        break;
                    }
                }
            }
        }
        writeln!(f.progress, "OPDONE {image} {oi} {run_no}").unwrap();
    }
    let mut st = String::new();
    for (k, v) in &summary {
        write!(st, "{k}={v} ").unwrap();
    }
    writeln!(f.progress, "DONE {image} runs={run_no} {st}").unwrap();
    println!("DONE image={image} runs={run_no} {st}");
}

// ====================================================================================== parent

fn parent(args: &[String]) {
    let n: usize = args.get(2).map(|s| s.parse().unwrap()).unwrap_or(2);
    let variants: usize = args.get(3).map(|s| s.parse().unwrap()).unwrap_or(6);
    let only: Option<usize> = if args.get(4).map(|s| s.as_str()) == Some("only") { Some(args[5].parse().unwrap()) } else { None };
    let only_op: Option<String> = if only.is_some() { args.get(6).cloned() } else { None };
    for fname in ["corrupt_cases.txt", "corrupt_runs.txt", "corrupt_viol.txt", "corrupt_trace.txt", "corrupt_logs.txt", "corrupt_progress.txt"] {
        std::fs::File::create(fname).unwrap();
    }
    let exe = std::env::current_exe().unwrap();
    let mut totals: BTreeMap<String, u64> = BTreeMap::new();
    let mut aborted = 0u64;
    let mut total_runs = 0u64;
    for image in 0..n {
        if only.is_some() && only != Some(image) {
            continue;
        }
        let mut first = 0usize;
        let mut restarts = 0;
        loop {
            let mut cmd = std::process::Command::new(&exe);
            cmd.arg("child").arg(image.to_string()).arg(first.to_string()).arg(n.to_string()).arg(variants.to_string());
            if let Some(o) = &only_op {
                cmd.arg(o);
            }
            let outp = cmd.output().expect("spawn child");
            let so = String::from_utf8_lossy(&outp.stdout).to_string();
            if let Some(line) = so.lines().find(|l| l.starts_with("DONE ")) {
                for kv in line.split(' ').skip(2) {
                    if let Some((k, v)) = kv.split_once('=') {
                        if k == "runs" {
                            total_runs += v.parse::<u64>().unwrap_or(0);
                        } else if let Ok(x) = v.parse::<u64>() {
                            *totals.entry(k.to_string()).or_default() += x;
                        }
                    }
                }
                break;
            }
            // the child died: the run in progress is the last line of the progress file
            let prog = std::fs::read_to_string("corrupt_progress.txt").unwrap_or_default();
            let last = prog.lines().last().unwrap_or("").to_string();
            let mut it = last.split(' ');
            let no: Option<usize> = it.next().and_then(|s| s.parse().ok());
            let tag = it.next().unwrap_or("?").to_string();
            aborted += 1;
            restarts += 1;
            let mut fr = append("corrupt_runs.txt");
            writeln!(fr, "A {tag} the process died during this run (status {:?}): {}", outp.status.code(), String::from_utf8_lossy(&outp.stderr).lines().last().unwrap_or("").chars().take(200).collect::<String>()).unwrap();
            match no {
                Some(k) if restarts < 400 => first = k + 1,
                _ => {
                    let mut fv = append("corrupt_viol.txt");
                    writeln!(fv, "i{image}: the harness child cannot make progress (last progress line `{last}`)").unwrap();
                    break;
                }
            }
        }
    }
    // statistics from the runs file (complete across restarts of the children)
    let runs = std::fs::read_to_string("corrupt_runs.txt").unwrap_or_default();
    let mut failed = 0u64;
    let mut judged = 0u64;
    let mut sigs: BTreeSet<String> = BTreeSet::new();
    let mut nruns = 0u64;
    for l in runs.lines() {
        if !l.starts_with("F ") {
            continue;
        }
        nruns += 1;
        let kv: BTreeMap<&str, &str> = l.split(' ').filter_map(|x| x.split_once('=')).collect();
        let g = |k: &str| kv.get(k).copied().unwrap_or("?");
        *totals.entry(format!("res_{}_{}", g("kind"), g("res"))).or_default() += 1;
        if g("res") != "ok" {
            failed += 1;
            *totals.entry(format!("end_{}_{}_{}", g("end"), g("res"), g("endres"))).or_default() += 1;
            *totals.entry(format!("site_{}", g("class").split(':').next().unwrap_or("?"))).or_default() += 1;
            *totals.entry(format!("byte_{}", g("what"))).or_default() += 1;
            if g("endres") != "ok-gigo" {
                judged += 1;
            }
            let opname: String = g("op").chars().take_while(|c| c.is_alphabetic()).collect();
            sigs.insert(format!("{}/{}/{}/{}/{}/{}/{}/{}", opname, g("class").split(':').next().unwrap_or("?"), g("res"), g("truthful"), g("logical"), g("poisoned"), g("end"), g("endres")));
        }
    }
    let _ = total_runs;
    let mut st = String::new();
    for (k, v) in &totals {
        write!(st, "{k}={v} ").unwrap();
    }
    let nviol = std::fs::read_to_string("corrupt_viol.txt").map(|s| s.lines().count()).unwrap_or(0);
    println!("corrupt: images={n} runs={nruns} failed_calls={failed} judged={judged} distinct_failure_situations={} process_aborts={aborted} violations={nviol}", sigs.len());
    println!("corrupt_ops: {st}");
}

fn main() {
    if std::env::var("VERIF_SHOW_PANICS").is_err() {
        silence_panics();
    }
    let args: Vec<String> = std::env::args().collect();
    match args.get(1).map(|s| s.as_str()) {
        Some("child") => child(&args),
        _ => parent(&args),
    }
}
