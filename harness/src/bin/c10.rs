//! C10 harness: generated histories through the real crate on a recording in-memory backend; after the
//! final sync of every durable commit, after compaction and after clean close the backend bytes are
//! written to `<out>/img_<h>_<i>.bin` together with `<out>/exp_<h>_<i>.txt`, the contents a plain
//! sorted-map spec (kept here) says every user table must have.  The extracted Coq reader then has to
//! accept every image (wf) and decode exactly these contents.
//!
//! usage: c10 xxh <n>                     writes cases.txt / impl.txt (XXH3-128 differential, all length classes)
//!        c10 hist <n_histories> <outdir>  writes images, expectations and index.txt
//!        c10 trees <n> <outdir>           writer-model correspondence: logical trees (Table::verif_shape + contents)
//!                                         next to the image taken after the commit (tree_<i>.txt, timg_<i>.bin, trees.txt)
#[path = "../c10_util.rs"]
mod util;
#[path = "../c10_tree.rs"]
mod tree;

use rv_harness::{Rng, hex, seed_from_env, silence_panics};
use std::fmt::Write as _;

fn xxh(n: u64) {
    let mut r = Rng::new(seed_from_env() ^ 0x5858_4833);
    let mut cases = String::new();
    let mut out = String::new();
    let mut classes = std::collections::BTreeMap::new();
    // every length 0..=300 once, then random lengths per class, then page-like sizes
    let mut lens: Vec<usize> = (0..=300).collect();
    for _ in 0..n {
        lens.push(match r.below(9) {
            0 => 0,
            1 => r.range(1, 3) as usize,
            2 => r.range(4, 8) as usize,
            3 => r.range(9, 16) as usize,
            4 => r.range(17, 128) as usize,
            5 => r.range(129, 240) as usize,
            6 => r.range(241, 1100) as usize,
            7 => *r.pick(&[512usize, 1023, 1024, 1025, 2047, 2048, 2049, 4096, 112]),
            _ => r.range(1100, 9000) as usize,
        });
    }
    for len in lens {
        let data: Vec<u8> = match r.below(4) {
            0 => vec![0u8; len],
            1 => vec![0xffu8; len],
            _ => r.bytes(len),
        };
        let class = match len {
            0 => "0",
            1..=3 => "1-3",
            4..=8 => "4-8",
            9..=16 => "9-16",
            17..=128 => "17-128",
            129..=240 => "129-240",
            _ => ">240",
        };
        *classes.entry(class).or_insert(0u64) += 1;
        writeln!(cases, "{}", hex(&data)).unwrap();
        writeln!(out, "{:032x}", redb::verif::xxh3_128(&data)).unwrap();
    }
    std::fs::write("cases.txt", cases).unwrap();
    std::fs::write("impl.txt", out).unwrap();
    let cls: Vec<String> = classes.iter().map(|(k, v)| format!("{k}:{v}")).collect();
    println!("xxh_cases={} classes={}", classes.values().sum::<u64>(), cls.join(","));
}

fn main() {
    silence_panics();
    let args: Vec<String> = std::env::args().collect();
    match args.get(1).map(|s| s.as_str()) {
        Some("xxh") => xxh(args[2].parse().unwrap()),
        Some("hist") => {
            let n: u64 = args[2].parse().unwrap();
            let out = std::path::PathBuf::from(&args[3]);
            std::fs::create_dir_all(&out).unwrap();
            let mut r = Rng::new(seed_from_env());
            let mut index = String::new();
            let mut stats = util::Stats::default();
            for h in 0..n {
                let mut hr = r.fork(h);
                util::run_history(h, &mut hr, &out, &mut index, &mut stats, &util::Mode::Current);
            }
            std::fs::write(out.join("index.txt"), index).unwrap();
            println!("{}", stats.summary());
        }
        Some("trees") => {
            let n: u64 = args[2].parse().unwrap();
            let out = std::path::PathBuf::from(&args[3]);
            std::fs::create_dir_all(&out).unwrap();
            let mut r = Rng::new(seed_from_env() ^ 0x7265_6573);
            let st = tree::run(n, &mut r, &out);
            println!("{}", st.summary());
        }
        _ => {
            eprintln!("usage: c10 xxh <n> | c10 hist <n> <outdir> | c10 trees <n> <outdir>");
            std::process::exit(2);
        }
    }
}
