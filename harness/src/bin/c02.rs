//! C02 -- A read transaction sees one frozen snapshot.
//!
//! Part 1 (histories): random histories of write transactions (commits of every durability, aborts,
//! savepoint restores, table deletion, growth and shrinking, compaction attempts) with up to 6 readers
//! live at once, begun at different commits. The harness keeps its own sorted-map specification of the
//! database; every reader remembers the specification as of its begin_read. After EVERY later
//! write-side step every live reader re-runs its whole query set (table lists, get, ranges in both
//! directions, len, first/last, multimap gets) and must get exactly its remembered snapshot. Readers
//! of kind "owned" drop their ReadTransaction handle at once and keep only owned guards and owned
//! ranges, which are consumed one element per step from either end.
//!
//! Part 2 (schedules): begin_read stopped between its registration and its root read (H4 pause
//! points) while one commit of each kind runs, then page churn, then the same query set.
//!
//! usage: c02 <n_histories> <steps>        output: oracle.txt (violations), hist.txt (one line per history)

use redb::{Builder, Database, Durability, MultimapTableDefinition, ReadOnlyTable, ReadTransaction, ReadableDatabase,
           ReadableMultimapTable, ReadableTable, ReadableTableMetadata, Savepoint, TableDefinition, TableHandle,
           MultimapTableHandle};
use rv_harness::conc::{ConcBackend, Controller, Event, MemFile};
use rv_harness::{seed_from_env, Rng};
use std::collections::{BTreeMap, BTreeSet, VecDeque};
use std::io::Write as _;
use std::sync::{Arc, Mutex};

const TNAMES: [&str; 3] = ["t0", "t1", "t2"];
const MNAME: &str = "m0";
const KEYSPACE: u64 = 60;

fn tdef(name: &str) -> TableDefinition<'_, u64, &'static [u8]> {
    TableDefinition::new(name)
}
fn mdef() -> MultimapTableDefinition<'static, u64, u64> {
    MultimapTableDefinition::new(MNAME)
}

#[derive(Clone, Default, PartialEq, Eq, Debug)]
struct Spec {
    tables: BTreeMap<String, BTreeMap<u64, Vec<u8>>>,
    mm: BTreeMap<String, BTreeMap<u64, BTreeSet<u64>>>,
}

/// every (commit, table, key) gets different bytes, so a page of another version cannot pass for this one
fn value_for(stamp: u64, table: usize, key: u64, len: usize) -> Vec<u8> {
    let mut v = Vec::with_capacity(len + 24);
    let mut x = stamp.wrapping_mul(0x9E37_79B9_7F4A_7C15) ^ (key << 8) ^ table as u64;
    while v.len() < len {
        v.extend_from_slice(&stamp.to_le_bytes());
        v.extend_from_slice(&key.to_le_bytes());
        x = x.rotate_left(13).wrapping_mul(0xBF58_476D_1CE4_E5B9);
        v.extend_from_slice(&x.to_le_bytes());
    }
    v.truncate(len.max(1));
    v
}

enum Owned {
    Guard { table: String, key: u64, guard: redb::OwnedAccessGuard<&'static [u8]>, expect: Vec<u8> },
    Range { table: String, it: redb::OwnedRange<u64, &'static [u8]>, expect: VecDeque<(u64, Vec<u8>)> },
    MmValue { key: u64, it: redb::OwnedMultimapValue<u64>, expect: VecDeque<u64> },
}

struct Reader {
    id: usize,
    begun_at: u64,
    snap: Spec,
    /// None for readers of kind "owned" once the handle has been dropped
    rt: Option<ReadTransaction>,
    owned: Vec<Owned>,
    sub: (u64, u64),
    late_root_nd: bool,
    /// page-level view (H3): the pages reachable from the root this reader reads, with a hash of their bytes
    pages: Vec<(redb::verif::VPage, u64)>,
    registered: u64,
}

fn check_table(rt: &ReadTransaction, name: &str, want: Option<&BTreeMap<u64, Vec<u8>>>, sub: (u64, u64)) -> Result<u64, String> {
    let mut q = 0u64;
    let t: ReadOnlyTable<u64, &[u8]> = match (rt.open_table(tdef(name)), want) {
        (Ok(t), Some(_)) => t,
        (Err(redb::TableError::TableDoesNotExist(_)), None) => return Ok(1),
        (Ok(_), None) => return Err(format!("table {name} exists in the reader but not in its snapshot")),
        (Err(e), _) => return Err(format!("open_table({name}): {e}")),
    };
    let want = want.unwrap();
    let l = t.len().map_err(|e| format!("len({name}): {e}"))?;
    if l != want.len() as u64 {
        return Err(format!("len({name}) = {l}, snapshot has {}", want.len()));
    }
    q += 1;
    // full scan forward
    let mut got = vec![];
    for e in t.iter().map_err(|e| format!("iter({name}): {e}"))? {
        let (k, v) = e.map_err(|e| format!("iter.next({name}): {e}"))?;
        got.push((k.value(), v.value().to_vec()));
    }
    let exp: Vec<(u64, Vec<u8>)> = want.iter().map(|(k, v)| (*k, v.clone())).collect();
    if got != exp {
        return Err(format!("forward scan of {name} differs from the snapshot: got keys {:?}, expected keys {:?}{}",
            got.iter().map(|x| x.0).collect::<Vec<_>>(), exp.iter().map(|x| x.0).collect::<Vec<_>>(),
            if got.len() == exp.len() { " (or values differ)" } else { "" }));
    }
    q += 1;
    // full scan backward
    let mut gotr = vec![];
    for e in t.iter().map_err(|e| format!("iter({name}): {e}"))?.rev() {
        let (k, v) = e.map_err(|e| format!("rev.next({name}): {e}"))?;
        gotr.push((k.value(), v.value().to_vec()));
    }
    let mut expr = exp.clone();
    expr.reverse();
    if gotr != expr {
        return Err(format!("reverse scan of {name} differs from the snapshot"));
    }
    q += 1;
    // sub-range both directions
    let (a, b) = sub;
    let exps: Vec<(u64, Vec<u8>)> = want.range(a..b).map(|(k, v)| (*k, v.clone())).collect();
    let mut gots = vec![];
    for e in t.range(a..b).map_err(|e| format!("range({name}): {e}"))? {
        let (k, v) = e.map_err(|e| format!("range.next({name}): {e}"))?;
        gots.push((k.value(), v.value().to_vec()));
    }
    if gots != exps {
        return Err(format!("range {a}..{b} of {name} differs from the snapshot"));
    }
    let mut gotsr = vec![];
    for e in t.range(a..=b).map_err(|e| format!("range({name}): {e}"))?.rev() {
        let (k, v) = e.map_err(|e| format!("range.rev({name}): {e}"))?;
        gotsr.push((k.value(), v.value().to_vec()));
    }
    let mut expsr: Vec<(u64, Vec<u8>)> = want.range(a..=b).map(|(k, v)| (*k, v.clone())).collect();
    expsr.reverse();
    if gotsr != expsr {
        return Err(format!("reverse range {a}..={b} of {name} differs from the snapshot"));
    }
    q += 2;
    // point lookups: every key of the key space
    for k in 0..KEYSPACE + 2 {
        let g = t.get(k).map_err(|e| format!("get({name},{k}): {e}"))?;
        let gv = g.map(|x| x.value().to_vec());
        if gv.as_ref() != want.get(&k) {
            return Err(format!("get({name},{k}) differs from the snapshot (got {} bytes, expected {})",
                gv.map_or(-1, |v| v.len() as i64), want.get(&k).map_or(-1, |v| v.len() as i64)));
        }
        q += 1;
    }
    let f = t.first().map_err(|e| format!("first({name}): {e}"))?.map(|(k, v)| (k.value(), v.value().to_vec()));
    let la = t.last().map_err(|e| format!("last({name}): {e}"))?.map(|(k, v)| (k.value(), v.value().to_vec()));
    if f != exp.first().cloned() || la != exp.last().cloned() {
        return Err(format!("first/last of {name} differ from the snapshot"));
    }
    Ok(q + 2)
}

fn check_mm(rt: &ReadTransaction, want: Option<&BTreeMap<u64, BTreeSet<u64>>>) -> Result<u64, String> {
    let t = match (rt.open_multimap_table(mdef()), want) {
        (Ok(t), Some(_)) => t,
        (Err(redb::TableError::TableDoesNotExist(_)), None) => return Ok(1),
        (Ok(_), None) => return Err("multimap table exists in the reader but not in its snapshot".into()),
        (Err(e), _) => return Err(format!("open_multimap_table: {e}")),
    };
    let want = want.unwrap();
    let mut q = 0;
    let total: u64 = want.values().map(|s| s.len() as u64).sum();
    let l = t.len().map_err(|e| format!("mm len: {e}"))?;
    if l != total {
        return Err(format!("multimap len = {l}, snapshot has {total}"));
    }
    for k in 0..KEYSPACE / 2 + 2 {
        let mut got = vec![];
        for e in t.get(k).map_err(|e| format!("mm get({k}): {e}"))? {
            got.push(e.map_err(|e| format!("mm get.next({k}): {e}"))?.value());
        }
        let exp: Vec<u64> = want.get(&k).map(|s| s.iter().copied().collect()).unwrap_or_default();
        if got != exp {
            return Err(format!("multimap get({k}) = {got:?}, snapshot has {exp:?}"));
        }
        q += 1;
    }
    let mut keys = vec![];
    for e in t.iter().map_err(|e| format!("mm iter: {e}"))? {
        let (k, vals) = e.map_err(|e| format!("mm iter.next: {e}"))?;
        let mut vs = vec![];
        for v in vals.rev() {
            vs.push(v.map_err(|e| format!("mm values: {e}"))?.value());
        }
        vs.reverse();
        keys.push((k.value(), vs));
    }
    let expk: Vec<(u64, Vec<u64>)> = want.iter().filter(|(_, s)| !s.is_empty()).map(|(k, s)| (*k, s.iter().copied().collect())).collect();
    if keys != expk {
        return Err("multimap scan differs from the snapshot".into());
    }
    Ok(q + 2)
}

impl Reader {
    /// the whole query set; Ok(number of queries) or the first difference
    fn verify(&mut self, db: &Database, rng: &mut Rng) -> Result<u64, String> {
        let mut q = 0;
        // page level: every page of the pinned version is still allocated and holds the same bytes
        let alloc: BTreeSet<(u32, u32)> = db.verif_snapshot().mem.allocated_order0().into_iter().collect();
        for (p, h) in &self.pages {
            for i in p.order0_range() {
                if !alloc.contains(&(p.region, i)) {
                    return Err(format!("PAGE-FREED page {p:?} of the pinned version (registered id {}) is no longer allocated", self.registered));
                }
            }
            let bytes = db.verif_read_page(*p).map_err(|e| format!("reading page {p:?}: {e}"))?;
            if fnv(&bytes) != *h {
                return Err(format!("PAGE-REWRITTEN page {p:?} of the pinned version (registered id {}) has different bytes now", self.registered));
            }
            q += 1;
        }
        if let Some(rt) = &self.rt {
            let mut names: Vec<String> = rt.list_tables().map_err(|e| format!("list_tables: {e}"))?.map(|h| h.name().to_string()).collect();
            names.sort();
            let want: Vec<String> = self.snap.tables.keys().cloned().collect();
            if names != want {
                return Err(format!("list_tables = {names:?}, snapshot has {want:?}"));
            }
            let mut mnames: Vec<String> = rt.list_multimap_tables().map_err(|e| format!("list_multimap_tables: {e}"))?.map(|h| h.name().to_string()).collect();
            mnames.sort();
            let wantm: Vec<String> = self.snap.mm.keys().cloned().collect();
            if mnames != wantm {
                return Err(format!("list_multimap_tables = {mnames:?}, snapshot has {wantm:?}"));
            }
            q += 2;
            for name in TNAMES {
                q += check_table(rt, name, self.snap.tables.get(name), self.sub)?;
            }
            q += check_mm(rt, self.snap.mm.get(MNAME))?;
        }
        // owned objects: guards must still show their bytes; ranges give one more element from either end
        for o in self.owned.iter_mut() {
            match o {
                Owned::Guard { table, key, guard, expect } => {
                    if guard.value() != expect.as_slice() {
                        return Err(format!("owned guard of {table}[{key}] no longer shows the bytes it was created with"));
                    }
                    q += 1;
                }
                Owned::Range { table, it, expect } => {
                    let back = rng.chance(1, 2);
                    let got = if back { it.next_back() } else { it.next() };
                    let exp = if back { expect.pop_back() } else { expect.pop_front() };
                    let got = match got {
                        None => None,
                        Some(Ok((k, v))) => Some((k.value(), v.value().to_vec())),
                        Some(Err(e)) => return Err(format!("owned range of {table}: {e}")),
                    };
                    if got != exp {
                        return Err(format!("owned range of {table} ({}): got key {:?}, snapshot order has {:?}",
                            if back { "next_back" } else { "next" }, got.as_ref().map(|x| x.0), exp.as_ref().map(|x| x.0)));
                    }
                    q += 1;
                }
                Owned::MmValue { key, it, expect } => {
                    let back = rng.chance(1, 2);
                    let got = if back { it.next_back() } else { it.next() };
                    let exp = if back { expect.pop_back() } else { expect.pop_front() };
                    let got = match got {
                        None => None,
                        Some(Ok(v)) => Some(v.value()),
                        Some(Err(e)) => return Err(format!("owned multimap value of key {key}: {e}")),
                    };
                    if got != exp {
                        return Err(format!("owned multimap value of key {key}: got {got:?}, snapshot has {exp:?}"));
                    }
                    q += 1;
                }
            }
        }
        Ok(q)
    }
}

fn fnv(b: &[u8]) -> u64 {
    let mut h = 0xcbf2_9ce4_8422_2325u64;
    for x in b {
        h = (h ^ u64::from(*x)).wrapping_mul(0x0100_0000_01b3);
    }
    h
}

fn make_reader(db: &Database, id: usize, rt: ReadTransaction, snap: &Spec, stamp: u64, owned_kind: bool, rng: &mut Rng) -> Result<Reader, String> {
    let a = rng.below(KEYSPACE);
    let b = a + rng.below(KEYSPACE - a + 1);
    let mut r = Reader { id, begun_at: stamp, snap: snap.clone(), rt: None, owned: vec![], sub: (a, b), late_root_nd: false, pages: vec![], registered: 0 };
    {
        // the pages of this reader's version and what is in them right now
        let (reg, root) = rt.verif_root();
        r.registered = reg;
        let reach = db.verif_reach(root, None).map_err(|e| format!("walking the reader's own root: {e}"))?;
        let mut pages = reach.data_pages.clone();
        pages.dedup();
        for p in pages {
            let bytes = db.verif_read_page(p).map_err(|e| format!("reading page {p:?} of the reader's version: {e}"))?;
            r.pages.push((p, fnv(&bytes)));
        }
    }
    if owned_kind {
        for name in TNAMES {
            let Some(want) = snap.tables.get(name) else { continue };
            let t = rt.open_table(tdef(name)).map_err(|e| format!("open_table({name}): {e}"))?;
            for _ in 0..2 {
                let k = rng.below(KEYSPACE);
                if let Some(g) = t.get_owned(k).map_err(|e| format!("get_owned: {e}"))? {
                    match want.get(&k) {
                        Some(v) => r.owned.push(Owned::Guard { table: name.to_string(), key: k, guard: g, expect: v.clone() }),
                        None => return Err(format!("get_owned({name},{k}) found a value the snapshot does not have")),
                    }
                } else if want.contains_key(&k) {
                    return Err(format!("get_owned({name},{k}) = None, the snapshot has a value"));
                }
            }
            let it = t.range_owned(..).map_err(|e| format!("range_owned: {e}"))?;
            r.owned.push(Owned::Range { table: name.to_string(), it, expect: want.iter().map(|(k, v)| (*k, v.clone())).collect() });
        }
        if let Some(want) = snap.mm.get(MNAME) {
            let t = rt.open_multimap_table(mdef()).map_err(|e| format!("open_multimap_table: {e}"))?;
            if let Some((k, vals)) = want.iter().find(|(_, s)| s.len() > 1).or_else(|| want.iter().next()) {
                let it = t.get_owned(*k).map_err(|e| format!("mm get_owned: {e}"))?;
                r.owned.push(Owned::MmValue { key: *k, it, expect: vals.iter().copied().collect() });
            }
        }
        // the ReadTransaction handle and the tables go away here; only the owned objects keep the snapshot pinned
        drop(rt);
        if r.owned.is_empty() {
            // nothing was there to take an owned object of: this reader pins nothing any more
            r.pages.clear();
        }
    } else {
        r.rt = Some(rt);
    }
    Ok(r)
}

struct World {
    file: Arc<MemFile>,
    db: Database,
    spec: Spec,
    stamp: u64,
    readers: Vec<Reader>,
    next_reader: usize,
    savepoints: Vec<(Savepoint, Spec, u64)>,
    log: Vec<String>,
    queries: u64,
    markers: BTreeSet<&'static str>,
}

fn open_db(file: &Arc<MemFile>, ctl: Option<Arc<Controller>>, cache: usize) -> Database {
    let mut b = Builder::new();
    b.verif_set_page_size(512);
    b.verif_set_region_size(64 * 1024);
    b.set_cache_size(cache);
    b.create_with_backend(ConcBackend { file: file.clone(), ctl }).expect("create")
}

/// apply random table operations to the transaction and to the working copy of the specification
fn mutate(tx: &redb::WriteTransaction, work: &mut Spec, stamp: u64, rng: &mut Rng, heavy: u64, w: &mut BTreeSet<&'static str>) -> Result<(), String> {
    let nops = rng.range(1, 6) + heavy;
    for _ in 0..nops {
        let ti = rng.below(3) as usize;
        let name = TNAMES[ti];
        match rng.below(20) {
            0 => {
                // delete a whole table
                let existed = tx.delete_table(tdef(name)).map_err(|e| format!("delete_table: {e}"))?;
                if existed != work.tables.remove(name).is_some() {
                    return Err(format!("delete_table({name}) = {existed} disagrees with the specification"));
                }
                w.insert("delete_table");
            }
            1..=3 => {
                // multimap
                let mut t = tx.open_multimap_table(mdef()).map_err(|e| format!("open mm: {e}"))?;
                let m = work.mm.entry(MNAME.to_string()).or_default();
                for _ in 0..rng.range(1, 6) {
                    let k = rng.below(KEYSPACE / 2);
                    let v = rng.below(12) + 100 * (stamp % 5);
                    if rng.chance(2, 3) {
                        t.insert(k, v).map_err(|e| format!("mm insert: {e}"))?;
                        m.entry(k).or_default().insert(v);
                    } else if rng.chance(1, 2) {
                        t.remove(k, v).map_err(|e| format!("mm remove: {e}"))?;
                        if let Some(s) = m.get_mut(&k) {
                            s.remove(&v);
                            if s.is_empty() {
                                m.remove(&k);
                            }
                        }
                    } else {
                        t.remove_all(k).map_err(|e| format!("mm remove_all: {e}"))?;
                        m.remove(&k);
                    }
                }
                w.insert("multimap");
            }
            4..=6 => {
                // deletes that free pages
                let mut t = tx.open_table(tdef(name)).map_err(|e| format!("open: {e}"))?;
                let m = work.tables.entry(name.to_string()).or_default();
                let a = rng.below(KEYSPACE);
                let n = rng.range(1, 20 + 2 * heavy);
                for k in a..(a + n).min(KEYSPACE) {
                    t.remove(k).map_err(|e| format!("remove: {e}"))?;
                    m.remove(&k);
                }
                w.insert("range_delete");
            }
            _ => {
                let mut t = tx.open_table(tdef(name)).map_err(|e| format!("open: {e}"))?;
                let m = work.tables.entry(name.to_string()).or_default();
                for _ in 0..rng.range(1, 10 + 3 * heavy) {
                    let k = rng.below(KEYSPACE);
                    let len = match rng.below(12) {
                        0 => {
                            w.insert("large_value");
                            rng.range(600, 1800) as usize
                        }
                        1..=3 => rng.range(150, 400) as usize,
                        _ => rng.range(1, 90) as usize,
                    };
                    let v = value_for(stamp, ti, k, len);
                    t.insert(k, v.as_slice()).map_err(|e| format!("insert: {e}"))?;
                    m.insert(k, v);
                }
            }
        }
    }
    Ok(())
}

impl World {
    fn verify_all(&mut self, rng: &mut Rng, after: &str, orc: &mut Vec<(String, String)>) {
        for r in self.readers.iter_mut() {
            let db = &self.db;
            match rv_harness::catch(|| r.verify(db, rng)) {
                Ok(Ok(q)) => self.queries += q,
                Ok(Err(e)) => {
                    let key = if r.late_root_nd {
                        "c02-F1-nd-reclaim-late-root"
                    } else if e.starts_with("PAGE-FREED") {
                        "c02-pinned-page-freed"
                    } else if e.starts_with("PAGE-REWRITTEN") {
                        "c02-pinned-page-rewritten"
                    } else {
                        "c02-snapshot-changed"
                    };
                    orc.push((key.to_string(), format!("reader {} (begun at commit stamp {}) after {after}: {e}", r.id, r.begun_at)));
                }
                Err(p) => {
                    let key = if r.late_root_nd { "c02-F1-nd-reclaim-late-root" } else { "c02-reader-panic" };
                    orc.push((key.to_string(), format!("reader {} (begun at commit stamp {}) after {after}: panic {p}", r.id, r.begun_at)));
                }
            }
        }
    }
}

fn run_history(hid: usize, seed_rng: &mut Rng, steps: usize, cache: usize, out: &mut Vec<(String, String)>) -> (String, u64, usize) {
    let mut rng = seed_rng.fork(hid as u64);
    let file = MemFile::new();
    let db = open_db(&file, None, cache);
    let mut w = World { file, db, spec: Spec::default(), stamp: 0, readers: vec![], next_reader: 0, savepoints: vec![], log: vec![], queries: 0, markers: BTreeSet::new() };
    let mut local: Vec<(String, String)> = vec![];
    for _step in 0..steps {
        if !local.is_empty() {
            break;
        }
        let choice = rng.below(100);
        let mut after = String::new();
        let mut mk = std::mem::take(&mut w.markers);
        let r: Result<(), String> = rv_harness::catch(|| -> Result<(), String> {
            match choice {
                0..=44 | 80..=86 => {
                    // a write transaction: commit (any durability) / abort / drop
                    let heavy = if (80..=86).contains(&choice) { 12 } else { 0 };
                    if heavy > 0 {
                        mk.insert("growth");
                    }
                    let mut tx = w.db.begin_write().map_err(|e| format!("begin_write: {e}"))?;
                    w.stamp += 1;
                    let mut work = w.spec.clone();
                    let take_sp = rng.chance(1, 8) && w.savepoints.len() < 2;
                    if take_sp {
                        let sp = tx.ephemeral_savepoint().map_err(|e| format!("savepoint: {e}"))?;
                        w.savepoints.push((sp, w.spec.clone(), w.stamp));
                        mk.insert("savepoint");
                    }
                    mutate(&tx, &mut work, w.stamp, &mut rng, heavy, &mut mk)?;
                    match rng.below(12) {
                        0 => {
                            tx.abort().map_err(|e| format!("abort: {e}"))?;
                            after = format!("abort of transaction {}", w.stamp);
                            mk.insert("abort");
                        }
                        1 => {
                            drop(tx);
                            after = format!("drop of transaction {}", w.stamp);
                            mk.insert("drop");
                        }
                        2..=6 => {
                            tx.set_durability(Durability::None).map_err(|e| format!("{e}"))?;
                            tx.commit().map_err(|e| format!("commit: {e}"))?;
                            w.spec = work;
                            after = format!("non-durable commit {}", w.stamp);
                            mk.insert("commit_nd");
                        }
                        7 => {
                            tx.set_two_phase_commit(true);
                            tx.commit().map_err(|e| format!("commit: {e}"))?;
                            w.spec = work;
                            after = format!("two-phase commit {}", w.stamp);
                            mk.insert("commit_2pc");
                        }
                        8 => {
                            tx.set_quick_repair(true);
                            tx.commit().map_err(|e| format!("commit: {e}"))?;
                            w.spec = work;
                            after = format!("quick-repair commit {}", w.stamp);
                            mk.insert("commit_qr");
                        }
                        _ => {
                            tx.commit().map_err(|e| format!("commit: {e}"))?;
                            w.spec = work;
                            after = format!("durable commit {}", w.stamp);
                            mk.insert("commit_d");
                        }
                    }
                }
                45..=59 => {
                    if w.readers.len() < 6 {
                        let rt = w.db.begin_read().map_err(|e| format!("begin_read: {e}"))?;
                        let owned = rng.chance(2, 5);
                        let id = w.next_reader;
                        w.next_reader += 1;
                        let rd = make_reader(&w.db, id, rt, &w.spec, w.stamp, owned, &mut rng)?;
                        w.readers.push(rd);
                        after = format!("begin_read {id}{}", if owned { " (owned)" } else { "" });
                        mk.insert(if owned { "reader_owned" } else { "reader" });
                    }
                }
                60..=67 => {
                    if !w.readers.is_empty() {
                        let i = rng.below(w.readers.len() as u64) as usize;
                        let r = w.readers.remove(i);
                        after = format!("drop reader {}", r.id);
                        drop(r);
                    }
                }
                68..=73 => {
                    // restore a savepoint in a new transaction
                    if !w.savepoints.is_empty() {
                        let i = rng.below(w.savepoints.len() as u64) as usize;
                        let mut tx = w.db.begin_write().map_err(|e| format!("begin_write: {e}"))?;
                        w.stamp += 1;
                        match tx.restore_savepoint(&w.savepoints[i].0) {
                            Ok(()) => {
                                let restored = w.savepoints[i].1.clone();
                                let nd = rng.chance(1, 3);
                                if nd {
                                    tx.set_durability(Durability::None).map_err(|e| format!("{e}"))?;
                                }
                                tx.commit().map_err(|e| format!("commit after restore: {e}"))?;
                                w.spec = restored;
                                // savepoints taken later are invalid now
                                w.savepoints.truncate(i + 1);
                                after = format!("restore of the savepoint of {} ({})", w.savepoints[i].2, if nd { "non-durable" } else { "durable" });
                                mk.insert("restore");
                            }
                            Err(e) => {
                                tx.abort().map_err(|e| format!("abort: {e}"))?;
                                after = format!("rejected restore ({e})");
                            }
                        }
                    }
                }
                74..=76 => {
                    if !w.savepoints.is_empty() {
                        let i = rng.below(w.savepoints.len() as u64) as usize;
                        let sp = w.savepoints.remove(i);
                        drop(sp);
                        after = "drop savepoint".into();
                    }
                }
                _ => {
                    // compaction attempt: refused while readers / savepoints exist, must never change what they see
                    match w.db.compact() {
                        Ok(b) => {
                            after = format!("compaction (moved: {b})");
                            mk.insert("compact_ok");
                        }
                        Err(e) => {
                            after = format!("refused compaction ({e})");
                            mk.insert("compact_refused");
                        }
                    }
                }
            }
            Ok(())
        })
        .unwrap_or_else(|p| Err(format!("panic: {p}")));
        w.markers = mk;
        if let Err(e) = r {
            local.push(("c02-history-error".into(), format!("history {hid} step failed: {e}")));
            break;
        }
        if after.is_empty() {
            continue;
        }
        w.log.push(after.clone());
        w.verify_all(&mut rng, &after, &mut local);
    }
    let grew = w.file.max_len.load(std::sync::atomic::Ordering::SeqCst);
    if grew > 3 * 64 * 1024 {
        w.markers.insert("multi_region");
    }
    let line = format!("{hid}|cache={cache}|steps={}|readers={}|markers={}|{}", w.log.len(), w.next_reader,
        w.markers.iter().copied().collect::<Vec<_>>().join(","), w.log.join(";"));
    let nontrivial = w.next_reader >= 2 && w.markers.iter().filter(|m| m.starts_with("commit")).count() >= 2;
    for (k, what) in local {
        out.push((k, format!("history {hid}: {what}")));
    }
    let q = w.queries;
    w.readers.clear();
    w.savepoints.clear();
    (line, q, usize::from(nontrivial))
}

// ------------------------------------------------------------------------------------------------
// Part 2: begin_read split around a commit

fn put_rows(db: &Database, spec: &mut Spec, stamp: u64, nd: bool, twopc: bool, empty: bool) -> Result<(), String> {
    let mut tx = db.begin_write().map_err(|e| format!("begin_write: {e}"))?;
    let mut work = spec.clone();
    if !empty {
        for (ti, name) in TNAMES.iter().enumerate().take(2) {
            let mut t = tx.open_table(tdef(name)).map_err(|e| format!("open: {e}"))?;
            let m = work.tables.entry(name.to_string()).or_default();
            for k in 0..16 {
                let v = value_for(stamp, ti, k, 100);
                t.insert(k, v.as_slice()).map_err(|e| format!("insert: {e}"))?;
                m.insert(k, v);
            }
        }
    }
    if nd {
        tx.set_durability(Durability::None).map_err(|e| format!("{e}"))?;
    }
    tx.set_two_phase_commit(twopc);
    tx.commit().map_err(|e| format!("commit: {e}"))?;
    *spec = work;
    Ok(())
}

fn run_split(out: &mut Vec<(String, String)>, lines: &mut Vec<String>) -> (u64, usize) {
    let ctl = Controller::new(2, &["T.register_read", "M.get_data_root"]);
    ctl.install();
    let workers = ctl.spawn_workers();
    let mut queries = 0;
    let mut n = 0;
    // pre-state x commit that overtakes the reader x churn kind x cache
    let pres = ["d", "d0", "n"];
    let overs = ["cd", "cd2", "cn"];
    for (pi, pre) in pres.iter().enumerate() {
        for (oi, over) in overs.iter().enumerate() {
            // the overtaking commit is placed at the reader's first, second or third stop after its registration:
            // on the unchanged tree begin_read has one stop there (M.get_data_root, before id and root are read
            // together); code that reads them in two steps stops again in between, and that gap is then exercised too
            for (churn, stop_at) in [(0, 1), (1, 1), (2, 1), (0, 2), (1, 2), (1, 3)] {
                let cache = [0usize, 512, 2048, 64 << 20][(pi + oi + churn) % 4];
                let file = MemFile::new();
                let db = Arc::new(open_db(&file, None, cache));
                let mut spec = Spec::default();
                let stamp_cell = std::cell::Cell::new(1u64);
                let step = |db: &Database, spec: &mut Spec, nd: bool, twopc: bool, empty: bool| -> Result<(), String> {
                    stamp_cell.set(stamp_cell.get() + 1);
                    put_rows(db, spec, stamp_cell.get(), nd, twopc, empty)
                };
                let mut fail = |what: String| out.push(("c02-history-error".into(), format!("split {pre}-{over}-{churn}: {what}")));
                if let Err(e) = step(&db, &mut spec, false, false, false) {
                    fail(e);
                    continue;
                }
                let r0 = match *pre {
                    "d" => Ok(()),
                    "d0" => step(&db, &mut spec, false, false, true),
                    _ => step(&db, &mut spec, true, false, false),
                };
                if let Err(e) = r0 {
                    fail(e);
                    continue;
                }
                // is the latest commit durable, with no non-durable commit pending, when the reader registers? (H3 snapshot)
                let latest_durable_at_reg = !db.verif_snapshot().mem.read_from_secondary;
                // reader: registers, then waits before reading its root
                let slot: Arc<Mutex<Option<ReadTransaction>>> = Arc::new(Mutex::new(None));
                let (db2, slot2) = (db.clone(), slot.clone());
                ctl.submit(1, Box::new(move || match db2.begin_read() {
                    Ok(rt) => {
                        *slot2.lock().unwrap() = Some(rt);
                        "ok".into()
                    }
                    Err(e) => format!("ERR({e})"),
                }));
                let e1 = ctl.step(1);
                let e2 = ctl.step(1);
                if e1 != Event::At("T.register_read".into()) || e2 != Event::At("M.get_data_root".into()) {
                    out.push(("c02-pause-sequence".into(), format!("begin_read emitted {e1:?}, {e2:?} instead of T.register_read, M.get_data_root")));
                    // let it finish
                    let _ = ctl.step(1);
                    continue;
                }
                let mut finished_early = false;
                for _ in 1..stop_at {
                    match ctl.step(1) {
                        Event::At(_) => {}
                        _ => {
                            finished_early = true;
                            break;
                        }
                    }
                }
                if finished_early {
                    // no further stop inside begin_read: this placement does not exist for this code
                    drop(slot.lock().unwrap().take());
                    continue;
                }
                // the commit that overtakes the registered reader (main thread: pause points pass through)
                let r1 = match *over {
                    "cd" => step(&db, &mut spec, false, false, false),
                    "cd2" => step(&db, &mut spec, false, true, false),
                    _ => step(&db, &mut spec, true, false, false),
                };
                if let Err(e) = r1 {
                    fail(e);
                    let _ = ctl.step(1);
                    continue;
                }
                let snap = spec.clone();
                // the reader reads id and root now; it must either be done (they match its registration) or
                // drop the registration and register again until they do
                let mut e3 = ctl.step(1);
                let mut retried = false;
                let mut guard_steps = 0;
                while let Event::At(_) = e3 {
                    retried = true;
                    guard_steps += 1;
                    if guard_steps > 20 {
                        break;
                    }
                    e3 = ctl.step(1);
                }
                if e3 != Event::Done("ok".into()) {
                    out.push(("c02-history-error".into(), format!("split {pre}-{over}-{churn}: begin_read returned {e3:?}")));
                    continue;
                }
                let rt = slot.lock().unwrap().take().unwrap();
                let mut rng = Rng::new(7 + n as u64);
                let mut rd = match make_reader(&db, 0, rt, &snap, stamp_cell.get(), false, &mut rng) {
                    Ok(r) => r,
                    Err(e) => {
                        out.push(("c02-snapshot-changed".into(), format!("split {pre}-{over}-{churn}: {e}")));
                        continue;
                    }
                };
                rd.late_root_nd = latest_durable_at_reg && *over == "cn" && !retried;
                let mut log = vec![format!("split pre={pre} over={over} churn={churn} cache={cache}")];
                let mut bad = false;
                for i in 0..5 {
                    let nd = match churn {
                        0 => false,
                        1 => true,
                        _ => i % 2 == 0,
                    };
                    let r = rv_harness::catch(|| step(&db, &mut spec, nd, false, false)).unwrap_or_else(|p| Err(format!("panic: {p}")));
                    if let Err(e) = r {
                        let key = if rd.late_root_nd { "c02-F1-nd-reclaim-late-root" } else { "c02-history-error" };
                        out.push((key.into(), format!("split {pre}-{over}-{churn}: a later {} commit failed while the reader is live: {e}", if nd { "non-durable" } else { "durable" })));
                        bad = true;
                        break;
                    }
                    log.push(format!("{} commit", if nd { "non-durable" } else { "durable" }));
                    match rv_harness::catch(|| rd.verify(&db, &mut rng)) {
                        Ok(Ok(q)) => queries += q,
                        Ok(Err(e)) => {
                            let key = if rd.late_root_nd { "c02-F1-nd-reclaim-late-root" } else { "c02-snapshot-changed" };
                            out.push((key.into(), format!("split {pre}-{over}-{churn}: reader registered before and rooted after the overtaking commit, after later commit #{}: {e}", i + 1)));
                            bad = true;
                            break;
                        }
                        Err(p) => {
                            let key = if rd.late_root_nd { "c02-F1-nd-reclaim-late-root" } else { "c02-reader-panic" };
                            out.push((key.into(), format!("split {pre}-{over}-{churn}: reader panicked after later commit #{}: {p}", i + 1)));
                            bad = true;
                            break;
                        }
                    }
                }
                let _ = bad;
                lines.push(log.join(";"));
                n += 1;
                drop(rd);
            }
        }
    }
    Controller::uninstall();
    ctl.shutdown();
    drop(workers);
    (queries, n)
}

// Part 3: begin_read placed inside the gaps of a commit running on another thread. The reader must see the
// snapshot before or after that commit -- whichever it is -- and keep seeing it while later commits of both
// durabilities free and reuse pages.
fn run_commit_gaps(out: &mut Vec<(String, String)>, lines: &mut Vec<String>) -> (u64, usize) {
    const GAPS: [&str; 24] = [
        "X.commit", "X.nd_commit", "X.nd_commit.horizon", "X.nd_commit.free", "X.nd_commit.registered", "X.nd_commit.publish", "M.nd.publish",
        "X.durable_commit", "X.durable_commit.horizon", "X.durable_commit.mem_commit", "M.commit.begin", "X.commit.header1", "X.commit.flush",
        "X.commit.swap", "M.commit.publish", "X.durable_commit.published", "X.durable_commit.epilogue", "X.epilogue", "X.epilogue.horizon",
        "X.epilogue.publish", "T.register_nd", "T.clear_pending_nd", "U.clear", "U.extend",
    ];
    let ctl = Controller::new(2, &GAPS);
    ctl.install();
    let workers = ctl.spawn_workers();
    let mut queries = 0;
    let mut n = 0;
    for pre in ["d", "n", "nn"] {
        for kind in ["cn", "cd", "cd2"] {
            'stops: for stop_at in 1..=14usize {
                let cache = [0usize, 2048, 64 << 20][(n + stop_at) % 3];
                let file = MemFile::new();
                let db = Arc::new(open_db(&file, None, cache));
                let mut spec = Spec::default();
                let mut stamp = 1u64;
                let mut setup = || -> Result<(), String> {
                    stamp += 1;
                    put_rows(&db, &mut spec, stamp, false, false, false)?;
                    for c in pre.chars() {
                        stamp += 1;
                        put_rows(&db, &mut spec, stamp, c == 'n', false, false)?;
                    }
                    Ok(())
                };
                if let Err(e) = setup() {
                    out.push(("c02-history-error".into(), format!("gap {pre}-{kind}-{stop_at}: {e}")));
                    continue;
                }
                let before = spec.clone();
                stamp += 1;
                let after_cell: Arc<Mutex<Option<Spec>>> = Arc::new(Mutex::new(None));
                let (db2, cell2, mut work, st) = (db.clone(), after_cell.clone(), spec.clone(), stamp);
                let (nd, twopc) = (kind == "cn", kind == "cd2");
                ctl.submit(1, Box::new(move || match put_rows(&db2, &mut work, st, nd, twopc, false) {
                    Ok(()) => {
                        *cell2.lock().unwrap() = Some(work);
                        "ok".into()
                    }
                    Err(e) => format!("ERR({e})"),
                }));
                let mut at = String::new();
                for _ in 0..stop_at {
                    match ctl.step(1) {
                        Event::At(name) => at = name,
                        _ => break 'stops, // the commit has no further gap (or cannot go on): next kind
                    }
                }
                // the reader begins inside the gap (main thread: pause points pass through)
                let rt = match rv_harness::catch(|| db.begin_read()) {
                    Ok(Ok(rt)) => rt,
                    other => {
                        out.push(("c02-history-error".into(), format!("gap {pre}-{kind}@{at}: begin_read failed: {:?}", other.map(|r| r.map(|_| ()).map_err(|e| e.to_string())))));
                        while let Event::At(_) = ctl.step(1) {}
                        continue;
                    }
                };
                // let the commit finish
                let mut guard_steps = 0;
                loop {
                    match ctl.step(1) {
                        Event::At(_) if guard_steps < 200 => guard_steps += 1,
                        _ => break,
                    }
                }
                let Some(after) = after_cell.lock().unwrap().take() else {
                    out.push(("c02-history-error".into(), format!("gap {pre}-{kind}@{at}: the commit on the other thread failed")));
                    continue;
                };
                spec = after.clone();
                // which commit does the reader see? its table t0 row 0 tells (the stamps differ)
                let seen = rv_harness::catch(|| -> Result<Option<Vec<u8>>, String> {
                    let t = rt.open_table(tdef(TNAMES[0])).map_err(|e| e.to_string())?;
                    Ok(t.get(0).map_err(|e| e.to_string())?.map(|g| g.value().to_vec()))
                });
                let snap = match seen {
                    Ok(Ok(v)) if v.as_ref() == before.tables.get(TNAMES[0]).and_then(|m| m.get(&0)) => before.clone(),
                    Ok(Ok(v)) if v.as_ref() == after.tables.get(TNAMES[0]).and_then(|m| m.get(&0)) => after.clone(),
                    other => {
                        out.push(("c02-snapshot-changed".into(), format!("gap {pre}-{kind}@{at}: a reader begun inside the commit sees neither the state before nor after it: {other:?}")));
                        continue;
                    }
                };
                let mut rng = Rng::new(11 + n as u64);
                let mut rd = match make_reader(&db, 0, rt, &snap, stamp, n % 2 == 0, &mut rng) {
                    Ok(r) => r,
                    Err(e) => {
                        out.push(("c02-snapshot-changed".into(), format!("gap {pre}-{kind}@{at}: {e}")));
                        continue;
                    }
                };
                let mut log = vec![format!("gap pre={pre} kind={kind} at={at} cache={cache}")];
                for i in 0..5 {
                    let nd = match (n + stop_at) % 3 { 0 => false, 1 => true, _ => i % 2 == 0 };
                    stamp += 1;
                    let r = rv_harness::catch(|| put_rows(&db, &mut spec, stamp, nd, false, false)).unwrap_or_else(|p| Err(format!("panic: {p}")));
                    if let Err(e) = r {
                        out.push(("c02-history-error".into(), format!("gap {pre}-{kind}@{at}: a later {} commit failed while the reader is live: {e}", if nd { "non-durable" } else { "durable" })));
                        break;
                    }
                    log.push(format!("{} commit", if nd { "non-durable" } else { "durable" }));
                    match rv_harness::catch(|| rd.verify(&db, &mut rng)) {
                        Ok(Ok(q)) => queries += q,
                        Ok(Err(e)) => {
                            out.push(("c02-snapshot-changed".into(), format!("gap {pre}-{kind}@{at}: reader begun inside the commit, after later commit #{}: {e}", i + 1)));
                            break;
                        }
                        Err(p) => {
                            out.push(("c02-reader-panic".into(), format!("gap {pre}-{kind}@{at}: reader panicked after later commit #{}: {p}", i + 1)));
                            break;
                        }
                    }
                }
                lines.push(log.join(";"));
                n += 1;
                drop(rd);
            }
        }
    }
    Controller::uninstall();
    ctl.shutdown();
    drop(workers);
    (queries, n)
}

fn main() {
    rv_harness::silence_panics();
    let args: Vec<String> = std::env::args().collect();
    let nh: usize = args.get(1).and_then(|s| s.parse().ok()).unwrap_or(60);
    let steps: usize = args.get(2).and_then(|s| s.parse().ok()).unwrap_or(30);
    let only: Option<usize> = args.get(3).and_then(|s| s.parse().ok());
    let mut rng = Rng::new(seed_from_env());
    let caches = [0usize, 512, 2048, 64 << 20];
    let mut out: Vec<(String, String)> = vec![];
    let mut hist = std::io::BufWriter::new(std::fs::File::create("hist.txt").unwrap());
    let (mut queries, mut nontrivial) = (0u64, 0usize);
    let mut markers: BTreeMap<String, usize> = BTreeMap::new();
    let mut run = 0;
    for h in 0..nh {
        // the per-history generator is forked in order, so `only` reproduces exactly history h
        let mut probe = rng.clone();
        let _ = rng.fork(h as u64);
        if only.is_some() && only != Some(h) {
            continue;
        }
        // a panic that escapes an operation (a debug assertion inside a drop, an unwinding commit) is a finding too
        let mut local = vec![];
        let (line, q, nt) = match rv_harness::catch(|| run_history(h, &mut probe, steps, caches[h % 4], &mut local)) {
            Ok(x) => x,
            Err(p) => {
                local.push(("c02-panic".to_string(), format!("history {h}: panic outside the guarded operations (teardown or drop): {p}")));
                (format!("{h}|cache={}|steps=?|readers=?|markers=|panicked", caches[h % 4]), 0, 0)
            }
        };
        out.extend(local);
        for m in line.split('|').nth(4).unwrap_or("").trim_start_matches("markers=").split(',') {
            if !m.is_empty() {
                *markers.entry(m.to_string()).or_default() += 1;
            }
        }
        writeln!(hist, "{line}").unwrap();
        queries += q;
        nontrivial += nt;
        run += 1;
    }
    let mut split_lines = vec![];
    let (q2, nsplit) = if only.is_none() {
        let mut local = vec![];
        let r = rv_harness::catch(|| run_split(&mut local, &mut split_lines));
        out.extend(local);
        match r {
            Ok(x) => x,
            Err(p) => {
                out.push(("c02-panic".to_string(), format!("begin_read-split scenarios: panic outside the guarded operations: {p}")));
                (0, 0)
            }
        }
    } else {
        (0, 0)
    };
    let (q3, ngaps) = if only.is_none() {
        let mut local = vec![];
        let r = rv_harness::catch(|| run_commit_gaps(&mut local, &mut split_lines));
        out.extend(local);
        match r {
            Ok(x) => x,
            Err(p) => {
                out.push(("c02-panic".to_string(), format!("commit-gap scenarios: panic outside the guarded operations: {p}")));
                (0, 0)
            }
        }
    } else {
        (0, 0)
    };
    for l in &split_lines {
        writeln!(hist, "S|{l}").unwrap();
    }
    queries += q2 + q3;
    let nsplit = nsplit + ngaps;
    hist.flush().unwrap();
    let mut orc = std::io::BufWriter::new(std::fs::File::create("oracle.txt").unwrap());
    for (k, what) in &out {
        writeln!(orc, "V|{k}|{what}").unwrap();
    }
    orc.flush().unwrap();
    println!("histories={run} splits={nsplit} distinct_nontrivial={nontrivial} queries={queries} violations={} markers={markers:?}", out.len());
    std::process::exit(0);
}
