//! C17 harness: generated catalog programs (open / drop handle / write / read / rename / delete / list /
//! commit / abort / read-transaction opens) over a small pool of names and a set of (K, V) Rust type pairs that
//! includes colliding type names, legacy spellings and fixed-width changes; plus a storage-release probe.
//! usage: c17 <n_programs> <n_probes>
//! writes (cwd): cases.txt (op log, see ocaml/c17_driver.ml), impl.txt (result of every op), probes.txt,
//! stats.json.
use redb::{
    Database, Key, MultimapTable, MultimapTableDefinition, ReadTransaction, ReadableDatabase, ReadableMultimapTable,
    ReadableTable, ReadableTableMetadata, StorageBackend, Table, TableDefinition, TableError, TypeName, Value,
    WriteTransaction,
};
use rv_harness::{Rng, catch, hex, seed_from_env, silence_panics};
use std::cmp::Ordering;
use std::collections::{BTreeMap, BTreeSet};
use std::fmt::Write as _;
use std::io;
use std::marker::PhantomData;
use std::sync::{Arc, Mutex};

// ------------------------------------------------------------------ backend
#[derive(Clone, Debug)]
struct Mem(Arc<Mutex<Vec<u8>>>);
impl StorageBackend for Mem {
    fn len(&self) -> io::Result<u64> {
        Ok(self.0.lock().unwrap().len() as u64)
    }
    fn read(&self, offset: u64, out: &mut [u8]) -> io::Result<()> {
        let g = self.0.lock().unwrap();
        let o = offset as usize;
        if o + out.len() > g.len() {
            return Err(io::Error::new(io::ErrorKind::InvalidInput, "read out of range"));
        }
        out.copy_from_slice(&g[o..o + out.len()]);
        Ok(())
    }
    fn set_len(&self, len: u64) -> io::Result<()> {
        self.0.lock().unwrap().resize(len as usize, 0);
        Ok(())
    }
    fn sync_data(&self) -> io::Result<()> {
        Ok(())
    }
    fn write(&self, offset: u64, data: &[u8]) -> io::Result<()> {
        let mut g = self.0.lock().unwrap();
        let o = offset as usize;
        if o + data.len() > g.len() {
            return Err(io::Error::new(io::ErrorKind::InvalidInput, "write out of range"));
        }
        g[o..o + data.len()].copy_from_slice(data);
        Ok(())
    }
}

// ------------------------------------------------------------------ user-defined types with chosen names
// Raw byte-string types whose TypeName (classification, name, legacy classification) and fixed width are
// chosen freely; `$cmp` is the real type whose order / encoding they imitate.
macro_rules! raw_type {
    ($name:ident, $class:expr, $tname:expr, $legacy:expr, $width:expr, $cmp:ty) => {
        #[derive(Debug)]
        struct $name;
        impl Value for $name {
            type SelfType<'a> = &'a [u8] where Self: 'a;
            type AsBytes<'a> = &'a [u8] where Self: 'a;
            fn fixed_width() -> Option<usize> { $width }
            fn from_bytes<'a>(data: &'a [u8]) -> &'a [u8] where Self: 'a { data }
            fn as_bytes<'a, 'b: 'a>(value: &'a &'b [u8]) -> &'a [u8] where Self: 'b { value }
            fn type_name() -> TypeName { TypeName::verif_new($class, $tname, $legacy) }
        }
        impl Key for $name {
            fn compare(a: &[u8], b: &[u8]) -> Ordering { <$cmp as Key>::compare(a, b) }
        }
    };
}
// user type that calls itself "u64" (UserDefined), 8 bytes
raw_type!(FakeU64, 2, "u64", None, Some(8), u64);
// user type that calls itself "u32" (UserDefined), 4 bytes; real wrapper so that Option<FakeU32> exists
raw_type!(FakeU32, 2, "u32", None, Some(4), u32);
// the spelling redb < 4.2 stored for Option<u32>: Internal "Option<u32>", width 5
raw_type!(LegOptU32, 1, "Option<u32>", None, Some(5), Option<u32>);
// same legacy spelling but a different stored width
raw_type!(LegOptU32W, 1, "Option<u32>", None, None, Option<u32>);
// a user type that happens to be called "Option<u32>" (UserDefined): must not open as Option<u32>,
// but is on-disk identical to Option<FakeU32> (documented ambiguity)
raw_type!(UserOptU32, 2, "Option<u32>", None, Some(5), Option<u32>);
// legacy spelling of the variable-width tuple (u32,&str): Internal2
raw_type!(LegVTup, 3, "(u32,&str)", None, None, (u32, &'static str));
// Internal "(u32,&str)": the redb 2.x spelling with another encoding: must NOT be accepted
raw_type!(BadVTup, 1, "(u32,&str)", None, None, (u32, &'static str));
// "u64" with width 4: fixed-width change
raw_type!(W4U64, 1, "u64", None, Some(4), &'static [u8]);
// "&[u8]" with a fixed width: width change in the other direction
raw_type!(W3Bytes, 1, "&[u8]", None, Some(3), &'static [u8]);

// ------------------------------------------------------------------ type descriptors
trait Ty: 'static {
    type R: Key + 'static;
    type O;
    fn mk(seed: u64) -> Self::O;
    fn br<'a>(o: &'a Self::O) -> <Self::R as Value>::SelfType<'a>;
    fn token() -> String {
        let n = <Self::R as Value>::type_name();
        format!(
            "{}:{}:{}:{}",
            n.verif_classification(),
            hex(n.name().as_bytes()),
            n.verif_legacy_classification().map(|c| c.to_string()).unwrap_or("-".into()),
            <Self::R as Value>::fixed_width().map(|w| w.to_string()).unwrap_or("-".into())
        )
    }
}
fn small_str(seed: u64) -> String {
    let a = ["", "a", "b", "ab", "zz", "\u{e9}"];
    format!("{}{}", a[(seed % 6) as usize], a[((seed / 6) % 6) as usize])
}
struct TU64;
impl Ty for TU64 { type R = u64; type O = u64; fn mk(s: u64) -> u64 { s % 7 } fn br<'a>(o: &'a u64) -> u64 { *o } }
struct TU32;
impl Ty for TU32 { type R = u32; type O = u32; fn mk(s: u64) -> u32 { (s % 7) as u32 } fn br<'a>(o: &'a u32) -> u32 { *o } }
struct TBytes;
impl Ty for TBytes { type R = &'static [u8]; type O = Vec<u8>; fn mk(s: u64) -> Vec<u8> { (0..(s % 4)).map(|i| (s >> (8 * i)) as u8 % 3).collect() } fn br<'a>(o: &'a Vec<u8>) -> &'a [u8] { o } }
struct TStr;
impl Ty for TStr { type R = &'static str; type O = String; fn mk(s: u64) -> String { small_str(s) } fn br<'a>(o: &'a String) -> &'a str { o } }
struct TTup;
impl Ty for TTup { type R = (u32, u64); type O = (u32, u64); fn mk(s: u64) -> (u32, u64) { ((s % 3) as u32, (s / 3) % 3) } fn br<'a>(o: &'a (u32, u64)) -> (u32, u64) { *o } }
struct TOpt;
impl Ty for TOpt { type R = Option<u32>; type O = Option<u32>; fn mk(s: u64) -> Option<u32> { if s % 5 == 0 { None } else { Some((s % 4) as u32) } } fn br<'a>(o: &'a Option<u32>) -> Option<u32> { *o } }
struct TArr;
impl Ty for TArr { type R = [u8; 4]; type O = [u8; 4]; fn mk(s: u64) -> [u8; 4] { [(s % 3) as u8, 0, ((s / 3) % 2) as u8, 1] } fn br<'a>(o: &'a [u8; 4]) -> [u8; 4] { *o } }
struct TVTup;
impl Ty for TVTup { type R = (u32, &'static str); type O = (u32, String); fn mk(s: u64) -> (u32, String) { ((s % 3) as u32, small_str(s / 3)) } fn br<'a>(o: &'a (u32, String)) -> (u32, &'a str) { (o.0, o.1.as_str()) } }
struct TOptFake;
impl Ty for TOptFake { type R = Option<FakeU32>; type O = Option<Vec<u8>>; fn mk(s: u64) -> Option<Vec<u8>> { if s % 5 == 0 { None } else { Some(((s % 4) as u32).to_le_bytes().to_vec()) } } fn br<'a>(o: &'a Option<Vec<u8>>) -> Option<&'a [u8]> { o.as_deref() } }
macro_rules! raw_ty {
    ($t:ident, $r:ty, $mk:expr) => {
        struct $t;
        impl Ty for $t { type R = $r; type O = Vec<u8>; fn mk(s: u64) -> Vec<u8> { let f: fn(u64) -> Vec<u8> = $mk; f(s) } fn br<'a>(o: &'a Vec<u8>) -> &'a [u8] { o } }
    };
}
fn enc_opt(s: u64) -> Vec<u8> { <Option<u32> as Value>::as_bytes(&TOpt::mk(s)) }
fn enc_vtup(s: u64) -> Vec<u8> { let o = TVTup::mk(s); let b: Vec<u8> = <(u32, &str) as Value>::as_bytes(&(o.0, o.1.as_str())); b }
raw_ty!(TFakeU64, FakeU64, |s| (s % 7).to_le_bytes().to_vec());
raw_ty!(TLegOpt, LegOptU32, enc_opt);
raw_ty!(TLegOptW, LegOptU32W, enc_opt);
raw_ty!(TUserOpt, UserOptU32, enc_opt);
raw_ty!(TLegVTup, LegVTup, enc_vtup);
raw_ty!(TBadVTup, BadVTup, enc_vtup);
raw_ty!(TW4U64, W4U64, |s| ((s % 7) as u32).to_le_bytes().to_vec());
raw_ty!(TW3Bytes, W3Bytes, |s| vec![(s % 3) as u8, ((s / 3) % 3) as u8, 7]);

// the (K, V) pairs programs choose from
macro_rules! pairs {
    ($m:ident, $idx:expr, $($args:tt)*) => {
        match $idx {
            0 => $m!(TU64, TBytes, $($args)*),
            1 => $m!(TU64, TU64, $($args)*),
            2 => $m!(TBytes, TBytes, $($args)*),
            3 => $m!(TStr, TBytes, $($args)*),
            4 => $m!(TU32, TU64, $($args)*),
            5 => $m!(TTup, TBytes, $($args)*),
            6 => $m!(TOpt, TU64, $($args)*),
            7 => $m!(TLegOpt, TU64, $($args)*),
            8 => $m!(TUserOpt, TU64, $($args)*),
            9 => $m!(TOptFake, TU64, $($args)*),
            10 => $m!(TFakeU64, TBytes, $($args)*),
            11 => $m!(TW4U64, TBytes, $($args)*),
            12 => $m!(TVTup, TBytes, $($args)*),
            13 => $m!(TLegVTup, TBytes, $($args)*),
            14 => $m!(TBadVTup, TBytes, $($args)*),
            15 => $m!(TLegOptW, TU64, $($args)*),
            16 => $m!(TU64, TOpt, $($args)*),
            17 => $m!(TU64, TLegOpt, $($args)*),
            18 => $m!(TU64, TW3Bytes, $($args)*),
            19 => $m!(TArr, TU64, $($args)*),
            _ => unreachable!(),
        }
    };
}
const NPAIRS: u64 = 20;
// groups of pairs that are related (same names / legacy spellings / width changes): used to make collisions likely
const RELATED: [&[u64]; 7] = [&[6, 7, 8, 9, 15], &[12, 13, 14], &[0, 10, 11, 18], &[16, 17], &[1, 4], &[2, 3], &[5, 19]];

// ------------------------------------------------------------------ handles
type Entries = Vec<(Vec<u8>, Vec<u8>)>;
trait H {
    fn put(&mut self, ks: u64, vs: u64) -> (Vec<u8>, Vec<u8>, Result<(), String>);
    fn del(&mut self, ks: u64, vs: u64) -> (Vec<u8>, Vec<u8>, Result<(), String>);
    fn read(&self) -> Result<(Entries, u64), String>;
}
struct NH<'t, KT: Ty, VT: Ty>(Table<'t, KT::R, VT::R>, PhantomData<(KT, VT)>);
struct MH<'t, KT: Ty, VT: Ty>(MultimapTable<'t, KT::R, VT::R>, PhantomData<(KT, VT)>);
fn kb<T: Ty>(o: &T::O) -> Vec<u8> {
    <T::R as Value>::as_bytes(&T::br(o)).as_ref().to_vec()
}
impl<KT: Ty, VT: Ty> H for NH<'_, KT, VT> {
    fn put(&mut self, ks: u64, vs: u64) -> (Vec<u8>, Vec<u8>, Result<(), String>) {
        let (k, v) = (KT::mk(ks), VT::mk(vs));
        let r = self.0.insert(KT::br(&k), VT::br(&v)).map(|_| ()).map_err(|e| e.to_string());
        (kb::<KT>(&k), kb::<VT>(&v), r)
    }
    fn del(&mut self, ks: u64, vs: u64) -> (Vec<u8>, Vec<u8>, Result<(), String>) {
        let (k, v) = (KT::mk(ks), VT::mk(vs));
        let r = self.0.remove(KT::br(&k)).map(|_| ()).map_err(|e| e.to_string());
        (kb::<KT>(&k), kb::<VT>(&v), r)
    }
    fn read(&self) -> Result<(Entries, u64), String> {
        let mut out = vec![];
        for e in self.0.iter().map_err(|e| e.to_string())? {
            let (k, v) = e.map_err(|e| e.to_string())?;
            out.push((<KT::R as Value>::as_bytes(&k.value()).as_ref().to_vec(), <VT::R as Value>::as_bytes(&v.value()).as_ref().to_vec()));
        }
        out.sort();
        Ok((out, self.0.len().map_err(|e| e.to_string())?))
    }
}
impl<KT: Ty, VT: Ty> H for MH<'_, KT, VT> {
    fn put(&mut self, ks: u64, vs: u64) -> (Vec<u8>, Vec<u8>, Result<(), String>) {
        let (k, v) = (KT::mk(ks), VT::mk(vs));
        let r = self.0.insert(KT::br(&k), VT::br(&v)).map(|_| ()).map_err(|e| e.to_string());
        (kb::<KT>(&k), kb::<VT>(&v), r)
    }
    fn del(&mut self, ks: u64, vs: u64) -> (Vec<u8>, Vec<u8>, Result<(), String>) {
        let (k, v) = (KT::mk(ks), VT::mk(vs));
        let r = self.0.remove(KT::br(&k), VT::br(&v)).map(|_| ()).map_err(|e| e.to_string());
        (kb::<KT>(&k), kb::<VT>(&v), r)
    }
    fn read(&self) -> Result<(Entries, u64), String> {
        let mut out = vec![];
        for e in self.0.iter().map_err(|e| e.to_string())? {
            let (k, vs) = e.map_err(|e| e.to_string())?;
            let kbytes = <KT::R as Value>::as_bytes(&k.value()).as_ref().to_vec();
            for v in vs {
                let v = v.map_err(|e| e.to_string())?;
                out.push((kbytes.clone(), <VT::R as Value>::as_bytes(&v.value()).as_ref().to_vec()));
            }
        }
        out.sort();
        Ok((out, self.0.len().map_err(|e| e.to_string())?))
    }
}

fn open_w<'t, KT: Ty, VT: Ty>(txn: &'t WriteTransaction, name: &str, multimap: bool) -> Result<Box<dyn H + 't>, TableError> {
    if multimap {
        let t = txn.open_multimap_table(MultimapTableDefinition::<KT::R, VT::R>::new(name))?;
        Ok(Box::new(MH::<KT, VT>(t, PhantomData)))
    } else {
        let t = txn.open_table(TableDefinition::<KT::R, VT::R>::new(name))?;
        Ok(Box::new(NH::<KT, VT>(t, PhantomData)))
    }
}
fn open_r<KT: Ty, VT: Ty>(txn: &ReadTransaction, name: &str, multimap: bool) -> Result<Result<(Entries, u64), String>, TableError> {
    let mut out = vec![];
    if multimap {
        let t = txn.open_multimap_table(MultimapTableDefinition::<KT::R, VT::R>::new(name))?;
        let r = (|| -> Result<(Entries, u64), String> {
            for e in t.iter().map_err(|e| e.to_string())? {
                let (k, vs) = e.map_err(|e| e.to_string())?;
                let kbytes = <KT::R as Value>::as_bytes(&k.value()).as_ref().to_vec();
                for v in vs {
                    let v = v.map_err(|e| e.to_string())?;
                    out.push((kbytes.clone(), <VT::R as Value>::as_bytes(&v.value()).as_ref().to_vec()));
                }
            }
            out.sort();
            Ok((out, t.len().map_err(|e| e.to_string())?))
        })();
        Ok(r)
    } else {
        let t = txn.open_table(TableDefinition::<KT::R, VT::R>::new(name))?;
        let r = (|| -> Result<(Entries, u64), String> {
            for e in t.iter().map_err(|e| e.to_string())? {
                let (k, v) = e.map_err(|e| e.to_string())?;
                out.push((<KT::R as Value>::as_bytes(&k.value()).as_ref().to_vec(), <VT::R as Value>::as_bytes(&v.value()).as_ref().to_vec()));
            }
            out.sort();
            Ok((out, t.len().map_err(|e| e.to_string())?))
        })();
        Ok(r)
    }
}
macro_rules! m_open_w { ($k:ident, $v:ident, $txn:expr, $name:expr, $mm:expr) => { open_w::<$k, $v>($txn, $name, $mm) }; }
macro_rules! m_open_r { ($k:ident, $v:ident, $txn:expr, $name:expr, $mm:expr) => { open_r::<$k, $v>($txn, $name, $mm) }; }
macro_rules! m_tokens { ($k:ident, $v:ident, ) => { (<$k as Ty>::token(), <$v as Ty>::token()) }; }
fn tokens(pair: u64) -> (String, String) {
    pairs!(m_tokens, pair,)
}

// ------------------------------------------------------------------ result text
fn tn_s(t: &TypeName) -> String {
    format!("{}/{}", t.verif_classification(), hex(t.name().as_bytes()))
}
fn err_s(e: &TableError) -> String {
    match e {
        TableError::TableTypeMismatch { table, key, value } => format!("err:TypeMismatch:{}:{}:{}", hex(table.as_bytes()), tn_s(key), tn_s(value)),
        TableError::TableIsMultimap(t) => format!("err:IsMultimap:{}", hex(t.as_bytes())),
        TableError::TableIsNotMultimap(t) => format!("err:IsNotMultimap:{}", hex(t.as_bytes())),
        TableError::TypeDefinitionChanged { name, alignment, width } => format!("err:TypeDefChanged:{}:{}:{}", tn_s(name), alignment, width.map(|w| w.to_string()).unwrap_or("-".into())),
        TableError::TableDoesNotExist(t) => format!("err:DoesNotExist:{}", hex(t.as_bytes())),
        TableError::TableExists(t) => format!("err:Exists:{}", hex(t.as_bytes())),
        TableError::TableAlreadyOpen(t, _) => format!("err:AlreadyOpen:{}", hex(t.as_bytes())),
        TableError::Storage(e) => format!("STORAGE:{e}"),
        _ => format!("OTHER:{e}"),
    }
}
fn contents_s(e: &Entries, len: u64) -> String {
    format!("contents:{}:{}", len, e.iter().map(|(k, v)| format!("{}={}", hex(k), hex(v))).collect::<Vec<_>>().join(","))
}
fn names_s(mut l: Vec<String>) -> String {
    // the API returns the master tree's order; keep it (the model predicts that order)
    let v: Vec<String> = l.drain(..).map(|n| hex(n.as_bytes())).collect();
    format!("names:{}", v.join(","))
}

/// op log written incrementally: the case line before the op runs, the result line after it, so that an abort of
/// the process leaves a usable prefix (cases.txt one line longer than impl.txt)
struct Log {
    cases: std::io::BufWriter<std::fs::File>,
    out: std::io::BufWriter<std::fs::File>,
    intent: std::io::BufWriter<std::fs::File>,
    lines: u64,
}
impl Log {
    /// what is about to be executed (so that an abort of the process can be attributed to an op)
    fn intent(&mut self, what: &str) {
        use std::io::Write;
        writeln!(self.intent, "after line {}: {what}", self.lines).unwrap();
        self.intent.flush().unwrap();
    }
    fn put(&mut self, c: &str, o: &str, st: &mut Stats) {
        self.case(c);
        self.res(o, st);
    }
    fn case(&mut self, c: &str) {
        use std::io::Write;
        writeln!(self.cases, "{c}").unwrap();
        self.cases.flush().unwrap();
        self.lines += 1;
    }
    fn res(&mut self, o: &str, st: &mut Stats) {
        use std::io::Write;
        writeln!(self.out, "{o}").unwrap();
        self.out.flush().unwrap();
        bump(&mut st.results, &res_class(o));
    }
}

#[derive(Default)]
struct Stats {
    programs: u64,
    ops: BTreeMap<String, u64>,
    results: BTreeMap<String, u64>,
    pairs_used: BTreeSet<u64>,
    stored_vs_requested: BTreeSet<(u64, u64)>,
    nontrivial: BTreeSet<u64>,
    rename_of_staged: u64,
    reopen_of_staged: u64,
    delete_of_staged: u64,
    alias_open_ok: u64,
    max_open: usize,
    probes: u64,
    probe_pages: Vec<(u64, u64, u64)>,
}
fn bump(m: &mut BTreeMap<String, u64>, k: &str) {
    *m.entry(k.to_string()).or_insert(0) += 1;
}
fn res_class(r: &str) -> String {
    if let Some(rest) = r.strip_prefix("err:") { format!("err:{}", rest.split(':').next().unwrap()) } else { r.split(':').next().unwrap().to_string() }
}

fn open_db(mem: &Mem, ps: usize) -> Database {
    let mut b = Database::builder();
    b.verif_set_page_size(ps);
    b.verif_set_region_size((ps as u64) * 1024);
    b.set_cache_size(2 << 20);
    b.create_with_backend(mem.clone()).expect("create db")
}

const NAMES: [&str; 6] = ["a", "b", "ab", "t", "", "\u{e9}x"];

fn run_program(id: u64, r: &mut Rng, log: &mut Log, st: &mut Stats) {
    let ps = *r.pick(&[512usize, 1024, 4096]);
    let mem = Mem(Arc::new(Mutex::new(vec![])));
    let db = open_db(&mem, ps);
    log.case(&format!("P {id} {ps}"));
    log.res("P", st);
    // this program's pool of type pairs: two related groups + one random pair
    let mut pool: Vec<u64> = vec![];
    for _ in 0..2 {
        pool.extend_from_slice(*r.pick(&RELATED));
    }
    pool.push(r.below(NPAIRS));
    let nnames = r.range(2, 4) as usize;
    // generator-side knowledge (steering only): what each name was created as in this txn / staged
    let mut created_as: BTreeMap<String, u64> = BTreeMap::new();
    let mut staged: BTreeSet<String> = BTreeSet::new();
    let txns = r.range(2, 5);
    for _ in 0..txns {
        let txn = db.begin_write().expect("begin_write");
        {
            let mut handles: Vec<(String, Box<dyn H + '_>)> = vec![];
            let nops = r.range(4, 28);
            for _ in 0..nops {
                let name = NAMES[r.below(nnames as u64) as usize].to_string();
                let name2 = NAMES[r.below(nnames as u64) as usize].to_string();
                let multimap = r.chance(1, 4);
                let kch = if multimap { 'm' } else { 'n' };
                let pair = if created_as.contains_key(&name) && r.chance(1, 3) { created_as[&name] }
                           else if created_as.contains_key(&name) && r.chance(1, 2) {
                               // a pair related to the one the table was created with: legacy spelling, colliding name, other width
                               let p0 = created_as[&name];
                               let g = RELATED.iter().find(|g| g.contains(&p0)).unwrap();
                               *r.pick(g)
                           } else { *r.pick(&pool) };
                let sel = r.below(100);
                log.intent(&format!("program {id} op-class {sel} name {} name2 {} multimap {multimap} pair {pair}", hex(name.as_bytes()), hex(name2.as_bytes())));
                match sel {
                    0..=27 => {
                        bump(&mut st.ops, "open");
                        st.pairs_used.insert(pair);
                        if let Some(p0) = created_as.get(&name) {
                            st.stored_vs_requested.insert((*p0, pair));
                            if *p0 != pair { st.nontrivial.insert(id); }
                        }
                        if staged.contains(&name) { st.reopen_of_staged += 1; st.nontrivial.insert(id); }
                        let (kt, vt) = tokens(pair);
                        let res = catch(|| pairs!(m_open_w, pair, &txn, &name, multimap));
                        let o = match res {
                            Ok(Ok(h)) => {
                                if created_as.get(&name).is_some_and(|p0| *p0 != pair) { st.alias_open_ok += 1; }
                                handles.push((name.clone(), h)); created_as.entry(name.clone()).or_insert(pair); staged.remove(&name); "ok".to_string() }
                            Ok(Err(e)) => err_s(&e),
                            Err(m) => format!("PANIC:{m}"),
                        };
                        log.put(&format!("open {} {} {} {}", hex(name.as_bytes()), kch, kt, vt), &o, st);
                        st.max_open = st.max_open.max(handles.len());
                    }
                    28..=41 => {
                        if handles.is_empty() { continue; }
                        bump(&mut st.ops, "close");
                        let i = r.below(handles.len() as u64) as usize;
                        let (n, h) = handles.remove(i);
                        let res = catch(move || drop(h));
                        staged.insert(n.clone());
                        log.put(&format!("close {}", hex(n.as_bytes())), &match res { Ok(()) => "ok".to_string(), Err(m) => format!("PANIC:{m}") }, st);
                    }
                    42..=61 => {
                        if handles.is_empty() { continue; }
                        let i = r.below(handles.len() as u64) as usize;
                        let (ks, vs) = (r.below(40), r.below(40));
                        let del = r.chance(1, 3);
                        bump(&mut st.ops, if del { "del" } else { "put" });
                        let n = handles[i].0.clone();
                        let res = catch(|| if del { handles[i].1.del(ks, vs) } else { handles[i].1.put(ks, vs) });
                        match res {
                            Ok((k, v, rr)) => log.put(&format!("{} {} {} {}", if del { "del" } else { "put" }, hex(n.as_bytes()), hex(&k), hex(&v)),
                                                  &match rr { Ok(()) => "ok".to_string(), Err(e) => format!("STORAGE:{e}") }, st),
                            Err(m) => log.put(&format!("put {} - -", hex(n.as_bytes())), &format!("PANIC:{m}"), st),
                        }
                    }
                    62..=67 => {
                        if handles.is_empty() { continue; }
                        bump(&mut st.ops, "read");
                        let i = r.below(handles.len() as u64) as usize;
                        let n = handles[i].0.clone();
                        let res = catch(|| handles[i].1.read());
                        log.put(&format!("read {}", hex(n.as_bytes())), &match res { Ok(Ok((e, l))) => contents_s(&e, l), Ok(Err(e)) => format!("STORAGE:{e}"), Err(m) => format!("PANIC:{m}") }, st);
                    }
                    68..=79 => {
                        bump(&mut st.ops, "rename");
                        if staged.contains(&name) { st.rename_of_staged += 1; st.nontrivial.insert(id); }
                        let res = catch(|| if multimap {
                            txn.rename_multimap_table(MultimapTableDefinition::<u64, u64>::new(&name), MultimapTableDefinition::<u64, u64>::new(&name2))
                        } else {
                            txn.rename_table(TableDefinition::<u64, u64>::new(&name), TableDefinition::<u64, u64>::new(&name2))
                        });
                        let o = match res {
                            Ok(Ok(())) => {
                                if name != name2 {
                                    if let Some(p) = created_as.remove(&name) { created_as.insert(name2.clone(), p); }
                                    if staged.remove(&name) { staged.insert(name2.clone()); }
                                }
                                "ok".to_string()
                            }
                            Ok(Err(e)) => err_s(&e),
                            Err(m) => format!("PANIC:{m}"),
                        };
                        log.put(&format!("rename {} {} {}", kch, hex(name.as_bytes()), hex(name2.as_bytes())), &o, st);
                    }
                    80..=87 => {
                        bump(&mut st.ops, "delete");
                        if staged.contains(&name) { st.delete_of_staged += 1; st.nontrivial.insert(id); }
                        let res = catch(|| if multimap {
                            txn.delete_multimap_table(MultimapTableDefinition::<u64, u64>::new(&name))
                        } else {
                            txn.delete_table(TableDefinition::<u64, u64>::new(&name))
                        });
                        let o = match res {
                            Ok(Ok(b)) => { if b { created_as.remove(&name); staged.remove(&name); } (if b { "t" } else { "f" }).to_string() }
                            Ok(Err(e)) => err_s(&e),
                            Err(m) => format!("PANIC:{m}"),
                        };
                        log.put(&format!("delete {} {}", kch, hex(name.as_bytes())), &o, st);
                    }
                    88..=91 => {
                        bump(&mut st.ops, "list");
                        let res = catch(|| -> Result<Vec<String>, redb::StorageError> {
                            Ok(if multimap { txn.list_multimap_tables()?.map(|h| redb::MultimapTableHandle::name(&h).to_string()).collect() }
                               else { txn.list_tables()?.map(|h| redb::TableHandle::name(&h).to_string()).collect() })
                        });
                        log.put(&format!("list {kch}"), &match res { Ok(Ok(l)) => names_s(l), Ok(Err(e)) => format!("STORAGE:{e}"), Err(m) => format!("PANIC:{m}") }, st);
                    }
                    _ => {
                        // a read transaction started now sees the last commit
                        let which = r.below(3);
                        let res = catch(|| -> Result<String, String> {
                            let rt = db.begin_read().map_err(|e| e.to_string())?;
                            Ok(match which {
                                0 => match pairs!(m_open_r, pair, &rt, &name, multimap) {
                                    Ok(Ok((e, l))) => contents_s(&e, l),
                                    Ok(Err(e)) => format!("STORAGE:{e}"),
                                    Err(e) => err_s(&e),
                                },
                                1 => {
                                    if multimap {
                                        match rt.open_untyped_multimap_table(MultimapTableDefinition::<u64, u64>::new(&name)) { Ok(t) => format!("ulen:{}", t.len().map_err(|e| e.to_string())?), Err(e) => err_s(&e) }
                                    } else {
                                        match rt.open_untyped_table(TableDefinition::<u64, u64>::new(&name)) { Ok(t) => format!("ulen:{}", t.len().map_err(|e| e.to_string())?), Err(e) => err_s(&e) }
                                    }
                                }
                                _ => {
                                    let l: Vec<String> = if multimap { rt.list_multimap_tables().map_err(|e| e.to_string())?.map(|h| redb::MultimapTableHandle::name(&h).to_string()).collect() }
                                                         else { rt.list_tables().map_err(|e| e.to_string())?.map(|h| redb::TableHandle::name(&h).to_string()).collect() };
                                    names_s(l)
                                }
                            })
                        });
                        let (kt, vt) = tokens(pair);
                        let c = match which {
                            0 => { bump(&mut st.ops, "ropen"); format!("ropen {} {} {} {}", hex(name.as_bytes()), kch, kt, vt) }
                            1 => { bump(&mut st.ops, "ropenu"); format!("ropenu {} {}", hex(name.as_bytes()), kch) }
                            _ => { bump(&mut st.ops, "rlist"); format!("rlist {kch}") }
                        };
                        log.put(&c, &match res { Ok(Ok(s)) => s, Ok(Err(e)) => format!("STORAGE:{e}"), Err(m) => format!("PANIC:{m}") }, st);
                    }
                }
            }
            log.intent(&format!("program {id} dropping remaining handles"));
            // drop the remaining handles in a random order
            while !handles.is_empty() {
                let i = r.below(handles.len() as u64) as usize;
                let (n, h) = handles.remove(i);
                let res = catch(move || drop(h));
                staged.insert(n.clone());
                log.put(&format!("close {}", hex(n.as_bytes())), &match res { Ok(()) => "ok".to_string(), Err(m) => format!("PANIC:{m}") }, st);
                bump(&mut st.ops, "close");
            }
        }
        log.intent(&format!("program {id} end of transaction (handles dropped, commit or abort)"));
        if r.chance(1, 4) {
            bump(&mut st.ops, "abort");
            let res = catch(|| txn.abort());
            log.put("abort", &match res { Ok(Ok(())) => "ok".to_string(), Ok(Err(e)) => format!("STORAGE:{e}"), Err(m) => format!("PANIC:{m}") }, st);
            // generator knowledge is only a hint; forget it
            created_as.clear();
        } else {
            bump(&mut st.ops, "commit");
            let res = catch(|| txn.commit());
            log.put("commit", &match res { Ok(Ok(())) => "ok".to_string(), Ok(Err(e)) => format!("STORAGE:{e}"), Err(m) => format!("PANIC:{m}") }, st);
        }
        staged.clear();
        // after the transaction: what a read transaction sees, for every name and kind
        for (i, n) in NAMES.iter().enumerate().take(nnames) {
            let _ = i;
            for mm in [false, true] {
                let rt = db.begin_read().expect("begin_read");
                let s = if mm {
                    match rt.open_untyped_multimap_table(MultimapTableDefinition::<u64, u64>::new(n)) { Ok(t) => format!("ulen:{}", t.len().unwrap_or(u64::MAX)), Err(e) => err_s(&e) }
                } else {
                    match rt.open_untyped_table(TableDefinition::<u64, u64>::new(n)) { Ok(t) => format!("ulen:{}", t.len().unwrap_or(u64::MAX)), Err(e) => err_s(&e) }
                };
                log.put(&format!("ropenu {} {}", hex(n.as_bytes()), if mm { 'm' } else { 'n' }), &s, st);
            }
        }
    }
    st.programs += 1;
}

// "deleting a table releases all of its storage": allocated page count before the table existed must be
// reached again after delete + commits (no reader is alive, so pending frees are processed)
fn probe(id: u64, r: &mut Rng, out: &mut String, st: &mut Stats) {
    let ps = *r.pick(&[512usize, 1024, 4096]);
    let mem = Mem(Arc::new(Mutex::new(vec![])));
    let db = open_db(&mem, ps);
    const BASE: TableDefinition<u64, u64> = TableDefinition::new("base");
    const BASE2: MultimapTableDefinition<u64, u64> = MultimapTableDefinition::new("base2");
    const VICTIM: TableDefinition<u64, &[u8]> = TableDefinition::new("victim");
    const VICTIM_M: MultimapTableDefinition<u64, &[u8]> = MultimapTableDefinition::new("victim");
    let multimap = r.chance(1, 2);
    let rename_first = r.chance(1, 3);
    let two_txn_fill = r.chance(1, 2);
    let alloc = |db: &Database| -> u64 {
        let t = db.begin_write().unwrap();
        let a = t.stats().unwrap().allocated_pages();
        t.abort().unwrap();
        a
    };
    let settle = |db: &Database| {
        for _ in 0..3 {
            let t = db.begin_write().unwrap();
            { let mut b = t.open_table(BASE).unwrap(); b.insert(0, 0).unwrap(); }
            t.commit().unwrap();
        }
    };
    {
        let t = db.begin_write().unwrap();
        { let mut b = t.open_table(BASE).unwrap(); for i in 0..r.range(1, 30) { b.insert(i, i).unwrap(); } }
        { let mut b = t.open_multimap_table(BASE2).unwrap(); for i in 0..r.range(1, 10) { b.insert(i % 3, i).unwrap(); } }
        t.commit().unwrap();
    }
    settle(&db);
    let a0 = alloc(&db);
    let n = r.range(1, 400);
    let vlen = *r.pick(&[0usize, 8, 60, ps / 2 + 5, ps + 17]);
    let fill = |db: &Database, lo: u64, hi: u64| {
        let t = db.begin_write().unwrap();
        if multimap {
            let mut v = t.open_multimap_table(VICTIM_M).unwrap();
            for i in lo..hi { let val = vec![(i % 251) as u8; vlen.min(ps)]; v.insert(i % 7, val.as_slice()).unwrap(); let v2 = vec![(i % 13) as u8; 3]; v.insert(i, v2.as_slice()).unwrap(); }
        } else {
            let mut v = t.open_table(VICTIM).unwrap();
            for i in lo..hi { let val = vec![(i % 251) as u8; vlen]; v.insert(i, val.as_slice()).unwrap(); }
        }
        t.commit().unwrap();
    };
    if two_txn_fill { fill(&db, 0, n / 2); fill(&db, n / 2, n); } else { fill(&db, 0, n); }
    let a1 = alloc(&db);
    {
        let t = db.begin_write().unwrap();
        let victim_name = if rename_first {
            if multimap { t.rename_multimap_table(VICTIM_M, MultimapTableDefinition::<u64, &[u8]>::new("moved")).unwrap(); }
            else { t.rename_table(VICTIM, TableDefinition::<u64, &[u8]>::new("moved")).unwrap(); }
            "moved"
        } else { "victim" };
        let ok = if multimap { t.delete_multimap_table(MultimapTableDefinition::<u64, &[u8]>::new(victim_name)).unwrap() }
                 else { t.delete_table(TableDefinition::<u64, &[u8]>::new(victim_name)).unwrap() };
        assert!(ok);
        t.commit().unwrap();
    }
    settle(&db);
    let a2 = alloc(&db);
    writeln!(out, "probe {id} ps={ps} multimap={multimap} rename_first={rename_first} n={n} vlen={vlen} before={a0} filled={a1} after_delete={a2} {}",
             if a2 == a0 && a1 > a0 { "OK" } else if a2 != a0 { "LEAK" } else { "VACUOUS" }).unwrap();
    st.probes += 1;
    if st.probe_pages.len() < 5 { st.probe_pages.push((a0, a1, a2)); }
}

// ------------------------------------------------------------------ type-confusion matrix (independent of TypeName)
// Ground truth: every type below has an identity chosen BY HAND (what the bytes mean), not derived from
// `type_name()`. A table created with key (or value) type A must not open with type B unless A and B have the
// same identity (the same type, or a documented legacy spelling of it). The check is exhaustive over ordered pairs.
struct TFakeU32;
impl Ty for TFakeU32 { type R = FakeU32; type O = Vec<u8>; fn mk(s: u64) -> Vec<u8> { ((s % 7) as u32).to_le_bytes().to_vec() } fn br<'a>(o: &'a Vec<u8>) -> &'a [u8] { o } }
struct TTup64x32;
impl Ty for TTup64x32 { type R = (u64, u32); type O = (u64, u32); fn mk(s: u64) -> (u64, u32) { (s % 3, (s / 3 % 3) as u32) } fn br<'a>(o: &'a (u64, u32)) -> (u64, u32) { *o } }
struct TTup64xFake;
impl Ty for TTup64xFake { type R = (u64, FakeU32); type O = (u64, Vec<u8>); fn mk(s: u64) -> (u64, Vec<u8>) { (s % 3, ((s / 3 % 3) as u32).to_le_bytes().to_vec()) } fn br<'a>(o: &'a (u64, Vec<u8>)) -> (u64, &'a [u8]) { (o.0, o.1.as_slice()) } }
struct TTupFakex64;
impl Ty for TTupFakex64 { type R = (FakeU32, u64); type O = (Vec<u8>, u64); fn mk(s: u64) -> (Vec<u8>, u64) { (((s % 3) as u32).to_le_bytes().to_vec(), s / 3 % 3) } fn br<'a>(o: &'a (Vec<u8>, u64)) -> (&'a [u8], u64) { (o.0.as_slice(), o.1) } }
struct TTup3;
impl Ty for TTup3 { type R = (u64, u64, u32); type O = (u64, u64, u32); fn mk(s: u64) -> (u64, u64, u32) { (s % 2, s / 2 % 2, (s / 4 % 2) as u32) } fn br<'a>(o: &'a (u64, u64, u32)) -> (u64, u64, u32) { *o } }
struct TTup3Fake;
impl Ty for TTup3Fake { type R = (u64, u64, FakeU32); type O = (u64, u64, Vec<u8>); fn mk(s: u64) -> (u64, u64, Vec<u8>) { (s % 2, s / 2 % 2, ((s / 4 % 2) as u32).to_le_bytes().to_vec()) } fn br<'a>(o: &'a (u64, u64, Vec<u8>)) -> (u64, u64, &'a [u8]) { (o.0, o.1, o.2.as_slice()) } }
struct TArrU32;
impl Ty for TArrU32 { type R = [u32; 2]; type O = [u32; 2]; fn mk(s: u64) -> [u32; 2] { [(s % 3) as u32, (s / 3 % 3) as u32] } fn br<'a>(o: &'a [u32; 2]) -> [u32; 2] { *o } }
struct TArrFake;
impl Ty for TArrFake { type R = [FakeU32; 2]; type O = [Vec<u8>; 2]; fn mk(s: u64) -> [Vec<u8>; 2] { [((s % 3) as u32).to_le_bytes().to_vec(), ((s / 3 % 3) as u32).to_le_bytes().to_vec()] } fn br<'a>(o: &'a [Vec<u8>; 2]) -> [&'a [u8]; 2] { [o[0].as_slice(), o[1].as_slice()] } }

fn confuse<A: Ty, B: Ty>(db: &Database, tag: &str) -> (String, String) {
    // table created with A as key (resp. value) type, then opened with B in a later write transaction and in a read transaction
    let kname = format!("k.{tag}");
    let vname = format!("v.{tag}");
    let setup = catch(|| {
        let t = db.begin_write().unwrap();
        {
            let mut tk = t.open_table(TableDefinition::<A::R, u64>::new(&kname)).unwrap();
            let a = A::mk(5);
            tk.insert(A::br(&a), 1u64).unwrap();
            let mut tv = t.open_table(TableDefinition::<u64, A::R>::new(&vname)).unwrap();
            tv.insert(1u64, A::br(&a)).unwrap();
        }
        t.commit().unwrap();
    });
    if let Err(m) = setup {
        return (format!("SETUP-PANIC:{m}"), String::new());
    }
    let probe = |key_pos: bool| -> String {
        let w = catch(|| {
            let t = db.begin_write().unwrap();
            let r = if key_pos { t.open_table(TableDefinition::<B::R, u64>::new(&kname)).map(|_| ()) } else { t.open_table(TableDefinition::<u64, B::R>::new(&vname)).map(|_| ()) };
            let s = match r { Ok(()) => "ok".to_string(), Err(e) => err_s(&e) };
            t.abort().unwrap();
            s
        });
        let rd = catch(|| {
            let t = db.begin_read().unwrap();
            let r = if key_pos { t.open_table(TableDefinition::<B::R, u64>::new(&kname)).map(|_| ()) } else { t.open_table(TableDefinition::<u64, B::R>::new(&vname)).map(|_| ()) };
            match r { Ok(()) => "ok".to_string(), Err(e) => err_s(&e) }
        });
        format!("w={} r={}", w.unwrap_or_else(|m| format!("PANIC:{m}")), rd.unwrap_or_else(|m| format!("PANIC:{m}")))
    };
    (probe(true), probe(false))
}

macro_rules! confusion_row {
    ($db:expr, $out:expr, $n:expr, $a:ident, $aid:expr; $( $b:ident, $bid:expr );* ) => {
        $(
            if stringify!($a) != stringify!($b) {
                let (k, v) = confuse::<$a, $b>($db, &format!("{}", *$n));
                writeln!($out, "{} | {} | {} | {} | key: {} | value: {}", stringify!($a), $aid, stringify!($b), $bid, k, v).unwrap();
                *$n += 1;
            }
        )*
    };
}
macro_rules! confusion_all {
    ($db:expr, $out:expr, $n:expr; $( $a:ident, $aid:expr );* ) => {
        $( confusion_row!($db, $out, $n, $a, $aid; TU64, "u64"; TU32, "u32"; TFakeU64, "user u64"; TFakeU32, "user u32"; TBytes, "&[u8]"; TStr, "&str";
            TTup, "(u32,u64)"; TTup64x32, "(u64,u32)"; TTup64xFake, "(u64,user u32)"; TTupFakex64, "(user u32,u64)"; TTup3, "(u64,u64,u32)"; TTup3Fake, "(u64,u64,user u32)";
            TOpt, "Option<u32>"; TLegOpt, "Option<u32>"; TOptFake, "Option<user u32>"; TUserOpt, "Option<user u32>"; TLegOptW, "Option<u32> var-width";
            TArr, "[u8;4]"; TArrU32, "[u32;2]"; TArrFake, "[user u32;2]"; TVTup, "(u32,&str)"; TLegVTup, "(u32,&str)"; TBadVTup, "redb2 (u32,&str)";
            TW4U64, "u64 width 4"; TW3Bytes, "&[u8] width 3"); )*
    };
}
fn confusion_matrix() -> String {
    let mem = Mem(Arc::new(Mutex::new(vec![])));
    let db = open_db(&mem, 4096);
    let mut out = String::new();
    let mut n = 0u64;
    confusion_all!(&db, out, &mut n; TU64, "u64"; TU32, "u32"; TFakeU64, "user u64"; TFakeU32, "user u32"; TBytes, "&[u8]"; TStr, "&str";
        TTup, "(u32,u64)"; TTup64x32, "(u64,u32)"; TTup64xFake, "(u64,user u32)"; TTupFakex64, "(user u32,u64)"; TTup3, "(u64,u64,u32)"; TTup3Fake, "(u64,u64,user u32)";
        TOpt, "Option<u32>"; TLegOpt, "Option<u32>"; TOptFake, "Option<user u32>"; TUserOpt, "Option<user u32>"; TLegOptW, "Option<u32> var-width";
        TArr, "[u8;4]"; TArrU32, "[u32;2]"; TArrFake, "[user u32;2]"; TVTup, "(u32,&str)"; TLegVTup, "(u32,&str)"; TBadVTup, "redb2 (u32,&str)";
        TW4U64, "u64 width 4"; TW3Bytes, "&[u8] width 3");
    out
}

fn main() {
    silence_panics();
    let n: u64 = std::env::args().nth(1).map(|s| s.parse().unwrap()).unwrap_or(100);
    let np: u64 = std::env::args().nth(2).map(|s| s.parse().unwrap()).unwrap_or(10);
    let mut r = Rng::new(seed_from_env());
    let mut probes = String::new();
    let mk = |n: &str| std::io::BufWriter::new(std::fs::File::create(n).unwrap());
    let mut log = Log { cases: mk("cases.txt"), out: mk("impl.txt"), intent: mk("intent.txt"), lines: 0 };
    let mut st = Stats::default();
    for id in 0..n {
        let mut pr = r.fork(id);
        // a panic that escapes an op (e.g. begin_write after a failed commit) ends the program, not the run
        if let Err(m) = catch(|| run_program(id, &mut pr, &mut log, &mut st)) {
            log.put("crash", &format!("PANIC-ESCAPED:{m}"), &mut st);
        }
    }
    for id in 0..np {
        let mut pr = r.fork(1_000_000 + id);
        match catch(|| { let mut o = String::new(); probe(id, &mut pr, &mut o, &mut st); o }) {
            Ok(o) => probes.push_str(&o),
            Err(m) => { writeln!(probes, "probe {id} PANIC:{m}").unwrap(); }
        }
    }
    std::fs::write("probes.txt", &probes).unwrap();
    std::fs::write("confusion.txt", catch(confusion_matrix).unwrap_or_else(|m| format!("MATRIX-PANIC:{m}\n"))).unwrap();
    let nlines = log.lines;
    let map_s = |m: &BTreeMap<String, u64>| format!("{{{}}}", m.iter().map(|(k, v)| format!("\"{k}\":{v}")).collect::<Vec<_>>().join(","));
    let js = format!("{{\"programs\":{},\"lines\":{},\"ops\":{},\"results\":{},\"type_pairs_used\":{},\"distinct_stored_vs_requested_pairs\":{},\"nontrivial_programs\":{},\"rename_of_staged\":{},\"reopen_of_staged\":{},\"delete_of_staged\":{},\"opens_ok_with_other_type_pair_than_created\":{},\"max_open_handles\":{},\"probes\":{},\"probe_pages_before_filled_after\":{:?}}}",
        st.programs, nlines, map_s(&st.ops), map_s(&st.results), st.pairs_used.len(), st.stored_vs_requested.len(),
        st.nontrivial.len(), st.rename_of_staged, st.reopen_of_staged, st.delete_of_staged, st.alias_open_ok, st.max_open, st.probes,
        st.probe_pages.iter().map(|(a, b, c)| vec![*a, *b, *c]).collect::<Vec<_>>());
    std::fs::write("stats.json", &js).unwrap();
    println!("programs={} lines={} distinct_nontrivial={} probes={}", st.programs, nlines, st.nontrivial.len(), st.probes);
}
