//! scratch: do reads on other threads race Database::drop into a backend call after close()?
#[path = "../c08_util.rs"]
mod util;
use redb::{ReadableDatabase, ReadableTable};
use rv_harness::silence_panics;
use util::*;
fn main() {
    silence_panics();
    let trials: usize = std::env::args().nth(1).map_or(200, |s| s.parse().unwrap());
    let nthreads: usize = std::env::args().nth(2).map_or(8, |s| s.parse().unwrap());
    let mut hits = 0;
    for t in 0..trials {
        let cfg = Config { page_size: 512, region_size: 512 * 64, cache_size: 0 };
        let be = MonBackend::new(vec![]);
        let db = Runner::builder(&cfg).create_with_backend(be.handle()).unwrap();
        {
            let txn = db.begin_write().unwrap();
            {
                let mut tab = txn.open_table(tdef(0)).unwrap();
                for k in 0..200u64 {
                    tab.insert(&k, value_for(k, 1, 100).as_slice()).unwrap();
                }
            }
            txn.commit().unwrap();
        }
        let mut hs = vec![];
        for i in 0..nthreads {
            let rt = db.begin_read().unwrap();
            hs.push(std::thread::spawn(move || {
                let mut n = 0u64;
                if let Ok(tab) = rt.open_table(tdef(0)) {
                    loop {
                        let k = (n * 7 + i as u64) % 200;
                        match tab.get(&k) {
                            Ok(_) => n += 1,
                            Err(_) => break,
                        }
                        if n > 5_000_000 { break; }
                    }
                }
                n
            }));
        }
        std::thread::sleep(std::time::Duration::from_micros(300 + (t as u64 % 7) * 100));
        drop(db);
        let reads: u64 = hs.into_iter().map(|h| h.join().unwrap_or(0)).sum();
        let g = be.lock();
        if g.calls_after_close > 0 || g.closes != 1 {
            hits += 1;
            let strict = g.events.iter().filter(|e| e.kind != Kind::Close && e.seq > g.close_exit_seq).count();
            if strict > 0 { println!("trial {t}: {strict} calls ENTERED the backend after close() had returned"); }
            let ci = g.events.iter().position(|e| e.kind == Kind::Close).unwrap();
            let _ = (ci, reads);
        }
    }
    println!("trials={trials} hits={hits}");
}
