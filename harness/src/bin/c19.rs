//! C19 harness: files written by the working tree are opened by redb 3.0.0 (`redb3`) and the reverse.
//!
//! usage: c19 fwd <n> <outdir>        working tree writes (page size 4096, small regions), 3.0.0 reads every image
//!        c19 rev <n> <outdir>        redb 3.0.0 writes, the working tree reads every image
//!        c19 composite <outdir>      directed: a table whose type names are composites ([u8;8] key, tuple key)
//!        c19 model <image> <psz>     open an image assembled by the Coq model's encoders with both crates
//!        c19 lensweep <n_random> [max_len] [window]   directed: single-leaf tables whose checksummed prefix sweeps every length around the
//!                                    multiples of 64 up to two pages (block / stripe boundaries of the page checksum), both
//!                                    directions, crash image and cleanly closed image; one line per disagreement on stdout
//! Every image is also left in <outdir> with index.txt / exp_*.txt so that the extracted Coq reader can
//! be run on it (same layout as the C10 harness).  Output: one line per image in <outdir>/readback.txt
//!   <image> reader=<v3|cur> contents=<same|DIFF|ERROR ...> integrity=<Ok(true)|...>
#[path = "../c10_util.rs"]
mod util;

use rv_harness::{Rng, catch, seed_from_env, silence_panics};
use std::fmt::Write as _;
use std::path::{Path, PathBuf};

fn tables_of(line: &str) -> Vec<(String, usize)> {
    let t = line.split(' ').find(|x| x.starts_with("tables=")).unwrap();
    let t = &t["tables=".len()..];
    if t == "-" {
        return vec![];
    }
    t.split(',')
        .map(|x| {
            let (n, c) = x.rsplit_once(':').unwrap();
            (n.to_string(), c.parse().unwrap())
        })
        .collect()
}

/// read every image of <out>/index.txt back with the other crate
fn read_back_all(out: &Path, reader_v3: bool) -> (u64, u64) {
    let index = std::fs::read_to_string(out.join("index.txt")).unwrap();
    let mut rb = String::new();
    let (mut n, mut bad) = (0u64, 0u64);
    for line in index.lines() {
        let f: Vec<&str> = line.split(' ').collect();
        let (img, exp) = (f[0], f[1]);
        let bytes = std::fs::read(out.join(img)).unwrap();
        let nsp = line.split(' ').find(|x| x.starts_with("savepoints=")).map(|x| x["savepoints=".len()..].to_string()).unwrap_or_default();
        let want = format!("{}savepoints {}\n", std::fs::read_to_string(out.join(exp)).unwrap(), nsp);
        let decls = tables_of(line);
        let res = catch(|| {
            if reader_v3 {
                util::v3::read_back(bytes, &decls)
            } else {
                util::cur::read_back(bytes, &decls)
            }
        });
        n += 1;
        let who = if reader_v3 { "v3" } else { "cur" };
        match res {
            Ok(Ok((got, integ, grew))) => {
                let same = got == want;
                if !same || integ != "Ok(true)" {
                    bad += 1;
                }
                let mut first = String::new();
                if !same {
                    let (g, w): (Vec<&str>, Vec<&str>) = (got.lines().collect(), want.lines().collect());
                    let d = (0..g.len().max(w.len())).find(|i| g.get(*i) != w.get(*i)).unwrap_or(0);
                    first = format!(" first_diff_line={} got={:?} want={:?}", d, g.get(d), w.get(d));
                }
                writeln!(rb, "{} reader={} contents={} integrity={} grew={}{}", img, who, if same { "same" } else { "DIFF" }, integ, u8::from(grew), first).unwrap();
            }
            Ok(Err(e)) => {
                bad += 1;
                writeln!(rb, "{} reader={} contents=ERROR integrity=- error={}", img, who, e.replace('\n', " ")).unwrap();
            }
            Err(p) => {
                bad += 1;
                writeln!(rb, "{} reader={} contents=PANIC integrity=- error={}", img, who, p.replace('\n', " ")).unwrap();
            }
        }
    }
    std::fs::write(out.join("readback.txt"), rb).unwrap();
    (n, bad)
}

fn histories(n: u64, out: &Path, mode: util::Mode, allowed: &dyn Fn(usize) -> bool, salt: u64) -> util::Stats {
    std::fs::create_dir_all(out).unwrap();
    let mut r = Rng::new(seed_from_env() ^ salt);
    let mut index = String::new();
    let mut stats = util::Stats::default();
    for h in 0..n {
        let mut hr = r.fork(h);
        util::run_history_with(h, &mut hr, out, &mut index, &mut stats, &mode, allowed);
    }
    std::fs::write(out.join("index.txt"), index).unwrap();
    stats
}

/// One writer / one reader per release for the length sweep: table "t": u64 -> &[u8] holding the single pair
/// (1, [fill; vlen]); the root leaf's checksummed prefix is 16 + vlen bytes (header 4, one value end offset 4,
/// key 8, value), so sweeping vlen sweeps the length the page checksum is computed over.
macro_rules! lensweep_fns {
    ($write:ident, $read:ident, $c:ident, $m:ident) => {
        fn $write(vlen: usize, fill: u8) -> Result<(Vec<u8>, Vec<u8>), String> {
            use rv_harness::backend::RecBackend;
            let be = RecBackend::new();
            let db = $c::Database::builder().create_with_backend(util::$m::Be(be.handle())).map_err(|e| format!("create: {e}"))?;
            let def: $c::TableDefinition<u64, &[u8]> = $c::TableDefinition::new("t");
            let txn = db.begin_write().map_err(|e| e.to_string())?;
            {
                let mut t = txn.open_table(def).map_err(|e| e.to_string())?;
                t.insert(1u64, vec![fill; vlen].as_slice()).map_err(|e| e.to_string())?;
            }
            txn.commit().map_err(|e| e.to_string())?;
            let crash = be.snapshot();
            drop(db);
            Ok((crash, be.snapshot()))
        }
        fn $read(bytes: Vec<u8>, vlen: usize, fill: u8) -> Result<String, String> {
            use rv_harness::backend::RecBackend;
            use $c::{ReadableDatabase, ReadableTable};
            let be = RecBackend::with_data(bytes);
            let mut db = $c::Database::builder().create_with_backend(util::$m::Be(be.handle())).map_err(|e| format!("open: {e}"))?;
            {
                let txn = db.begin_read().map_err(|e| e.to_string())?;
                let def: $c::TableDefinition<u64, &[u8]> = $c::TableDefinition::new("t");
                let t = txn.open_table(def).map_err(|e| format!("open_table: {e}"))?;
                let got = t.get(1u64).map_err(|e| e.to_string())?.map(|g| g.value().to_vec());
                if got != Some(vec![fill; vlen]) {
                    return Err(format!("contents differ: get(1) = {:?} bytes, expected {} bytes", got.map(|g| g.len()), vlen));
                }
            }
            Ok(match db.check_integrity() {
                Ok(b) => format!("Ok({b})"),
                Err(e) => format!("Err({e})"),
            })
        }
    };
}
lensweep_fns!(lens_write_cur, lens_read_cur, redb, cur);
lensweep_fns!(lens_write_v3, lens_read_v3, redb3, v3);

fn lensweep(n_random: u64, max_len: usize, window: usize) {
    let mut r = Rng::new(seed_from_env() ^ 0x19_1e);
    // checksummed prefix = 16 + vlen: every length within 2 of a multiple of 64 up to two pages, plus random ones
    let mut vlens: Vec<usize> = vec![];
    for l in 16usize..=max_len {
        let m = l % 64;
        if m <= window || m >= 64 - window {
            vlens.push(l - 16);
        }
    }
    for _ in 0..n_random {
        vlens.push(r.range(0, 9000) as usize);
    }
    let (mut cases, mut bad, mut boundary) = (0u64, 0u64, 0u64);
    for vlen in vlens {
        let fill = (r.below(255) + 1) as u8;
        if (16 + vlen) % 1024 == 0 {
            boundary += 1;
        }
        for dir in ["fwd", "rev"] {
            let written = catch(|| if dir == "fwd" { lens_write_cur(vlen, fill) } else { lens_write_v3(vlen, fill) });
            let (crash, clean) = match written {
                Ok(Ok(x)) => x,
                other => {
                    // the writer itself failed: not a compatibility verdict, reported as a harness problem
                    println!("LENSWEEP-WRITER-FAILED dir={dir} vlen={vlen} {:?}", other.map(|r| r.map(|_| ())));
                    continue;
                }
            };
            for (kind, img) in [("crash", crash), ("clean", clean)] {
                cases += 1;
                let res = catch(|| if dir == "fwd" { lens_read_v3(img.clone(), vlen, fill) } else { lens_read_cur(img.clone(), vlen, fill) });
                let verdict = match res {
                    Ok(Ok(i)) if i == "Ok(true)" => continue,
                    Ok(Ok(i)) => format!("integrity={i}"),
                    Ok(Err(e)) => format!("error={}", e.replace('\n', " ")),
                    Err(p) => format!("panic={}", p.replace('\n', " ")),
                };
                bad += 1;
                println!("LENSWEEP-BAD dir={dir} image={kind} vlen={vlen} fill={fill} covered={} {verdict}", 16 + vlen);
            }
        }
    }
    println!("lensweep cases={cases} bad={bad} lengths_at_multiples_of_1024={boundary}");
}

fn main() {
    if std::env::var("H_VERBOSE").is_err() {
        silence_panics();
    }
    let args: Vec<String> = std::env::args().collect();
    match args.get(1).map(|s| s.as_str()) {
        Some("fwd") => {
            let out = PathBuf::from(&args[3]);
            // composite type names are exercised separately (`composite`)
            let stats = histories(args[2].parse().unwrap(), &out, util::Mode::CurrentFor3, &|c| !util::combo_is_composite(c), 0x1900);
            let (n, bad) = read_back_all(&out, true);
            println!("{}", stats.summary());
            println!("readback images={} bad={}", n, bad);
        }
        Some("rev") => {
            let out = PathBuf::from(&args[3]);
            let stats = histories(args[2].parse().unwrap(), &out, util::Mode::V3, &|_| true, 0x1903);
            let (n, bad) = read_back_all(&out, false);
            println!("{}", stats.summary());
            println!("readback images={} bad={}", n, bad);
        }
        Some("composite") => {
            let out = PathBuf::from(&args[2]);
            let stats = histories(3, &out, util::Mode::CurrentFor3, &|c| util::combo_is_composite(c), 0x19c0);
            let (n, bad) = read_back_all(&out, true);
            println!("{}", stats.summary());
            println!("readback images={} bad={}", n, bad);
        }
        Some("lensweep") => lensweep(
            args.get(2).map(|x| x.parse().unwrap()).unwrap_or(0),
            args.get(3).map(|x| x.parse().unwrap()).unwrap_or(4096 + 66),
            args.get(4).map(|x| x.parse().unwrap()).unwrap_or(1),
        ),
        Some("check") => {
            // re-read the images of an existing directory with the chosen reader
            let out = PathBuf::from(&args[2]);
            let (n, bad) = read_back_all(&out, args[3] == "v3");
            println!("readback images={} bad={}", n, bad);
        }
        Some("alloc") => {
            // decode a serialized region allocator (hex, from `fmt_driver system`): diagnostics for findings
            let b = rv_harness::unhex(&args[2]);
            let a = redb::verif::VBuddy::from_bytes(&b);
            println!("buddy len={} max_order={} allocated_pages={} free_pages={} trailing_free={}",
                a.len(), a.get_max_order(), a.count_allocated_pages(), a.count_free_pages(), a.trailing_free_pages());
        }
        Some("probe3") => {
            // diagnostics for findings: open an image with redb 3.0.0 and watch file length / check_integrity
            use rv_harness::backend::RecBackend;
            let bytes = std::fs::read(&args[2]).unwrap();
            let pre_write = args.get(3).map(|s| s == "write").unwrap_or(false);
            let be = RecBackend::with_data(bytes.clone());
            println!("len before open = {}", bytes.len());
            let mut db = redb3::Database::builder().create_with_backend(util::v3::Be(be.handle())).unwrap();
            println!("len after open  = {}", be.snapshot().len());
            if pre_write {
                let t = db.begin_write().unwrap();
                t.abort().unwrap();
                println!("len after begin_write+abort = {}", be.snapshot().len());
            }
            for i in 0..3 {
                let r = db.check_integrity();
                println!("check_integrity #{} = {:?}  len = {}", i, r.map_err(|e| e.to_string()), be.snapshot().len());
            }
            std::fs::write(format!("{}.after3", &args[2]), be.snapshot()).unwrap();
        }
        Some("resizeprobe") => {
            // is a buddy allocator grown by resize() serialised like a fresh one of the new size? (same allocated pages)
            let (n0, n1, cap): (u32, u32, u32) = (args[2].parse().unwrap(), args[3].parse().unwrap(), args[4].parse().unwrap());
            let mut a = redb::verif::VBuddy::new(n0, cap);
            for p in 0..n0 { a.record_alloc(p, 0); }
            a.resize(n1);
            let mut b = redb::verif::VBuddy::new(n1, cap);
            for p in 0..n0 { b.record_alloc(p, 0); }
            println!("resized == fresh: {}  (hash {:x} vs {:x}; len {} {}; max_order {} {})", a.to_vec() == b.to_vec(), a.xxh3_hash(), b.xxh3_hash(), a.len(), b.len(), a.get_max_order(), b.get_max_order());
        }
        Some("model") => {
            // an image written by the Coq model's encoders: table "t" u64 -> u64 = {1:10, 2:20, 3:30, 7:70}
            let bytes = std::fs::read(&args[2]).unwrap();
            let psz: usize = args[3].parse().unwrap();
            let want = "table 74 normal\nkv 0100000000000000 0a00000000000000\nkv 0200000000000000 1400000000000000\nkv 0300000000000000 1e00000000000000\nkv 0700000000000000 4600000000000000\n";
            let decls = vec![("t".to_string(), 100usize)];
            let _ = decls;
            let r_cur = catch(|| util::model_read_cur(bytes.clone(), psz));
            println!("model reader=cur page_size={} result={:?} expected_match={}", psz, r_cur, matches!(&r_cur, Ok(Ok((g, _))) if g == want));
            if psz == 4096 {
                let r_v3 = catch(|| util::model_read_v3(bytes.clone()));
                println!("model reader=v3 page_size={} result={:?} expected_match={}", psz, r_v3, matches!(&r_v3, Ok(Ok((g, _))) if g == want));
            }
        }
        _ => {
            eprintln!("usage: c19 fwd|rev <n> <outdir> | composite <outdir> | model <image> <psz>");
            std::process::exit(2);
        }
    }
}
