//! C08 harness: for sampled histories, a fault-free recorded run maps backend-op index <-> API call;
//! then the same history is re-run with the k-th backend call failing (once / permanently) and the
//! property is evaluated on what the API returned and on the bytes that survive.
//!   cases.txt / impl.txt / meta.txt   lines for the extracted model (G = latch log replay, D = session model)
//!   violations.txt                   one JSON object per property violation found (S3)
//!   stats.txt                        measured distribution
#![allow(clippy::too_many_arguments)]

#[path = "../c08_util.rs"]
mod util;

use redb::verif_c08::{VLatchCall, VLatchEvent};
use rv_harness::{Rng, seed_from_env, silence_panics, tier_is_thorough};
use std::collections::{BTreeMap, BTreeSet};
use std::fmt::Write as _;
use std::io::Write as _;
use util::*;

const RECOVERY_REQUIRED: u8 = 2;
const GOD_BYTE_OFFSET: usize = 9;

struct Out {
    cases: Vec<String>,
    impls: Vec<String>,
    metas: Vec<String>,
    violations: Vec<String>,
    seen_keys: BTreeSet<String>,
    runs: u64,
    distinct: BTreeSet<(u64, u64, u8)>,
    nontrivial: u64,
    strata: BTreeMap<String, u64>,
    outcomes: BTreeMap<&'static str, u64>,
    notes: Vec<String>,
}

fn jesc(s: &str) -> String {
    s.replace('\\', "\\\\").replace('"', "'").replace('\n', " ")
}

impl Out {
    fn violation(&mut self, key: &str, what: String, replay: String) {
        *self.outcomes.entry("violations").or_default() += 1;
        if self.seen_keys.insert(key.to_string()) || self.violations.len() < 40 {
            self.violations.push(format!("{{\"key\":\"{key}\",\"what\":\"{}\",{replay}}}", jesc(&what)));
        }
    }
}

fn hist_meta(seed: u64, hi: usize, h: &History) -> String {
    let mut s = format!(
        "\"seed\":{seed},\"history\":{hi},\"page_size\":{},\"region_size\":{},\"cache_size\":{},\"ops\":[",
        h.cfg.page_size, h.cfg.region_size, h.cfg.cache_size
    );
    for (i, op) in h.ops.iter().enumerate() {
        if i > 0 {
            s.push(',');
        }
        write!(s, "\"{}\"", hop_summary(op)).unwrap();
    }
    s.push(']');
    s
}

fn latch_line(seg: &[VLatchEvent]) -> String {
    let mut s = String::from("G");
    for e in seg {
        match e {
            VLatchEvent::Enter { call, io_failed, closed } => {
                let k = match call {
                    VLatchCall::Len => 0,
                    VLatchCall::Read => 1,
                    VLatchCall::Write => 2,
                    VLatchCall::WriteBestEffort => 3,
                    VLatchCall::SetLen => 4,
                    VLatchCall::SyncData => 5,
                    VLatchCall::Close => 6,
                    VLatchCall::Drop => 7,
                };
                write!(s, " E{k}{}{}", *io_failed as u8, *closed as u8).unwrap();
            }
            VLatchEvent::Backend { op, ok } => write!(s, " B{op}{}", *ok as u8).unwrap(),
        }
    }
    s
}

/// Which wrapper call issued the n-th counted backend call (len/read/write/set_len/sync) of a run?
/// `first` is the number of counted calls made before the first segment of `segs`.
fn wrapper_of_backend_call(segs: &[&[VLatchEvent]], n: u64, first: u64) -> Option<VLatchCall> {
    let mut cnt = first;
    for seg in segs {
        let mut last: Option<VLatchCall> = None;
        for e in *seg {
            match e {
                VLatchEvent::Enter { call, .. } => last = Some(*call),
                VLatchEvent::Backend { op, .. } => {
                    if *op != Kind::Close as u8 {
                        if cnt == n {
                            return last;
                        }
                        cnt += 1;
                    }
                }
            }
        }
    }
    None
}

struct Base {
    events: Vec<Ev>,   // counted events (no closes), over all opens, in order
    apis: Vec<ApiRec>,
    hist: History,
    meta: String,
    /// S2 (fault-aware commit model): per counted event the protocol trace / segment it belongs to
    /// (trace tag, segment index in the trace, event index at which the segment starts); None = not modelled
    seg_of: Vec<Option<(String, usize, usize)>>,
    /// the T lines of this history (one per trace) with their metas
    traces: Vec<(String, String)>,
}

fn counted_events(r: &Runner) -> Vec<Ev> {
    let mut v = vec![];
    for b in r.old_backends.iter().chain(std::iter::once(&r.be)) {
        for e in &b.lock().events {
            if e.kind != Kind::Close {
                v.push(e.clone());
            }
        }
    }
    v
}

fn run_base(seed: u64, hi: usize, h: &History, out: &mut Out) -> Option<Base> {
    let be = MonBackend::new(vec![]);
    let mut r = Runner::new(h.cfg.clone(), be);
    hdr_log_start();
    r.run(h);
    let hdrs: BTreeMap<u64, Vec<u8>> = hdr_log_take().into_iter().collect();
    let meta = hist_meta(seed, hi, h);
    let mut bad = false;
    for a in &r.apis {
        match &a.res {
            ApiRes::Ok => {}
            ApiRes::Err(e) => {
                let benign = (a.name == "compact" || a.name == "check_integrity")
                    && (e.contains("TransactionInProgress") || e.contains("SavepointExists"));
                if !benign {
                    out.notes.push(format!("fault-free history {hi}: {} at hop {} returned Err({e})", a.name, a.hop));
                    bad = true;
                }
            }
            ApiRes::Panic(p) => {
                out.notes.push(format!("fault-free history {hi}: {} at hop {} panicked: {p}", a.name, a.hop));
                bad = true;
            }
        }
    }
    for m in &r.mismatches {
        out.notes.push(format!("fault-free history {hi}: {m}"));
        bad = true;
    }
    if bad {
        // a history that misbehaves without faults is not C08's business; it is reported, not used
        return None;
    }
    let mut b = Base { events: counted_events(&r), apis: r.apis.clone(), hist: h.clone(), meta, seg_of: vec![], traces: vec![] };
    build_protocol(&mut b, hi, &hdrs);
    Some(b)
}

/// S2, fault-aware commit model: the fault-free backend-call stream of the history as protocol-level segments
/// (one per history step; kind from the history descriptor), cut into traces at the points the protocol model
/// does not follow (creation, check_integrity). See ocaml/c08_driver.ml for the line format.
fn build_protocol(b: &mut Base, hi: usize, hdrs: &BTreeMap<u64, Vec<u8>>) {
    let n = b.events.len();
    b.seg_of = vec![None; n];
    // history step of every event
    let mut hop_of: Vec<u32> = Vec::with_capacity(n);
    let mut last = 0u32;
    for e in &b.events {
        if let Some(a) = b.apis.get(e.api as usize) {
            last = a.hop;
        }
        hop_of.push(last);
    }
    struct Seg {
        kind: String,
        from: usize,
        to: usize,
    }
    let mut segs: Vec<Seg> = vec![];
    let n_ops = b.hist.ops.len() as u32;
    let api_name = |e: &Ev| b.apis.get(e.api as usize).map_or("", |a| a.name);
    let mut i = 0usize;
    while i < n {
        let h = hop_of[i];
        let mut j = i;
        while j < n && hop_of[j] == h {
            j += 1;
        }
        if h == 0 {
            segs.push(Seg { kind: "create".into(), from: i, to: j });
        } else if h > n_ops {
            segs.push(Seg { kind: "close".into(), from: i, to: j });
        } else {
            match &b.hist.ops[h as usize - 1] {
                HOp::Write { durable, two_phase, quick_repair, sp, .. } => {
                    let committed = b.apis.iter().any(|a| a.hop == h && a.name == "commit" && a.res == ApiRes::Ok);
                    let durable = *durable || matches!(sp, Sp::Persistent | Sp::DeletePersistent);
                    let kind = if !committed {
                        "abort"
                    } else if !durable {
                        "nd"
                    } else if *two_phase || *quick_repair {
                        "txn2"
                    } else {
                        "txn1"
                    };
                    segs.push(Seg { kind: kind.into(), from: i, to: j });
                }
                HOp::ReadAll | HOp::HoldRead | HOp::ReleaseRead => segs.push(Seg { kind: "gap".into(), from: i, to: j }),
                HOp::Compact => segs.push(Seg { kind: "compact".into(), from: i, to: j }),
                HOp::CheckIntegrity => {
                    let ok = b.apis.iter().any(|a| a.hop == h && a.name == "check_integrity" && a.res == ApiRes::Ok);
                    segs.push(Seg { kind: if ok { "resync" } else { "gap" }.into(), from: i, to: j });
                }
                HOp::Reopen => {
                    // close (drops), open (create_with_backend), then reads
                    let mut k = i;
                    let mut a = k;
                    while k < j && matches!(api_name(&b.events[k]), "drop_reads" | "drop_database") {
                        k += 1;
                    }
                    if k > a {
                        segs.push(Seg { kind: "close".into(), from: a, to: k });
                    }
                    a = k;
                    while k < j && api_name(&b.events[k]) == "create_with_backend" {
                        k += 1;
                    }
                    if k > a {
                        // the primary named by the header on disk (a cleanly closed file: trusted 2PC primary)
                        let god = hdrs.range(..a as u64).next_back().map_or(0, |(_, h)| h[GOD_BYTE_OFFSET]);
                        segs.push(Seg { kind: format!("open_{}_1", god & 1), from: a, to: k });
                    }
                    if k < j {
                        segs.push(Seg { kind: "gap".into(), from: k, to: j });
                    }
                }
            }
        }
        i = j;
    }
    // traces: start after creation / after every check_integrity
    let mut len_at: Vec<u64> = Vec::with_capacity(n + 1); // file length before event i
    let mut cur = 0u64;
    for e in &b.events {
        len_at.push(cur);
        if e.kind == Kind::SetLen && e.ok {
            cur = e.off;
        }
    }
    len_at.push(cur);
    let mut tno = 0usize;
    let mut line: Option<(String, String, usize)> = None; // (tag, text, number of segments)
    let flush = |line: &mut Option<(String, String, usize)>, traces: &mut Vec<(String, String)>| {
        if let Some((tag, text, _)) = line.take() {
            traces.push((text, format!("{{\"scenario\":\"protocol-trace\",\"trace\":\"{tag}\"}}")));
        }
    };
    for sg in &segs {
        if sg.kind == "create" || sg.kind == "resync" {
            flush(&mut line, &mut b.traces);
            continue;
        }
        if line.is_none() {
            // the durable image the trace starts from: header and length at the last sync_data before it; what was
            // accepted since (the shrinking set_len a commit issues after its final flush) opens the first window
            let last_sync = (0..sg.from).rev().find(|&k| b.events[k].kind == Kind::Sync && b.events[k].ok).map_or(0, |k| k + 1);
            let Some((_, h)) = hdrs.range(..last_sync as u64).next_back() else { continue };
            if hdrs.range(last_sync as u64..sg.from as u64).next().is_some() {
                continue; // a header write is pending: the header in memory is not the durable one
            }
            let tag = format!("h{hi}t{tno}");
            tno += 1;
            let mut text = format!("T {tag} {} {}", rv_harness::hex(h), len_at[last_sync]);
            for k in last_sync..sg.from {
                let e = &b.events[k];
                if e.ok {
                    match e.kind {
                        Kind::Write => write!(text, " W{}:{}", e.off, e.len).unwrap(),
                        Kind::SetLen => write!(text, " L{}", e.off).unwrap(),
                        _ => {}
                    }
                }
            }
            line = Some((tag.clone(), text, 0));
        }
        let (tag, text, nseg) = line.as_mut().unwrap();
        write!(text, " G {}", sg.kind).unwrap();
        for k in sg.from..sg.to {
            let e = &b.events[k];
            match e.kind {
                Kind::Len | Kind::Read => text.push_str(" Q"),
                Kind::Write => {
                    if e.off == 0 && e.len as usize == DB_HEADER_LEN {
                        match hdrs.get(&(k as u64)) {
                            Some(h) => write!(text, " H{}", rv_harness::hex(h)).unwrap(),
                            None => write!(text, " W0:{}", e.len).unwrap(),
                        }
                    } else {
                        write!(text, " W{}:{}", e.off, e.len).unwrap();
                    }
                }
                Kind::SetLen => write!(text, " L{}", e.off).unwrap(),
                Kind::Sync => text.push_str(" S"),
                Kind::Close => {}
            }
            b.seg_of[k] = Some((tag.clone(), *nseg, sg.from));
        }
        text.push_str(" E");
        *nseg += 1;
    }
    flush(&mut line, &mut b.traces);
}

fn stratum(b: &Base, k: usize) -> String {
    let e = &b.events[k];
    let api = b.apis.get(e.api as usize);
    let name = api.map_or("none", |a| a.name);
    let shape = api
        .and_then(|a| if a.hop >= 1 { b.hist.ops.get(a.hop as usize - 1) } else { None })
        .map(|op| match op {
            HOp::Write { durable, two_phase, quick_repair, .. } => {
                format!("w{}{}{}", *durable as u8, *two_phase as u8, *quick_repair as u8)
            }
            HOp::Reopen => "reopen".into(),
            HOp::Compact => "compact".into(),
            HOp::CheckIntegrity => "integrity".into(),
            _ => "read".into(),
        })
        .unwrap_or_else(|| if e.api == u32::MAX { "none".into() } else { "open/close".into() });
    format!("{name}/{}/{shape}", e.kind.name())
}

fn crash_images(be: &MonBackend, rng: &mut Rng) -> Vec<(&'static str, Vec<u8>)> {
    let g = be.lock();
    let mut out = vec![];
    if g.pending.is_empty() {
        return out;
    }
    let apply = |img: &mut Vec<u8>, p: &Pending| match p {
        Pending::SetLen(n) => img.resize(*n as usize, 0),
        Pending::Write(off, data) => {
            let end = *off as usize + data.len();
            if end > img.len() {
                img.resize(end, 0);
            }
            img[*off as usize..end].copy_from_slice(data);
        }
    };
    // nothing that was issued after the last successful sync reached the medium
    out.push(("lose-all-unsynced", g.synced.clone()));
    // a random subset of the unsynced writes did (every set_len applied)
    let mut img = g.synced.clone();
    for p in &g.pending {
        if matches!(p, Pending::SetLen(_)) || rng.chance(1, 2) {
            apply(&mut img, p);
        }
    }
    out.push(("random-subset", img));
    // a torn last write: everything but only half of the last write
    let mut img = g.synced.clone();
    let n = g.pending.len();
    for (i, p) in g.pending.iter().enumerate() {
        if i + 1 == n {
            if let Pending::Write(off, data) = p {
                apply(&mut img, &Pending::Write(*off, data[..data.len() / 2].to_vec()));
                continue;
            }
        }
        apply(&mut img, p);
    }
    out.push(("torn-last-write", img));
    out
}

fn faulted_run(b: &Base, k: u64, once: bool, torn: bool, rng: &mut Rng, out: &mut Out) {
    let h = &b.hist;
    let fail = if once { Fail::Once(k) } else { Fail::From(k) };
    let mut torn_seed = 0u64;
    let be = MonBackend::new(vec![]);
    {
        let mut g = be.lock();
        g.fail = fail;
        g.track_pending = true;
        g.latch_log = true;
        if torn {
            torn_seed = rng.next_u64();
            g.torn_fail = Some(torn_seed);
        }
    }
    let mut r = Runner::new(h.cfg.clone(), be);
    r.lenient = true;
    r.use_latch_log = true;
    r.run(h);
    r.latch_segments.push(redb::verif_c08::latch_log_take());
    out.runs += 1;
    let replay = format!(
        "\"fail_index\":{k},\"mode\":\"{}\",\"torn_failed_write\":{torn},\"failed_op\":\"{}\",\"history\":{{{}}}",
        if once { "once" } else { "permanent" },
        b.events.get(k as usize).map_or("?".to_string(), |e| format!("{} off={} len={} during {}", e.kind.name(), e.off, e.len, stratum(b, k as usize))),
        b.meta
    );
    let events = counted_events(&r);
    // determinism: up to the failing call both runs issue the same calls
    let upto = (k as usize).min(events.len()).min(b.events.len());
    if let Some(i) = (0..upto).find(|&i| (events[i].kind, events[i].off, events[i].len) != (b.events[i].kind, b.events[i].off, b.events[i].len)) {
        out.notes.push(format!("faulted run diverges from the fault-free run before the fault (call {i} of {k}): {replay}"));
    }
    let Some(fe) = events.get(k as usize).cloned() else {
        *out.outcomes.entry("fault_not_reached").or_default() += 1;
        return;
    };
    if fe.ok {
        out.notes.push(format!("harness inconsistency: backend call {k} was reached but did not fail: {replay}"));
        return;
    }
    let segs: Vec<&[VLatchEvent]> = r.latch_segments.iter().map(|s| s.as_slice()).collect();
    let wrapper = wrapper_of_backend_call(&segs, k, 0);
    let best_effort = wrapper == Some(VLatchCall::WriteBestEffort);
    // the first failed call that was not best-effort writeback (in permanent mode it may come
    // after failed best-effort writes): per the latch model this is the call that latches
    let latched_at: Option<(usize, Ev)> = events
        .iter()
        .enumerate()
        .skip(k as usize)
        .filter(|(_, e)| !e.ok)
        .find(|(i, _)| wrapper_of_backend_call(&segs, *i as u64, 0) != Some(VLatchCall::WriteBestEffort))
        .map(|(i, e)| (i, e.clone()));
    let latched: Option<Ev> = latched_at.as_ref().map(|(_, e)| e.clone());
    *out.outcomes.entry(if best_effort { "failed_best_effort_write" } else { "failed_required_call" }).or_default() += 1;
    out.distinct.insert((fnv(&b.meta), k, once as u8));
    out.nontrivial += 1;

    // (a) no panic anywhere
    for a in &r.apis {
        if let ApiRes::Panic(p) = &a.res {
            out.violation(
                &format!("c08-panic-{}", a.name),
                format!("panic in {} (hop {}) after backend call {k} ({}) failed: {p}", a.name, a.hop, fe.kind.name()),
                replay.clone(),
            );
        }
    }
    // (b) the call in progress reports the failure (unless the failed call was best-effort writeback)
    let owner = r.apis.get(fe.api as usize).cloned();
    if let Some(le) = &latched {
        if let Some(a) = r.apis.get(le.api as usize) {
            if !a.name.starts_with("drop_") && a.res == ApiRes::Ok && le.api != fe.api {
                out.violation(
                    &format!("c08-false-success-{}", a.name),
                    format!(
                        "{} (hop {}) returned Ok although the required backend call ({} at {}+{}) it issued failed (first failure: call {k})",
                        a.name, a.hop, le.kind.name(), le.off, le.len
                    ),
                    replay.clone(),
                );
            }
        }
    }
    if let Some(a) = &owner {
        let returns_result = !a.name.starts_with("drop_");
        if returns_result && !best_effort && a.res == ApiRes::Ok {
            out.violation(
                &format!("c08-false-success-{}", a.name),
                format!(
                    "{} (hop {}) returned Ok although backend call {k} ({} at {}+{}) issued by it failed and was not best-effort writeback (wrapper call: {wrapper:?})",
                    a.name, a.hop, fe.kind.name(), fe.off, fe.len
                ),
                replay.clone(),
            );
        }
        if best_effort && once && a.res != ApiRes::Ok {
            *out.outcomes.entry("best_effort_failure_surfaced").or_default() += 1;
            out.notes.push(format!("a failed best-effort write made {} return {:?}: {replay}", a.name, a.res));
        }
    }
    // (c) later write attempts are refused until reopen
    if let Some(le) = &latched {
        let start = le.api as usize + 1;
        let next_open = r.open_apis.iter().copied().find(|&i| i >= start && r.apis.get(i).is_some_and(|a| a.res == ApiRes::Ok));
        let end = next_open.unwrap_or(r.apis.len());
        for a in &r.apis[start.min(end)..end] {
            if (a.name == "begin_write" || a.name == "commit" || a.name == "compact") && a.res == ApiRes::Ok {
                out.violation(
                    &format!("c08-write-after-failure-{}", a.name),
                    format!("{} (hop {}) succeeded after backend call {k} ({}) had failed and before any reopen", a.name, a.hop, fe.kind.name()),
                    replay.clone(),
                );
            }
        }
    }
    // (d) reads returned spec-correct data (or an error)
    for m in &r.mismatches {
        out.violation("c08-wrong-data", format!("after backend call {k} failed: {m}"), replay.clone());
    }
    // (e) reopening the surviving bytes yields an allowed commit point
    let ld = r.points.iter().rposition(|p| p.durable).unwrap_or(0);
    let allowed: Vec<Contents> = r.points[ld..].iter().map(|p| p.contents.clone()).chain(r.failed_commits.iter().map(|(_, c)| c.clone())).collect();
    let allowed_d: Vec<String> = allowed.iter().map(digest).collect();
    let mut imgs: Vec<(&'static str, Vec<u8>)> = vec![("as-dropped", r.be.image())];
    {
        // one sampled crash image of the surviving storage per run
        let mut ci = crash_images(&r.be, rng);
        if !ci.is_empty() {
            let i = rng.below(ci.len() as u64) as usize;
            imgs.push(ci.swap_remove(i));
        }
    }
    for (what, img) in imgs {
        *out.outcomes.entry("images_reopened").or_default() += 1;
        match reopen_and_read(&h.cfg, img, true) {
            Ok((c, _)) => {
                if !allowed.iter().any(|a| *a == c) {
                    out.violation(
                        &format!("c08-reopen-wrong-contents-{what}"),
                        format!(
                            "after backend call {k} ({}) failed and the database was dropped, the surviving storage ({what}) reopens with contents {} which are not a commit point >= the last acknowledged durable commit (allowed {allowed_d:?})",
                            fe.kind.name(),
                            digest(&c)
                        ),
                        replay.clone(),
                    );
                }
            }
            Err(e) => out.violation(
                &format!("c08-reopen-fails-{what}"),
                format!("after backend call {k} ({}) failed and the database was dropped, the surviving storage ({what}) does not reopen: {e}", fe.kind.name()),
                replay.clone(),
            ),
        }
    }
    // S2: the fault-aware commit model (extracted step_f / recovery_f) on the fault-free stream of this step with
    // the same failure index: predicted result class and cut (surviving durable image + accepted operations)
    match b.seg_of.get(k as usize).cloned().flatten() {
        None => *out.outcomes.entry("fmodel_not_modelled(create/check_integrity)").or_default() += 1,
        Some(_) if best_effort && !once => *out.outcomes.entry("fmodel_skipped(permanent best-effort)").or_default() += 1,
        Some((tag, si, from)) => {
            let pos = k as usize - from;
            let keep = if torn && fe.kind == Kind::Write { torn_seed % (fe.len + 1) } else { 0 };
            let res = match &owner {
                Some(a) if a.name.starts_with("drop_") => "none",
                Some(a) => match &a.res {
                    ApiRes::Ok => "ok",
                    ApiRes::Err(_) => "err",
                    ApiRes::Panic(_) => "panic",
                },
                None => "none",
            };
            // the surviving storage is the one the failure left iff nothing was accepted by a backend afterwards
            let untouched = latched_at.as_ref().is_some_and(|(li, _)| {
                !events.iter().skip(li + 1).any(|e| e.ok && matches!(e.kind, Kind::Write | Kind::SetLen | Kind::Sync))
            });
            let g = r.be.lock();
            let applicable = !best_effort && untouched && g.synced.len() >= DB_HEADER_LEN;
            let mut case = format!("F {tag} {si} {pos} {} {keep} {} {res}", !once as u8, best_effort as u8);
            if applicable {
                write!(case, " {} {}", rv_harness::hex(&g.synced[..DB_HEADER_LEN]), g.synced.len()).unwrap();
                for p in &g.pending {
                    match p {
                        Pending::Write(off, data) => write!(case, " W{off}:{}", data.len()).unwrap(),
                        Pending::SetLen(n) => write!(case, " L{n}").unwrap(),
                    }
                }
            } else {
                case.push_str(" ? ?");
            }
            drop(g);
            out.cases.push(case);
            out.impls.push(if applicable { format!("{res} hdr=ok len=ok sub=ok") } else { format!("{res} hdr=? len=? sub=?") });
            out.metas.push(format!("{{\"scenario\":\"fault-model\",{replay}}}"));
            *out.outcomes.entry(if applicable { "fmodel_lines_with_cut" } else { "fmodel_lines_result_only" }).or_default() += 1;
            let kind = b.traces.iter().find(|(t, _)| t.starts_with(&format!("T {tag} "))).map(|_| ()).map_or("?", |_| "");
            let _ = kind;
        }
    }
    // S2: the latch log of every CheckedBackend instance against the latch model
    for seg in &r.latch_segments {
        out.cases.push(latch_line(seg));
        out.impls.push("1".into());
        out.metas.push(format!("{{\"scenario\":\"latch-log\",{replay}}}"));
    }
    // S2: session model -- the recovery flag left in the file by the last open of the run
    let last_open = *r.open_apis.last().unwrap();
    if r.apis[last_open].res == ApiRes::Ok {
        let mut evs = String::new();
        let mut failure_in_last = false;
        for (i, a) in r.apis.iter().enumerate().skip(last_open) {
            if latched.as_ref().is_some_and(|le| le.api as usize == i) {
                evs.push('I');
                failure_in_last = true;
            }
            if a.name == "commit" || a.name == "compact" {
                match &a.res {
                    ApiRes::Ok => evs.push('C'),
                    // compact refuses to start while savepoints / readers exist: nothing was attempted
                    ApiRes::Err(e) if a.name == "compact" && !e.contains("Storage") => {}
                    _ => evs.push('c'),
                }
            }
        }
        evs.push('S');
        let img = r.be.image();
        let flag = img.get(GOD_BYTE_OFFSET).is_some_and(|b| b & RECOVERY_REQUIRED != 0);
        // the very last sync of a clean shutdown failing leaves a header that is written but not synced
        let last_counted = r.be.lock().events.iter().rposition(|e| e.kind != Kind::Close);
        let fault_is_final_sync = failure_in_last && {
            let g = r.be.lock();
            last_counted.is_some_and(|i| g.events[i].kind == Kind::Sync && !g.events[i].ok)
        };
        // a torn failed header write may have stored the god byte although the write was refused
        let torn_header = torn && events.iter().any(|e| !e.ok && e.kind == Kind::Write && e.off == 0);
        // check_integrity() clears the flag on disk inside its repair (do_repair: clear_recovery_required) and
        // sets it again at its end (begin_writable): a failure in between legitimately leaves a file whose flag
        // is clear -- it holds the repaired, consistent state; what it reopens to is judged by the reopen oracle above
        let in_integrity_window = latched.as_ref().is_some_and(|le| r.apis.get(le.api as usize).is_some_and(|a| a.name == "check_integrity"));
        if !fault_is_final_sync && !torn_header && !in_integrity_window {
            out.cases.push(format!("D {evs}"));
            out.impls.push(format!("{}", flag as u8));
            out.metas.push(format!("{{\"scenario\":\"recovery-flag\",{replay}}}"));
        }
    }
}

fn fnv(s: &str) -> u64 {
    let mut h: u64 = 0xcbf29ce484222325;
    for b in s.bytes() {
        h ^= u64::from(b);
        h = h.wrapping_mul(0x100000001b3);
    }
    h
}

fn new_out() -> Out {
    Out {
        cases: vec![],
        impls: vec![],
        metas: vec![],
        violations: vec![],
        seen_keys: BTreeSet::new(),
        runs: 0,
        distinct: BTreeSet::new(),
        nontrivial: 0,
        strata: BTreeMap::new(),
        outcomes: BTreeMap::new(),
        notes: vec![],
    }
}

/// fault-free run of one history and the fault indices to try; deterministic in (seed, hi)
fn plan_history(seed: u64, hi: usize, h: &History, rng: &mut Rng, per_stratum: usize, exhaustive: bool, out: &mut Out) -> Option<(Base, Vec<usize>)> {
    let b = run_base(seed, hi, h, out)?;
    for (t, m) in &b.traces {
        out.cases.push(t.clone());
        out.impls.push("T ok".into());
        out.metas.push(m.clone());
    }
    let total = b.events.len();
    // the property speaks about histories after a completed creation: faults while the
    // database is being created are C20's failing-open scenarios, not C08's
    let first = b.events.iter().position(|e| e.api != 0).unwrap_or(total);
    if first >= total {
        return None;
    }
    let mut ks: Vec<usize> = vec![];
    if exhaustive {
        ks.extend(first..total);
        // quick tier: every index of one contiguous window (a whole commit or two) instead of all
        if !tier_is_thorough() && ks.len() > 160 {
            let start = rng.below((ks.len() - 160) as u64) as usize;
            ks = ks[start..start + 160].to_vec();
        }
    } else {
        let mut by: BTreeMap<String, Vec<usize>> = BTreeMap::new();
        for k in first..total {
            by.entry(stratum(&b, k)).or_default().push(k);
        }
        for (_, v) in by {
            for _ in 0..per_stratum {
                ks.push(*rng.pick(&v));
            }
        }
        for _ in 0..4 {
            ks.push(rng.range(first as u64, total as u64 - 1) as usize);
        }
        ks.sort_unstable();
        ks.dedup();
    }
    Some((b, ks))
}

fn do_chunk(b: &Base, ks: &[usize], exhaustive: bool, mut rng: Rng) -> Out {
    let mut out = new_out();
    for &k in ks {
        *out.strata.entry(stratum(b, k)).or_default() += 1;
        let modes: &[bool] = if exhaustive || rng.chance(1, 3) {
            &[true, false]
        } else if rng.chance(1, 2) {
            &[true]
        } else {
            &[false]
        };
        for &once in modes {
            let torn = b.events[k].kind == Kind::Write && rng.chance(1, 3);
            faulted_run(b, k as u64, once, torn, &mut rng, &mut out);
        }
    }
    out
}

fn merge(out: &mut Out, o: Out) {
    out.cases.extend(o.cases);
    out.impls.extend(o.impls);
    out.metas.extend(o.metas);
    for v in o.violations {
        let key = v.split('"').nth(3).unwrap_or("").to_string();
        if out.seen_keys.insert(key) || out.violations.len() < 40 {
            out.violations.push(v);
        }
    }
    out.runs += o.runs;
    out.distinct.extend(o.distinct);
    out.nontrivial += o.nontrivial;
    for (k, v) in o.strata {
        *out.strata.entry(k).or_default() += v;
    }
    for (k, v) in o.outcomes {
        *out.outcomes.entry(k).or_default() += v;
    }
    out.notes.extend(o.notes);
}

fn main() {
    if std::env::var("C08_SHOW_PANICS").is_err() {
        silence_panics();
    }
    let seed = seed_from_env();
    let thorough = tier_is_thorough();
    let mut rng = Rng::new(seed);
    // (number of histories, ops per history, faults per stratum, exhaustive?)
    // "search": the directed search after a model/implementation difference (about 4x quick)
    let search = std::env::args().nth(1).as_deref() == Some("search");
    let plans: Vec<(usize, usize, usize, bool)> = if search {
        vec![(4, 4, 0, true), (30, 24, 2, false)]
    } else if thorough {
        vec![(12, 5, 0, true), (80, 30, 2, false)]
    } else {
        vec![(2, 3, 0, true), (12, 18, 1, false)]
    };
    let nthreads = std::thread::available_parallelism().map_or(4, |n| n.get()).min(14);
    // phase 1: fault-free runs and fault plans (parallel over histories)
    let mut hists: Vec<(usize, History, Rng, usize, bool)> = vec![];
    for (n_hist, n_ops, per_stratum, exhaustive) in plans {
        for _ in 0..n_hist {
            let hi = hists.len();
            let mut hr = rng.fork(5000 + hi as u64);
            let h = gen_history(&mut hr, n_ops, hi % 3 == 0);
            let jr = rng.fork(9000 + hi as u64);
            hists.push((hi, h, jr, per_stratum, exhaustive));
        }
    }
    let hi = hists.len();
    let next = std::sync::atomic::AtomicUsize::new(0);
    let planned: std::sync::Mutex<Vec<(usize, Out, Option<(Base, Vec<usize>)>)>> = std::sync::Mutex::new(vec![]);
    std::thread::scope(|s| {
        for _ in 0..nthreads {
            s.spawn(|| loop {
                let i = next.fetch_add(1, std::sync::atomic::Ordering::SeqCst);
                if i >= hists.len() {
                    break;
                }
                let (hi, h, jr, ps, ex) = &hists[i];
                let mut o = new_out();
                let mut r = jr.clone();
                let p = match rv_harness::catch(|| plan_history(seed, *hi, h, &mut r, *ps, *ex, &mut o)) {
                    Ok(p) => p,
                    Err(p) => {
                        o.notes.push(format!("harness worker panicked planning history {hi}: {p}"));
                        None
                    }
                };
                planned.lock().unwrap_or_else(|e| e.into_inner()).push((*hi, o, p));
            });
        }
    });
    let mut planned = planned.into_inner().unwrap();
    planned.sort_by_key(|(i, _, _)| *i);
    let mut out = new_out();
    let mut bases: Vec<(usize, Base, bool)> = vec![];
    let mut chunks: Vec<(usize, Vec<usize>, Rng)> = vec![]; // (index into bases, ks, rng)
    for (hi, o, p) in planned {
        merge(&mut out, o);
        if let Some((b, ks)) = p {
            let ex = hists[hi].4;
            let bi = bases.len();
            bases.push((hi, b, ex));
            for (ci, c) in ks.chunks(24).enumerate() {
                let mut base_rng = hists[hi].2.clone();
                let cr = base_rng.fork(77 + ci as u64);
                chunks.push((bi, c.to_vec(), cr));
            }
        }
    }
    // phase 2: faulted runs (parallel over chunks of fault indices)
    let next = std::sync::atomic::AtomicUsize::new(0);
    let results: std::sync::Mutex<Vec<(usize, Out)>> = std::sync::Mutex::new(vec![]);
    std::thread::scope(|s| {
        for _ in 0..nthreads {
            s.spawn(|| loop {
                let i = next.fetch_add(1, std::sync::atomic::Ordering::SeqCst);
                if i >= chunks.len() {
                    break;
                }
                let (bi, ks, cr) = &chunks[i];
                let (_, b, ex) = &bases[*bi];
                let o = match rv_harness::catch(|| do_chunk(b, ks, *ex, cr.clone())) {
                    Ok(o) => o,
                    Err(p) => {
                        let mut o = new_out();
                        o.notes.push(format!("harness worker panicked on history {} fault indices {:?}: {p}", bases[*bi].0, ks));
                        o
                    }
                };
                results.lock().unwrap_or_else(|e| e.into_inner()).push((i, o));
            });
        }
    });
    let mut results = results.into_inner().unwrap();
    results.sort_by_key(|(i, _)| *i);
    for (_, o) in results {
        merge(&mut out, o);
    }

    let mut f = std::fs::File::create("cases.txt").unwrap();
    for l in &out.cases {
        writeln!(f, "{l}").unwrap();
    }
    let mut f = std::fs::File::create("impl.txt").unwrap();
    for l in &out.impls {
        writeln!(f, "{l}").unwrap();
    }
    let mut f = std::fs::File::create("meta.txt").unwrap();
    for l in &out.metas {
        writeln!(f, "{}", l.replace('\n', " ")).unwrap();
    }
    let mut f = std::fs::File::create("violations.txt").unwrap();
    for l in &out.violations {
        writeln!(f, "{l}").unwrap();
    }
    let mut f = std::fs::File::create("notes.txt").unwrap();
    for l in &out.notes {
        writeln!(f, "{l}").unwrap();
    }
    let mut f = std::fs::File::create("stats.txt").unwrap();
    writeln!(f, "histories={hi} faulted_runs={} distinct_nontrivial={} model_lines={}", out.runs, out.distinct.len(), out.cases.len()).unwrap();
    writeln!(f, "outcomes={:?}", out.outcomes).unwrap();
    let mut kinds: BTreeMap<String, u64> = BTreeMap::new();
    let mut apis: BTreeMap<String, u64> = BTreeMap::new();
    let mut shapes: BTreeMap<String, u64> = BTreeMap::new();
    for (s, n) in &out.strata {
        let p: Vec<&str> = s.split('/').collect();
        *apis.entry(p[0].to_string()).or_default() += n;
        *kinds.entry(p[1].to_string()).or_default() += n;
        *shapes.entry(p[2..].join("/")).or_default() += n;
    }
    writeln!(f, "failed_call_kinds={kinds:?}").unwrap();
    writeln!(f, "api_call_in_progress={apis:?}").unwrap();
    writeln!(f, "commit_shapes(w<durable><2pc><quick_repair>)={shapes:?}").unwrap();
    writeln!(f, "strata={}", out.strata.len()).unwrap();
    println!(
        "histories={hi} runs={} distinct_nontrivial={} violations={} notes={}",
        out.runs,
        out.distinct.len(),
        out.violations.len(),
        out.notes.len()
    );
}
