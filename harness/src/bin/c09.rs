//! C09 harness: runs generated multimap programs against the real crate.
//! usage: c09 <n_programs> [big]
//! writes (cwd): cases.txt (op log, one op per line, see ocaml/c09_driver.ml), impl_out.txt (result of
//! every op), impl_rep.txt (inline/subtree state + stored count of the touched key after mutating ops,
//! observed through MultimapTable::verif_collection_info), impl_rep2.txt (the hook's whole tuple for the touched key:
//! tag, stored count, subtree root is a LEAF (L) or BRANCH (B), byte length of the inline leaf / of the root leaf --
//! compared with the extracted two-level model), stats.json (input distribution, markers).
use redb::{
    Database, Durability, MultimapTableDefinition, ReadableDatabase, ReadableMultimapTable, ReadableTableMetadata,
    StorageBackend,
};
use rv_harness::{Rng, catch, hex, seed_from_env, silence_panics};
use std::collections::{BTreeMap, BTreeSet};
use std::fmt::Write as _;
use std::io;
use std::ops::Bound;
use std::sync::{Arc, Mutex};

// ------------------------------------------------------------------ a plain shared in-memory backend
#[derive(Clone, Debug)]
struct Mem(Arc<Mutex<Vec<u8>>>);
impl StorageBackend for Mem {
    fn len(&self) -> io::Result<u64> {
        Ok(self.0.lock().unwrap().len() as u64)
    }
    fn read(&self, offset: u64, out: &mut [u8]) -> io::Result<()> {
        let g = self.0.lock().unwrap();
        let o = offset as usize;
        if o + out.len() > g.len() {
            return Err(io::Error::new(io::ErrorKind::InvalidInput, "read out of range"));
        }
        out.copy_from_slice(&g[o..o + out.len()]);
        Ok(())
    }
    fn set_len(&self, len: u64) -> io::Result<()> {
        self.0.lock().unwrap().resize(len as usize, 0);
        Ok(())
    }
    fn sync_data(&self) -> io::Result<()> {
        Ok(())
    }
    fn write(&self, offset: u64, data: &[u8]) -> io::Result<()> {
        let mut g = self.0.lock().unwrap();
        let o = offset as usize;
        if o + data.len() > g.len() {
            return Err(io::Error::new(io::ErrorKind::InvalidInput, "write out of range"));
        }
        g[o..o + data.len()].copy_from_slice(data);
        Ok(())
    }
}

// ------------------------------------------------------------------ values
#[derive(Clone, Debug, PartialEq, Eq, PartialOrd, Ord)]
enum Val {
    B(Vec<u8>),
    U(u64),
}
impl Val {
    fn s(&self) -> String {
        match self {
            Val::B(b) => format!("b:{}", hex(b)),
            Val::U(u) => format!("u:{u:x}"),
        }
    }
    fn bytes(&self) -> &[u8] {
        match self {
            Val::B(b) => b,
            Val::U(_) => panic!("not bytes"),
        }
    }
    fn u(&self) -> u64 {
        match self {
            Val::U(u) => *u,
            Val::B(_) => panic!("not u64"),
        }
    }
    fn enc_len(&self) -> usize {
        match self {
            Val::B(b) => b.len(),
            Val::U(_) => 8,
        }
    }
}

#[derive(Clone, Debug)]
enum Bd {
    U,
    I(Val),
    E(Val),
}
impl Bd {
    fn s(&self) -> String {
        match self {
            Bd::U => "u".into(),
            Bd::I(v) => format!("i/{}", v.s()),
            Bd::E(v) => format!("e/{}", v.s()),
        }
    }
}

fn vals_s(l: &[Val]) -> String {
    l.iter().map(|v| v.s()).collect::<Vec<_>>().join(",")
}
fn entry_s(k: &Val, vs: &[Val], n: u64) -> String {
    format!("{}={:x}:[{}]", k.s(), n, vals_s(vs))
}

// ------------------------------------------------------------------ op log
#[derive(Default)]
struct Log {
    cases: String,
    out: String,
    rep: String,
    rep2: String,
    lines: u64,
}
impl Log {
    fn put(&mut self, case: &str, out: &str, rep: &str) {
        self.cases.push_str(case);
        self.cases.push('\n');
        self.out.push_str(out);
        self.out.push('\n');
        // "<tag count>|<tag count root-kind root-leaf-bytes>": the first part goes to impl_rep.txt (compared with the
        // representation model), the full tuple of verif_collection_info to impl_rep2.txt (compared with the two-level model)
        let (a, b) = rep.split_once('|').unwrap_or((rep, rep));
        self.rep.push_str(a);
        self.rep.push('\n');
        self.rep2.push_str(b);
        self.rep2.push('\n');
        self.lines += 1;
    }
}

#[derive(Default)]
struct Stats {
    programs: u64,
    ops: BTreeMap<String, u64>,
    inline_to_subtree: u64,
    subtree_to_inline: u64,
    immediate_subtree: u64,
    subtree_removed_with_last_value: u64,
    remove_all_subtree: u64,
    keys_crossed_both_ways: u64,
    max_values_per_key: u64,
    values_per_key_hist: BTreeMap<String, u64>,
    page_sizes: BTreeMap<String, u64>,
    types: BTreeMap<String, u64>,
    value_size_classes: BTreeMap<String, u64>,
    commits: u64,
    aborts: u64,
    reopens: u64,
    errors: u64,
    nontrivial_programs: BTreeSet<u64>,
    leaf_root_but_too_big: u64,
    branch_root_after_remove: u64,
}
fn bump(m: &mut BTreeMap<String, u64>, k: &str) {
    *m.entry(k.to_string()).or_insert(0) += 1;
}
fn hist_bucket(n: u64) -> &'static str {
    match n {
        0 => "0",
        1 => "1",
        2..=4 => "2-4",
        5..=16 => "5-16",
        17..=64 => "17-64",
        65..=256 => "65-256",
        257..=1024 => "257-1024",
        1025..=4096 => "1025-4096",
        _ => ">4096",
    }
}

// ------------------------------------------------------------------ program description
#[derive(Clone, Copy, Debug, PartialEq)]
enum Kind {
    Mixed,
    Oscillate,
    Large,
}

struct Prog {
    id: u64,
    kt: char, // b u s
    vt: char, // b u
    ps: usize,
    kind: Kind,
    rng: Rng,
    big_n: u64,
}

fn gen_key(r: &mut Rng, kt: char, pool: &mut Vec<Val>) -> Val {
    if !pool.is_empty() && r.chance(4, 5) {
        return r.pick(pool).clone();
    }
    let v = match kt {
        'u' => Val::U(match r.below(4) {
            0 => r.below(8),
            1 => u64::MAX - r.below(3),
            2 => 1u64 << r.below(64),
            _ => r.next_u64(),
        }),
        's' => {
            let alphabet: [&str; 9] = ["a", "b", "ab", "", "z", "\u{e9}", "\u{4e2d}", "A", "aa"];
            let n = r.below(4);
            let mut s = String::new();
            for _ in 0..n {
                s.push_str(*r.pick(&alphabet[..]));
            }
            Val::B(s.into_bytes())
        }
        _ => {
            let n = *r.pick(&[0usize, 1, 1, 2, 3, 5, 9, 40]);
            Val::B((0..n).map(|_| *r.pick(&[0u8, 1, 0x7f, 0x80, 0xff, 0x61])).collect())
        }
    };
    if pool.len() < 8 && !pool.contains(&v) {
        pool.push(v.clone());
    }
    v
}

fn gen_bytes_val(r: &mut Rng, len: usize) -> Val {
    // short random prefix + filler, so that values of equal length still differ and share prefixes
    let mut b: Vec<u8> = Vec::with_capacity(len);
    for i in 0..len {
        if i < 3 {
            b.push(*r.pick(&[0u8, 1, 2, 0x7f, 0x80, 0xff]));
        } else {
            b.push((r.next_u64() % 7) as u8);
        }
    }
    Val::B(b)
}

fn gen_val(r: &mut Rng, vt: char, ps: usize, class: &mut &'static str) -> Val {
    if vt == 'u' {
        *class = "u64";
        return Val::U(match r.below(5) {
            0 => r.below(6),
            1 => r.below(64),
            2 => u64::MAX - r.below(4),
            3 => (1u64 << r.below(64)).wrapping_add(r.below(3)),
            _ => r.next_u64(),
        });
    }
    let half = ps / 2;
    let (c, len) = match r.below(20) {
        0 => ("empty", 0),
        1..=9 => ("small", r.range(1, 12) as usize),
        10..=13 => ("medium", r.range(13, (ps / 8) as u64) as usize),
        14..=15 => ("quarter", r.range((ps / 8) as u64, (half - 16) as u64) as usize),
        16..=17 => ("near-half", r.range((half - 12) as u64, (half + 4) as u64) as usize),
        18 => ("over-half", r.range((half + 1) as u64, (ps - 1) as u64) as usize),
        _ => ("over-page", r.range(ps as u64, (ps * 3) as u64) as usize),
    };
    *class = c;
    gen_bytes_val(r, len)
}

// required bytes of an inline leaf holding `n` values of total length `bytes` (RawLeafBuilder::required_bytes
// with value width Some(0)); used only to steer the generator towards the threshold
fn inline_req(vt: char, n: usize, bytes: usize) -> usize {
    4 + if vt == 'u' { 0 } else { 4 * n } + bytes
}

macro_rules! gen_runner {
    ($fname:ident, $K:ty, $V:ty, $kown:path, $kbr:path, $vown:path, $vbr:path, $kb:expr, $vb:expr) => {
        fn $fname(p: &mut Prog, log: &mut Log, st: &mut Stats) {
            const DEF: MultimapTableDefinition<$K, $V> = MultimapTableDefinition::new("mm");
            let kb = $kb;
            let vb = $vb;
            let mem = Mem(Arc::new(Mutex::new(vec![])));
            let open = |mem: &Mem, ps: usize| -> Database {
                let mut b = Database::builder();
                b.verif_set_page_size(ps);
                b.verif_set_region_size((ps as u64) * 2048);
                b.set_cache_size(4 << 20);
                b.create_with_backend(mem.clone()).expect("create db")
            };
            let mut db = Some(open(&mem, p.ps));
            log.put(&format!("P {} {} {} {}", p.id, p.kt, p.vt, p.ps), "P", "P");
            // generator-side shadow, used only to steer the choice of keys/values
            let mut shadow: BTreeMap<Val, BTreeSet<Val>> = BTreeMap::new();
            let mut committed_shadow = shadow.clone();
            let mut key_pool: Vec<Val> = vec![];
            // per key: bitmask 1 = went inline->subtree, 2 = went subtree->inline
            let mut crossed: BTreeMap<Val, u8> = BTreeMap::new();
            let segments = match p.kind {
                Kind::Mixed => p.rng.range(2, 5),
                Kind::Oscillate => p.rng.range(2, 3),
                Kind::Large => 3,
            };
            let mut large_phase = 0u32;
            for seg in 0..segments {
                let txn = db.as_ref().unwrap().begin_write().expect("begin_write");
                let mut txn = txn;
                if p.rng.chance(1, 2) {
                    let _ = txn.set_durability(Durability::None);
                }
                {
                    let mut t = txn.open_multimap_table(DEF).expect("open_multimap_table");
                    let nops = match p.kind {
                        Kind::Mixed => p.rng.range(10, 60),
                        Kind::Oscillate => p.rng.range(40, 120),
                        Kind::Large => {
                            large_phase += 1;
                            if large_phase == 1 { p.big_n } else { p.big_n + p.big_n / 2 }
                        }
                    };
                    let osc_key = gen_key(&mut p.rng, p.kt, &mut key_pool);
                    for opi in 0..nops {
                        // ---------------- choose an op
                        let choice = match p.kind {
                            Kind::Mixed => p.rng.below(100),
                            Kind::Oscillate => {
                                // mostly inserts/removes on one key, steered to the threshold
                                match p.rng.below(10) { 0 => 60 + p.rng.below(40), _ => p.rng.below(60) }
                            }
                            Kind::Large => {
                                if large_phase == 1 { 0 } // inserts
                                else if opi % 97 == 96 { 60 + p.rng.below(40) }
                                else if large_phase == 2 { if p.rng.chance(4, 5) { 40 } else { 0 } } // mostly removes
                                else { 40 }
                            }
                        };
                        let key = match p.kind {
                            Kind::Mixed => gen_key(&mut p.rng, p.kt, &mut key_pool),
                            _ => if p.rng.chance(19, 20) { osc_key.clone() } else { gen_key(&mut p.rng, p.kt, &mut key_pool) },
                        };
                        let cur = shadow.get(&key).cloned().unwrap_or_default();
                        let ko = $kown(&key);
                        let before = catch(|| t.verif_collection_info(&$kbr(&ko))).ok().and_then(|r| r.ok()).flatten();
                        let mut touched = false;
                        let mut line_case;
                        let mut line_out;
                        if choice < 40 {
                            // ---------------- insert
                            let mut class = "";
                            let v = if !cur.is_empty() && p.rng.chance(1, 8) {
                                cur.iter().nth(p.rng.below(cur.len() as u64) as usize).unwrap().clone() // duplicate
                            } else if p.kind == Kind::Oscillate && p.vt != 'u' {
                                // aim the inline size at the half-page threshold
                                let bytes: usize = cur.iter().map(|v| v.enc_len()).sum();
                                let need = inline_req(p.vt, cur.len() + 1, bytes);
                                let half = p.ps / 2;
                                if need < half && half - need < 200 && p.rng.chance(3, 4) {
                                    class = "threshold";
                                    let d = *p.rng.pick(&[-2i64, -1, 0, 1, 2, -1, 0]);
                                    let l = ((half - need) as i64 - 1 + d).max(0) as usize;
                                    gen_bytes_val(&mut p.rng, l)
                                } else {
                                    class = "fill";
                                    { let l = p.rng.range(8, 40) as usize; gen_bytes_val(&mut p.rng, l) }
                                }
                            } else if p.kind == Kind::Large {
                                class = "large";
                                if p.vt == 'u' { Val::U(p.rng.next_u64() >> p.rng.below(3)) } else { gen_bytes_val(&mut p.rng, 6 + (opi % 5) as usize) }
                            } else {
                                gen_val(&mut p.rng, p.vt, p.ps, &mut class)
                            };
                            bump(&mut st.value_size_classes, class);
                            bump(&mut st.ops, "insert");
                            line_case = format!("i {} {}", key.s(), v.s());
                            let vo = $vown(&v);
                            line_out = match catch(|| t.insert(&$kbr(&ko), &$vbr(&vo))) {
                                Ok(Ok(b)) => { shadow.entry(key.clone()).or_default().insert(v.clone()); if b { "t".into() } else { "f".to_string() } }
                                Ok(Err(e)) => format!("ERR:{e}"),
                                Err(m) => format!("PANIC:{m}"),
                            };
                            touched = true;
                        } else if choice < 60 {
                            // ---------------- remove
                            let v = if !cur.is_empty() && p.rng.chance(5, 6) {
                                cur.iter().nth(p.rng.below(cur.len() as u64) as usize).unwrap().clone()
                            } else {
                                let mut c = "";
                                gen_val(&mut p.rng, p.vt, p.ps, &mut c)
                            };
                            bump(&mut st.ops, "remove");
                            let vo = $vown(&v);
                            let res = catch(|| t.remove(&$kbr(&ko), &$vbr(&vo)));
                            let after = catch(|| t.verif_collection_info(&$kbr(&ko))).ok().and_then(|r| r.ok()).flatten();
                            // the observation the model needs: was the subtree's new root a LEAF page?
                            let leaf = match (before, after, &res) {
                                (Some((true, ..)), Some((false, ..)), Ok(Ok(true))) => true,
                                (Some((true, ..)), Some((true, _, is_leaf, _)), Ok(Ok(true))) => is_leaf,
                                _ => false,
                            };
                            if let (Some((true, ..)), Some((true, _, is_leaf, len)), Ok(Ok(true))) = (before, after, &res) {
                                if is_leaf && len >= p.ps / 2 { st.leaf_root_but_too_big += 1; }
                                if !is_leaf { st.branch_root_after_remove += 1; }
                            }
                            line_case = format!("r {} {} {}", key.s(), v.s(), if leaf { 1 } else { 0 });
                            line_out = match res {
                                Ok(Ok(b)) => { if b { if let Some(s) = shadow.get_mut(&key) { s.remove(&v); if s.is_empty() { shadow.remove(&key); } } "t".into() } else { "f".to_string() } }
                                Ok(Err(e)) => format!("ERR:{e}"),
                                Err(m) => format!("PANIC:{m}"),
                            };
                            touched = true;
                        } else if choice < 66 {
                            // ---------------- remove_all, iterator consumed partially from both ends
                            bump(&mut st.ops, "remove_all");
                            if let Some((true, ..)) = before { st.remove_all_subtree += 1; }
                            let rev = p.rng.chance(1, 3);
                            let r = catch(|| -> Result<(u64, u64, u64, Vec<Val>, Vec<Val>), redb::StorageError> {
                                let mut it = t.remove_all(&$kbr(&ko))?;
                                let n = it.len();
                                let (nf, nb) = pick_consumption(&mut p.rng, n);
                                let (mut f, mut b) = (vec![], vec![]);
                                for _ in 0..nf {
                                    match if rev { it.next_back() } else { it.next() } { Some(g) => f.push(vb(g?.value())), None => break }
                                }
                                for _ in 0..nb {
                                    match if rev { it.next() } else { it.next_back() } { Some(g) => b.push(vb(g?.value())), None => break }
                                }
                                Ok((n, nf, nb, f, b))
                            });
                            match r {
                                Ok(Ok((n, nf, nb, f, b))) => {
                                    shadow.remove(&key);
                                    line_case = format!("ra {} {} {} {}", key.s(), rev as u8, nf, nb);
                                    line_out = format!("n={:x} front=[{}] back=[{}]", n, vals_s(&f), vals_s(&b));
                                }
                                Ok(Err(e)) => { line_case = format!("ra {} 0 0 0", key.s()); line_out = format!("ERR:{e}"); }
                                Err(m) => { line_case = format!("ra {} 0 0 0", key.s()); line_out = format!("PANIC:{m}"); }
                            }
                            touched = true;
                        } else if choice < 80 {
                            // ---------------- get
                            bump(&mut st.ops, "get");
                            let rev = p.rng.chance(1, 3);
                            let r = catch(|| -> Result<(u64, u64, u64, Vec<Val>, Vec<Val>), redb::StorageError> {
                                let mut it = t.get(&$kbr(&ko))?;
                                let n = it.len();
                                let (nf, nb) = pick_consumption(&mut p.rng, n);
                                let (mut f, mut b) = (vec![], vec![]);
                                for _ in 0..nf {
                                    match if rev { it.next_back() } else { it.next() } { Some(g) => f.push(vb(g?.value())), None => break }
                                }
                                for _ in 0..nb {
                                    match if rev { it.next() } else { it.next_back() } { Some(g) => b.push(vb(g?.value())), None => break }
                                }
                                Ok((n, nf, nb, f, b))
                            });
                            match r {
                                Ok(Ok((n, nf, nb, f, b))) => {
                                    line_case = format!("g {} {} {} {}", key.s(), rev as u8, nf, nb);
                                    line_out = format!("n={:x} front=[{}] back=[{}]", n, vals_s(&f), vals_s(&b));
                                }
                                Ok(Err(e)) => { line_case = format!("g {} 0 0 0", key.s()); line_out = format!("ERR:{e}"); }
                                Err(m) => { line_case = format!("g {} 0 0 0", key.s()); line_out = format!("PANIC:{m}"); }
                            }
                        } else if choice < 92 {
                            // ---------------- range (either direction, partially consumed from both ends)
                            bump(&mut st.ops, "range");
                            let mut mkb = |r: &mut Rng, pool: &mut Vec<Val>| match r.below(5) {
                                0 | 1 => Bd::U,
                                2 | 3 => Bd::I(gen_key(r, p.kt, pool)),
                                _ => Bd::E(gen_key(r, p.kt, pool)),
                            };
                            let mut lo = mkb(&mut p.rng, &mut key_pool);
                            let mut hi = mkb(&mut p.rng, &mut key_pool);
                            // keep lo <= hi (an inverted range is outside this property's scope)
                            let kv = |b: &Bd| match b { Bd::U => None, Bd::I(v) | Bd::E(v) => Some(v.clone()) };
                            if let (Some(a), Some(b)) = (kv(&lo), kv(&hi)) {
                                let gt = match (&a, &b) {
                                    (Val::U(x), Val::U(y)) => x > y,
                                    (Val::B(x), Val::B(y)) => x > y,
                                    _ => false,
                                };
                                if gt { std::mem::swap(&mut lo, &mut hi); }
                            }
                            let rev = p.rng.chance(1, 2);
                            let tl = t.len().unwrap_or(0);
                            let (nf, nb) = pick_consumption(&mut p.rng, tl);
                            let r = catch(|| -> Result<(Vec<String>, Vec<String>), redb::StorageError> {
                                let lo_k = kv(&lo);
                                let hi_k = kv(&hi);
                                let lo_o = lo_k.as_ref().map(|v| $kown(v));
                                let hi_o = hi_k.as_ref().map(|v| $kown(v));
                                let lb = match (&lo, lo_o.as_ref()) { (Bd::I(_), Some(c)) => Bound::Included($kbr(c)), (Bd::E(_), Some(c)) => Bound::Excluded($kbr(c)), _ => Bound::Unbounded };
                                let hb = match (&hi, hi_o.as_ref()) { (Bd::I(_), Some(c)) => Bound::Included($kbr(c)), (Bd::E(_), Some(c)) => Bound::Excluded($kbr(c)), _ => Bound::Unbounded };
                                let mut it = t.range((lb, hb))?;
                                let (mut f, mut b) = (vec![], vec![]);
                                let mut item = |e: (redb::AccessGuard<'_, $K>, redb::MultimapValue<'_, $V>)| -> Result<String, redb::StorageError> {
                                    let (k, vs) = e;
                                    let n = vs.len();
                                    let mut l = vec![];
                                    for v in vs { l.push(vb(v?.value())); }
                                    Ok(entry_s(&kb(k.value()), &l, n))
                                };
                                for _ in 0..nf {
                                    match if rev { it.next_back() } else { it.next() } { Some(e) => f.push(item(e?)?), None => break }
                                }
                                for _ in 0..nb {
                                    match if rev { it.next() } else { it.next_back() } { Some(e) => b.push(item(e?)?), None => break }
                                }
                                Ok((f, b))
                            });
                            line_case = format!("rg {} {} {} {} {}", lo.s(), hi.s(), rev as u8, nf, nb);
                            line_out = match r {
                                Ok(Ok((f, b))) => format!("front={{{}}} back={{{}}}", f.join(" "), b.join(" ")),
                                Ok(Err(e)) => format!("ERR:{e}"),
                                Err(m) => format!("PANIC:{m}"),
                            };
                        } else if choice < 96 {
                            bump(&mut st.ops, "len");
                            line_case = "len".into();
                            line_out = match catch(|| t.len()) { Ok(Ok(n)) => format!("{n:x}"), Ok(Err(e)) => format!("ERR:{e}"), Err(m) => format!("PANIC:{m}") };
                        } else {
                            bump(&mut st.ops, "is_empty");
                            line_case = "emp".into();
                            line_out = match catch(|| t.is_empty()) { Ok(Ok(b)) => (if b { "t" } else { "f" }).into(), Ok(Err(e)) => format!("ERR:{e}"), Err(m) => format!("PANIC:{m}") };
                        }
                        if line_out.starts_with("ERR") || line_out.starts_with("PANIC") { st.errors += 1; }
                        // ---------------- representation after a mutating op
                        let mut rep = "-".to_string();
                        if touched {
                            let after = catch(|| t.verif_collection_info(&$kbr(&ko)));
                            rep = match &after {
                                Ok(Ok(None)) => "absent".into(),
                                Ok(Ok(Some((sub, n, leaf, len)))) => format!("{} {:x}|{} {:x} {} {:x}", if *sub { "S" } else { "I" }, n,
                                                                              if *sub { "S" } else { "I" }, n, if *leaf { "L" } else { "B" }, len),
                                Ok(Err(e)) => format!("ERR:{e}"),
                                Err(m) => format!("PANIC:{m}"),
                            };
                            let a = after.ok().and_then(|r| r.ok()).flatten();
                            match (before, a) {
                                (Some((false, ..)), Some((true, ..))) => { st.inline_to_subtree += 1; *crossed.entry(key.clone()).or_insert(0) |= 1; st.nontrivial_programs.insert(p.id); }
                                (Some((true, ..)), Some((false, ..))) => { st.subtree_to_inline += 1; *crossed.entry(key.clone()).or_insert(0) |= 2; st.nontrivial_programs.insert(p.id); }
                                (None, Some((true, ..))) => { st.immediate_subtree += 1; st.nontrivial_programs.insert(p.id); }
                                (Some((true, ..)), None) => { st.subtree_removed_with_last_value += 1; }
                                _ => {}
                            }
                            let n = shadow.get(&key).map(|s| s.len() as u64).unwrap_or(0);
                            if n > st.max_values_per_key { st.max_values_per_key = n; }
                        }
                        line_case.truncate(line_case.len());
                        log.put(&line_case, &line_out, &rep);
                    }
                    // a full dump through the write-side table before it is closed
                    let tl = t.len().unwrap_or(0);
                    let r = catch(|| -> Result<Vec<String>, redb::StorageError> {
                        let mut f = vec![];
                        for e in t.iter()? {
                            let (k, vs) = e?;
                            let n = vs.len();
                            let mut l = vec![];
                            for v in vs { l.push(vb(v?.value())); }
                            f.push(entry_s(&kb(k.value()), &l, n));
                        }
                        Ok(f)
                    });
                    log.put(&format!("rg u u 0 {} 0", tl + 2),
                            &match r { Ok(Ok(f)) => format!("front={{{}}} back={{}}", f.join(" ")), Ok(Err(e)) => format!("ERR:{e}"), Err(m) => format!("PANIC:{m}") }, "-");
                    for (k, s) in &shadow { let _ = k; bump(&mut st.values_per_key_hist, hist_bucket(s.len() as u64)); }
                }
                // ---------------- end of the transaction
                let do_abort = seg + 1 < segments && p.rng.chance(1, 4);
                if do_abort {
                    st.aborts += 1;
                    let r = catch(|| txn.abort());
                    log.put("abort", &match r { Ok(Ok(())) => "ok".into(), Ok(Err(e)) => format!("ERR:{e}"), Err(m) => format!("PANIC:{m}") }, "-");
                    shadow = committed_shadow.clone();
                } else {
                    st.commits += 1;
                    let r = catch(|| txn.commit());
                    log.put("commit", &match r { Ok(Ok(())) => "ok".into(), Ok(Err(e)) => format!("ERR:{e}"), Err(m) => format!("PANIC:{m}") }, "-");
                    committed_shadow = shadow.clone();
                }
                if p.rng.chance(1, 3) {
                    st.reopens += 1;
                    // "across commit and reopen": what was committed must also pass redb's own verification of the stored
                    // checksums (value subtrees included) -- a healthy database answers Ok(true)
                    // (only right after a commit: after an ABORTED transaction that grew the file check_integrity answers
                    //  Ok(false) once -- recorded finding c11-integrity-false-after-unpublished-growth, C11's subject)
                    if !do_abort && p.rng.chance(1, 2) {
                        let r = catch(|| db.as_mut().unwrap().check_integrity());
                        log.put("integrity", &match r { Ok(Ok(b)) => format!("Ok({b})"), Ok(Err(e)) => format!("ERR:{e}"), Err(m) => format!("PANIC:{m}") }, "-");
                    }
                    drop(db.take());
                    db = Some(open(&mem, p.ps));
                    log.put("reopen", "ok", "-");
                }
                // ---------------- what a read transaction sees: the committed state
                let r = catch(|| -> Result<String, String> {
                    let rt = db.as_ref().unwrap().begin_read().map_err(|e| e.to_string())?;
                    let t = match rt.open_multimap_table(DEF) {
                        Ok(t) => t,
                        Err(redb::TableError::TableDoesNotExist(_)) => return Ok("len=0 {}".into()),
                        Err(e) => return Err(e.to_string()),
                    };
                    let mut f = vec![];
                    for e in t.iter().map_err(|e| e.to_string())? {
                        let (k, vs) = e.map_err(|e| e.to_string())?;
                        let n = vs.len();
                        let mut l = vec![];
                        for v in vs { l.push(vb(v.map_err(|e| e.to_string())?.value())); }
                        f.push(entry_s(&kb(k.value()), &l, n));
                    }
                    Ok(format!("len={:x} {{{}}}", t.len().map_err(|e| e.to_string())?, f.join(" ")))
                });
                log.put("rdump", &match r { Ok(Ok(s)) => s, Ok(Err(e)) => format!("ERR:{e}"), Err(m) => format!("PANIC:{m}") }, "-");
            }
            for (_, m) in crossed { if m == 3 { st.keys_crossed_both_ways += 1; } }
            st.programs += 1;
        }
    };
}

// how many items to take from the front and then from the back of an iterator that reports n items;
// "everything" is expressed as n + 2 so that the model is asked for more than exists
fn pick_consumption(r: &mut Rng, n: u64) -> (u64, u64) {
    match r.below(6) {
        0 | 1 | 2 => (n + 2, 0),
        3 => (0, n + 2),
        4 => (r.below(n + 1), r.below(n + 2)),
        _ => (r.below(3), r.below(3)),
    }
}

fn own_b(v: &Val) -> Vec<u8> { v.bytes().to_vec() }
fn br_b(o: &Vec<u8>) -> &[u8] { o.as_slice() }
fn own_u(v: &Val) -> u64 { v.u() }
fn br_u(o: &u64) -> u64 { *o }
fn own_s(v: &Val) -> String { String::from_utf8(v.bytes().to_vec()).unwrap() }
fn br_s(o: &String) -> &str { o.as_str() }

gen_runner!(run_bb, &'static [u8], &'static [u8], own_b, br_b, own_b, br_b, |x: &[u8]| Val::B(x.to_vec()), |x: &[u8]| Val::B(x.to_vec()));
gen_runner!(run_uu, u64, u64, own_u, br_u, own_u, br_u, |x: u64| Val::U(x), |x: u64| Val::U(x));
gen_runner!(run_sb, &'static str, &'static [u8], own_s, br_s, own_b, br_b, |x: &str| Val::B(x.as_bytes().to_vec()), |x: &[u8]| Val::B(x.to_vec()));
// key and value of DIFFERENT fixed width (8 vs variable, variable vs 8): the value subtrees are B-trees keyed by the VALUE type
gen_runner!(run_ub, u64, &'static [u8], own_u, br_u, own_b, br_b, |x: u64| Val::U(x), |x: &[u8]| Val::B(x.to_vec()));
gen_runner!(run_su, &'static str, u64, own_s, br_s, own_u, br_u, |x: &str| Val::B(x.as_bytes().to_vec()), |x: u64| Val::U(x));

fn main() {
    silence_panics();
    let n: u64 = std::env::args().nth(1).map(|s| s.parse().unwrap()).unwrap_or(100);
    let big: u64 = std::env::args().nth(2).map(|s| s.parse().unwrap()).unwrap_or(6000);
    let mut r = Rng::new(seed_from_env());
    let mut log = Log::default();
    let mut st = Stats::default();
    let mut total_lines = 0u64;
    use std::io::Write as _;
    let mk = |n: &str| std::fs::File::create(n).unwrap();
    let (mut f_cases, mut f_out, mut f_rep, mut f_intent) = (mk("cases.txt"), mk("impl_out.txt"), mk("impl_rep.txt"), mk("intent.txt"));
    let mut f_rep2 = mk("impl_rep2.txt");
    for id in 0..n {
        let (kt, vt) = *r.pick(&[('b', 'b'), ('u', 'u'), ('s', 'b'), ('b', 'b'), ('u', 'b'), ('s', 'u')]);
        let ps = *r.pick(&[512usize, 512, 1024, 2048, 4096]);
        // the last two programs are the large ones (thousands of values under one key); they come last so that
        // the first reported disagreement is in a small program
        let (big_u, big_b) = (n >= 2 && id == n - 2, n >= 2 && id == n - 1);
        let medium = !(big_u || big_b) && r.chance(1, 12);
        let kind = if big_u || big_b || medium { Kind::Large } else if r.chance(1, 4) { Kind::Oscillate } else { Kind::Mixed };
        let (kt, vt) = if big_u { ('u', 'u') } else if big_b { ('b', 'b') } else { (kt, vt) };
        let big_n = if big_u { big } else if big_b { big / 4 } else { r.range(40, 700) };
        let mut p = Prog { id, kt, vt, ps, kind, rng: r.fork(id), big_n };
        bump(&mut st.page_sizes, &ps.to_string());
        bump(&mut st.types, &format!("{kt}{vt}"));
        writeln!(f_intent, "starting program {id}: types {kt}{vt} page_size {ps} kind {kind:?} (logs are flushed per program)").unwrap();
        f_intent.flush().unwrap();
        // a panic that escapes an op (e.g. begin_write after a failed commit) ends the program, not the run
        let res = catch(|| match (kt, vt) {
            ('b', 'b') => run_bb(&mut p, &mut log, &mut st),
            ('u', 'u') => run_uu(&mut p, &mut log, &mut st),
            ('u', 'b') => run_ub(&mut p, &mut log, &mut st),
            ('s', 'u') => run_su(&mut p, &mut log, &mut st),
            _ => run_sb(&mut p, &mut log, &mut st),
        });
        if let Err(m) = res {
            log.put("crash", &format!("PANIC-ESCAPED:{m}"), "-");
        }
        f_cases.write_all(log.cases.as_bytes()).unwrap();
        f_out.write_all(log.out.as_bytes()).unwrap();
        f_rep.write_all(log.rep.as_bytes()).unwrap();
        f_rep2.write_all(log.rep2.as_bytes()).unwrap();
        f_rep2.flush().unwrap();
        f_cases.flush().unwrap();
        f_out.flush().unwrap();
        f_rep.flush().unwrap();
        total_lines += log.lines;
        log = Log::default();
    }
    let log_lines = total_lines;
    let mut js = String::new();
    let map_s = |m: &BTreeMap<String, u64>| format!("{{{}}}", m.iter().map(|(k, v)| format!("\"{k}\":{v}")).collect::<Vec<_>>().join(","));
    write!(js, "{{\"programs\":{},\"lines\":{},\"ops\":{},\"inline_to_subtree\":{},\"subtree_to_inline\":{},\"immediate_subtree\":{},\"subtree_removed_with_last_value\":{},\"remove_all_subtree\":{},\"keys_crossed_both_ways\":{},\"max_values_per_key\":{},\"values_per_key_hist\":{},\"page_sizes\":{},\"types\":{},\"value_size_classes\":{},\"commits\":{},\"aborts\":{},\"reopens\":{},\"errors\":{},\"nontrivial_programs\":{},\"leaf_root_but_too_big\":{},\"branch_root_after_remove\":{}}}",
        st.programs, log_lines, map_s(&st.ops), st.inline_to_subtree, st.subtree_to_inline, st.immediate_subtree,
        st.subtree_removed_with_last_value, st.remove_all_subtree, st.keys_crossed_both_ways, st.max_values_per_key,
        map_s(&st.values_per_key_hist), map_s(&st.page_sizes), map_s(&st.types), map_s(&st.value_size_classes),
        st.commits, st.aborts, st.reopens, st.errors, st.nontrivial_programs.len(), st.leaf_root_but_too_big, st.branch_root_after_remove).unwrap();
    std::fs::write("stats.json", &js).unwrap();
    println!("programs={} lines={} distinct_nontrivial={}", st.programs, log_lines, st.nontrivial_programs.len());
}
