//! C13 harness: compaction on fragmented, multi-region states with pending frees, pending non-durable
//! commits and multimap subtrees, on the REAL crate.
//!
//! usage: c13 <n_histories> [only]
//! writes into the cwd
//!   cases.txt / impl.txt   guard situations (persistent / ephemeral savepoints, readers) and what compact() answered
//!                          (input / reference for the extracted Coq `guard`, ocaml/c13_driver.ml)
//!   viol.txt               direct-oracle findings: contents changed, file grew, no fixpoint within the bound, a
//!                          crash image of the compaction did not recover the unchanged contents, pages leaked
//!                          or owned twice after compaction, table shape changed, refusal left something changed
//!   stats.txt              input distribution
#[path = "../rvdb.rs"]
mod rvdb;

use redb::{CompactionError, Database, ReadableDatabase, Savepoint};
use rv_harness::backend::{Op, RecBackend};
use rv_harness::{Rng, catch, seed_from_env, silence_panics, tier_is_thorough};
use rvdb::*;
use std::collections::BTreeMap;
use std::fmt::Write as _;

const MAX_COMPACT_CALLS: u64 = 6;

struct H {
    idx: u64,
    cfg: Cfg,
    r: Rng,
    db: Option<Database>,
    backend: RecBackend,
    log: CrashLog,
    spec: Contents,
    spec_durable: Contents,
    cases: String,
    outs: String,
    viol: Vec<String>,
    trace: Vec<String>,
    dead: bool,
    m: BTreeMap<String, u64>,
    compactions: u64,
    nontrivial: bool,
}

fn orders_of(db: &Database) -> Result<BTreeMap<String, Vec<u8>>, String> {
    let snap = db.verif_snapshot();
    let latest = snap.mem.latest().clone();
    let reach = catch(|| db.verif_reach(latest.data_root, latest.system_root))
        .map_err(|p| format!("panic: {p}"))?
        .map_err(|e| e.to_string())?;
    let mut out = BTreeMap::new();
    for t in &reach.data_tables {
        let mut o: Vec<u8> = t.pages.iter().map(|p| p.order).collect();
        o.sort();
        out.insert(format!("{}{}", if t.multimap { "mm:" } else { "t:" }, t.name), o);
    }
    let mut o: Vec<u8> = reach.data_master_pages.iter().map(|p| p.order).collect();
    o.sort();
    out.insert("<master>".into(), o);
    Ok(out)
}

impl H {
    fn new(idx: u64, seed: u64) -> H {
        let mut r = Rng::new(seed ^ 0xC13).fork(idx);
        let cfg = match r.below(4) {
            0 => Cfg { page_size: 512, region_size: Some(512 * 32), cache: 64 * 1024 },
            1 => Cfg { page_size: 512, region_size: Some(512 * 128), cache: 256 * 1024 },
            2 => Cfg { page_size: 1024, region_size: Some(1024 * 64), cache: 128 * 1024 },
            _ => Cfg { page_size: 512, region_size: None, cache: 1024 * 1024 },
        };
        H {
            idx,
            cfg,
            r,
            db: None,
            backend: RecBackend::new(),
            log: CrashLog::new(),
            spec: Contents::default(),
            spec_durable: Contents::default(),
            cases: String::new(),
            outs: String::new(),
            viol: vec![],
            trace: vec![],
            dead: false,
            m: BTreeMap::new(),
            compactions: 0,
            nontrivial: false,
        }
    }

    fn mark(&mut self, k: &str) {
        *self.m.entry(k.to_string()).or_default() += 1;
    }

    fn fail(&mut self, what: String) {
        self.viol.push(format!("{what} || trace: {}", self.trace.join(" ; ")));
        self.dead = true;
    }

    fn absorb(&mut self) {
        let b = self.backend.handle();
        self.log.absorb(&b);
    }

    fn file_len(&self) -> usize {
        self.backend.0.lock().unwrap().data.len()
    }

    fn txn(&mut self, none: bool, load: &Load, batches: u64) -> bool {
        let mut spec = self.spec.clone();
        let db = self.db.as_ref().unwrap();
        let mut t = match catch(|| db.begin_write()) {
            Ok(Ok(t)) => t,
            other => {
                self.fail(format!("begin_write failed: {:?}", other.map(|r| r.map(|_| ()).map_err(|e| e.to_string()))));
                return false;
            }
        };
        if none {
            let _ = set_durability(&mut t, true);
        }
        for _ in 0..batches {
            if let Err(e) = mutate(&t, &mut spec, &mut self.r, load) {
                self.fail(format!("data operation failed or disagreed with the spec map: {e}"));
                return false;
            }
        }
        match catch(move || t.commit().map_err(|e| e.to_string())) {
            Ok(Ok(())) => {
                self.spec = spec;
                if !none {
                    self.spec_durable = self.spec.clone();
                }
                self.trace.push(format!("txn({})", if none { "nondurable" } else { "durable" }));
                true
            }
            Ok(Err(e)) => {
                self.fail(format!("commit failed: {e}"));
                false
            }
            Err(p) => {
                self.fail(format!("commit panicked: {p}"));
                false
            }
        }
    }

    fn check_contents(&mut self, what: &str) -> bool {
        let db = self.db.as_ref().unwrap();
        match dump_db(db) {
            Ok(c) if c == self.spec => true,
            Ok(c) => {
                let d = self.spec.diff(&c);
                self.fail(format!("{what}: contents changed (expected {} got {}; first difference: {d})", self.spec.digest(), c.digest()));
                false
            }
            Err(e) => {
                self.fail(format!("{what}: reading the contents failed: {e}"));
                false
            }
        }
    }

    fn own(&mut self, what: &str) -> Option<OwnInfo> {
        match own_check(self.db.as_ref().unwrap()) {
            Ok(i) => Some(i),
            Err(e) => {
                self.fail(format!("{what}: {e}"));
                None
            }
        }
    }

    /// Build a fragmented state.
    fn build(&mut self) -> bool {
        let grow = Load { keys: 150 + self.r.below(400), ops: 40 + self.r.below(80), max_val: 60 + self.r.below(240) as usize, big_val_permille: 40, delete_bias: 1 };
        let n = 3 + self.r.below(5);
        for _ in 0..n {
            let none = self.r.chance(1, 4);
            let b = 2 + self.r.below(3);
            if !self.txn(none, &grow, b) {
                return false;
            }
        }
        let shrink = Load { keys: grow.keys, ops: 40 + self.r.below(80), max_val: 40, big_val_permille: 5, delete_bias: 8 };
        let n = 2 + self.r.below(5);
        for k in 0..n {
            // the last commits before compaction are sometimes non-durable, so that pending non-durable
            // commits and in-memory freed-page records exist when compact() starts
            let none = self.r.chance(1, 3) || (k + 1 == n && self.r.chance(1, 2));
            let b = 2 + self.r.below(4);
            if !self.txn(none, &shrink, b) {
                return false;
            }
        }
        true
    }

    fn compact_result(r: Result<Result<bool, CompactionError>, String>) -> String {
        match r {
            Ok(Ok(b)) => format!("none {b}"),
            Ok(Err(CompactionError::PersistentSavepointExists)) => "err persistent".into(),
            Ok(Err(CompactionError::EphemeralSavepointExists)) => "err ephemeral".into(),
            Ok(Err(CompactionError::TransactionInProgress)) => "err inprogress".into(),
            Ok(Err(e)) => format!("other {e}"),
            Err(p) => format!("other panic {p}"),
        }
    }

    /// Guard situations: compact() must refuse with the right error and change nothing.
    fn refusals(&mut self) {
        let rounds = 1 + self.r.below(3);
        for _ in 0..rounds {
            if self.dead {
                return;
            }
            let want_p = self.r.chance(1, 3);
            let want_e = self.r.below(3); // number of ephemeral savepoints
            let want_r = self.r.below(3); // number of read transactions
            if !want_p && want_e == 0 && want_r == 0 {
                continue;
            }
            let mut pid: Option<u64> = None;
            let mut eph: Vec<Savepoint> = vec![];
            let mut readers = vec![];
            {
                let db = self.db.as_ref().unwrap();
                if want_p {
                    let r = catch(|| {
                        let t = db.begin_write().map_err(|e| e.to_string())?;
                        let id = t.persistent_savepoint().map_err(|e| e.to_string())?;
                        t.commit().map_err(|e| e.to_string())?;
                        Ok::<u64, String>(id)
                    });
                    match r {
                        Ok(Ok(id)) => pid = Some(id),
                        other => {
                            self.fail(format!("creating a persistent savepoint failed: {other:?}"));
                            return;
                        }
                    }
                }
                for _ in 0..want_e {
                    let r = catch(|| {
                        let t = db.begin_write().map_err(|e| e.to_string())?;
                        let sp = t.ephemeral_savepoint().map_err(|e| e.to_string())?;
                        t.abort().map_err(|e| e.to_string())?;
                        Ok::<Savepoint, String>(sp)
                    });
                    match r {
                        Ok(Ok(sp)) => eph.push(sp),
                        other => {
                            self.fail(format!("creating an ephemeral savepoint failed: {:?}", other.map(|r| r.map(|_| ()))));
                            return;
                        }
                    }
                }
                for _ in 0..want_r {
                    match db.begin_read() {
                        Ok(r) => readers.push(r),
                        Err(e) => {
                            self.fail(format!("begin_read failed: {e}"));
                            return;
                        }
                    }
                }
            }
            self.absorb();
            let len_before = self.file_len();
            let own_before = self.own("before a refused compact()");
            let db = self.db.as_mut().unwrap();
            let res = Self::compact_result(catch(|| db.compact()));
            self.absorb();
            writeln!(self.cases, "guard p={} e={} r={}", u8::from(want_p), want_e, want_r).unwrap();
            writeln!(self.outs, "{}", res.split(' ').take(2).collect::<Vec<_>>().join(" ").replace("none true", "none").replace("none false", "none")).unwrap();
            self.trace.push(format!("refusal(p={},e={},r={})->{res}", u8::from(want_p), want_e, want_r));
            self.mark("guard_situations");
            if res.starts_with("err") {
                self.mark(&format!("refused_{}", res.split(' ').nth(1).unwrap()));
                // state unchanged
                if self.file_len() != len_before {
                    self.fail(format!("a refused compact() changed the file length {len_before} -> {}", self.file_len()));
                    return;
                }
                if let (Some(a), Some(b)) = (own_before, self.own("after a refused compact()")) {
                    if a.allocated != b.allocated || a.latest_txid != b.latest_txid {
                        self.fail(format!(
                            "a refused compact() changed the database: allocated {} -> {}, latest transaction {} -> {}",
                            a.allocated, b.allocated, a.latest_txid, b.latest_txid
                        ));
                        return;
                    }
                }
                if !self.check_contents("after a refused compact()") {
                    return;
                }
            }
            // release everything again
            drop(readers);
            for sp in eph {
                let _ = catch(move || drop(sp));
            }
            if let Some(id) = pid {
                let db = self.db.as_ref().unwrap();
                let r = catch(|| {
                    let t = db.begin_write().map_err(|e| e.to_string())?;
                    t.delete_persistent_savepoint(id).map_err(|e| e.to_string())?;
                    t.commit().map_err(|e| e.to_string())
                });
                if !matches!(r, Ok(Ok(()))) {
                    self.fail(format!("deleting the persistent savepoint failed: {r:?}"));
                    return;
                }
            }
        }
    }

    fn crash_images_of(&mut self, before_log: &CrashLog, ops: &[Op], n: u64, durable_before: &Contents) {
        if ops.is_empty() {
            return;
        }
        let interesting: Vec<usize> = ops
            .iter()
            .enumerate()
            .filter(|(_, o)| matches!(o, Op::Sync) || matches!(o, Op::SetLen(_)) || matches!(o, Op::Write { off, .. } if *off == 0))
            .map(|(i, _)| i)
            .collect();
        for _ in 0..n {
            if self.dead {
                return;
            }
            let cut = if !interesting.is_empty() && self.r.chance(2, 3) {
                (*self.r.pick(&interesting) + self.r.below(2) as usize).min(ops.len())
            } else {
                self.r.below(ops.len() as u64 + 1) as usize
            };
            let mut log = before_log.clone();
            for o in &ops[..cut] {
                log.feed(o.clone());
            }
            let (img, label) = match self.r.below(4) {
                0 => (log.image_all(), "all".to_string()),
                1 => (log.image_none(), "none".to_string()),
                _ => log.image_random(&mut self.r, self.cfg.page_size as u64),
            };
            let what = format!("crash image of compaction (cut {cut}/{}, {label})", ops.len());
            self.mark("crash_images");
            let (db2, _fired) = match open_db(RecBackend::with_data(img), self.cfg) {
                Ok(x) => x,
                Err(e) => {
                    self.fail(format!("{what}: open failed: {e}"));
                    return;
                }
            };
            let res = dump_db(&db2);
            match res {
                Ok(c) if c == self.spec => {}
                // commits made with Durability::None before compact() started become durable with the
                // compaction's first commit; a crash before that recovers the last durable contents
                Ok(c) if c == *durable_before => self.mark("crash_recovered_pre_compaction_durable_state"),
                Ok(c) => {
                    let d = self.spec.diff(&c);
                    self.fail(format!("{what}: recovered contents differ from the unchanged contents (first difference: {d})"));
                }
                Err(e) => self.fail(format!("{what}: reading the recovered contents failed: {e}")),
            }
            if !self.dead {
                if let Err(e) = own_check(&db2) {
                    self.fail(format!("{what}: after recovery {e}"));
                }
            }
            let _ = catch(move || drop(db2));
        }
    }

    fn compaction(&mut self) {
        self.absorb();
        let Some(own0) = self.own("before compaction") else { return };
        if own0.data_freed + own0.system_freed > 0 {
            self.mark("compact_with_pending_free");
        }
        if own0.unpersisted_freed > 0 || own0.latest_txid != own0.durable_txid {
            self.mark("compact_with_pending_nondurable");
        }
        if own0.regions > 1 {
            self.mark("compact_multi_region");
        }
        if self.spec.multi.values().any(|m| m.values().any(|s| s.len() > 60)) {
            self.mark("compact_with_multimap_subtree");
        }
        let orders0 = match orders_of(self.db.as_ref().unwrap()) {
            Ok(o) => o,
            Err(e) => {
                self.fail(format!("walking the tables failed: {e}"));
                return;
            }
        };
        let mut calls = 0;
        let mut first = true;
        let len0 = self.file_len();
        let durable_before = self.spec_durable.clone();
        loop {
            calls += 1;
            let len_before = self.file_len();
            let before_log = self.log.clone();
            let db = self.db.as_mut().unwrap();
            let r = catch(|| db.compact());
            let ops: Vec<Op> = self.backend.take_ops();
            for o in &ops {
                self.log.feed(o.clone());
            }
            let res = Self::compact_result(r);
            self.trace.push(format!("compact->{res}"));
            writeln!(self.cases, "guard p=0 e=0 r=0").unwrap();
            writeln!(self.outs, "{}", if res.starts_with("none") { "none" } else { res.as_str() }).unwrap();
            if !res.starts_with("none") {
                self.fail(format!("compact() call #{calls} on an idle database answered `{res}`"));
                return;
            }
            let progressed = res == "none true";
            let len_after = self.file_len();
            if len_after > len0 {
                self.fail(format!("compaction made the file larger than it was before: {len0} -> {len_after} bytes (call #{calls})"));
                return;
            }
            if len_after > len_before {
                if progressed {
                    self.fail(format!("compact() call #{calls} (which moved pages) made the file larger: {len_before} -> {len_after} bytes"));
                    return;
                }
                // Observed with tiny regions only (design.d/C13.md, O-C13-1): the closing call of the loop, which
                // moves nothing, re-grows the file by whole regions for its forced commit and cannot trim
                // all of it again. By the property text ("never makes the file larger") this is a violation by
                // that call; it is reported (recorded finding), the history goes on. With one region spanning
                // the whole file nothing of the kind happens on the unchanged tree, so there it is fatal.
                self.mark("noprogress_call_regrew_file");
                if self.cfg.region_size.is_none() {
                    self.fail(format!("compact() call #{calls} (which moved nothing) made the file larger: {len_before} -> {len_after} bytes [single region]"));
                    return;
                }
                self.viol.push(format!("a compact() call that moved nothing left the file larger than it found it (tiny regions): call #{calls}, {len_before} -> {len_after} bytes, page {} region {:?} || trace: {}",
                    self.cfg.page_size, self.cfg.region_size, self.trace.join(" ; ")));
            }
            if len_after < len_before {
                self.mark("file_shrank");
            }
            if !self.check_contents(&format!("after compact() call #{calls}")) {
                return;
            }
            self.spec_durable = self.spec.clone();
            let Some(own1) = self.own(&format!("after compact() call #{calls}")) else { return };
            if own1.data_freed + own1.system_freed + own1.unpersisted_freed != 0 {
                self.fail(format!(
                    "after compact() call #{calls} pages are still pending free: DATA_FREED={} SYSTEM_FREED={} unpersisted={}",
                    own1.data_freed, own1.system_freed, own1.unpersisted_freed
                ));
                return;
            }
            if own1.reach_data != own0.reach_data {
                self.fail(format!("compaction changed the number of data-tree pages: {} -> {}", own0.reach_data, own1.reach_data));
                return;
            }
            match orders_of(self.db.as_ref().unwrap()) {
                Ok(o) if o == orders0 => {}
                Ok(o) => {
                    let t = o.keys().chain(orders0.keys()).find(|k| o.get(*k) != orders0.get(*k)).cloned().unwrap_or_default();
                    self.fail(format!("compaction changed the shape of {t}: pages per order {:?} -> {:?}", orders0.get(&t), o.get(&t)));
                    return;
                }
                Err(e) => {
                    self.fail(format!("walking the tables after compaction failed: {e}"));
                    return;
                }
            }
            if first {
                // crash anywhere inside the compaction: recovery serves the unchanged contents
                let n = if progressed { 3 } else { 1 };
                self.crash_images_of(&before_log, &ops, n, &durable_before);
                first = false;
                if self.dead {
                    return;
                }
            }
            if progressed {
                self.mark("compact_moved_pages");
                self.compactions += 1;
            }
            if !progressed {
                break;
            }
            if calls >= MAX_COMPACT_CALLS {
                self.fail(format!("compact() still reports progress after {calls} calls (no fixpoint within the bound)"));
                return;
            }
        }
        *self.m.entry(format!("calls_to_fixpoint_{calls}")).or_default() += 1;
        self.nontrivial = self.compactions > 0;
    }

    fn run(&mut self) {
        match open_db(self.backend.handle(), self.cfg) {
            Ok((db, _)) => self.db = Some(db),
            Err(e) => {
                self.fail(format!("create failed: {e}"));
                return;
            }
        }
        self.absorb();
        let rounds = 1 + self.r.below(2);
        for _ in 0..rounds {
            if self.dead || !self.build() {
                break;
            }
            if self.r.chance(2, 3) {
                self.refusals();
            }
            if self.dead {
                break;
            }
            self.compaction();
            if self.dead {
                break;
            }
            // clean reopen, contents and allocation still right, further transactions fine
            let db = self.db.take().unwrap();
            let _ = catch(move || drop(db));
            self.absorb();
            let img = self.backend.snapshot();
            self.backend = RecBackend::with_data(img.clone());
            self.log = CrashLog::from_image(img);
            match open_db(self.backend.handle(), self.cfg) {
                Ok((db, _)) => self.db = Some(db),
                Err(e) => {
                    self.fail(format!("reopen after compaction failed: {e}"));
                    break;
                }
            }
            self.absorb();
            self.trace.push("reopen".into());
            if !self.check_contents("after reopening the compacted database") || self.own("after reopening the compacted database").is_none() {
                break;
            }
            let light = Load::light();
            for _ in 0..3 {
                let none = self.r.chance(1, 3);
                if !self.txn(none, &light, 1) || !self.check_contents("transaction after compaction") {
                    break;
                }
            }
        }
        if let Some(db) = self.db.take() {
            let _ = catch(move || drop(db));
        }
    }
}

fn main() {
    silence_panics();
    let a: Vec<String> = std::env::args().collect();
    let n: u64 = a.get(1).and_then(|s| s.parse().ok()).unwrap_or(20);
    let only: Option<u64> = a.get(2).and_then(|s| s.parse().ok());
    let seed = seed_from_env();
    let _ = tier_is_thorough();
    let todo: Vec<u64> = (0..n).filter(|i| only.map(|o| o == *i).unwrap_or(true)).collect();
    let work = |i: u64| -> Block {
        let mut h = H::new(i, seed);
        h.run();
        let mut b = Block::default();
        b.texts.insert("cases".into(), h.cases.clone());
        b.texts.insert("outs".into(), h.outs.clone());
        b.texts.insert("viol".into(), h.viol.iter().map(|v| v.replace('\n', " ")).collect::<Vec<_>>().join("\n"));
        b.texts.insert("trace".into(), h.trace.join(";"));
        for (k, v) in &h.m {
            b.nums.insert(format!("m.{k}"), *v);
        }
        b.nums.insert("compactions".into(), h.compactions);
        b.nums.insert("nontrivial".into(), u64::from(h.nontrivial));
        b
    };
    let (mut cases, mut outs, mut viol) = (String::new(), String::new(), String::new());
    let mut m: BTreeMap<String, u64> = BTreeMap::new();
    let mut compactions = 0;
    let mut distinct = std::collections::BTreeSet::new();
    let mut nontrivial = 0;
    for (i, r) in run_isolated("c13", &todo, &work) {
        match r {
            Ok(b) => {
                for l in b.text("cases").lines() {
                    writeln!(cases, "{i} {l}").unwrap();
                }
                for l in b.text("outs").lines() {
                    writeln!(outs, "{i} {l}").unwrap();
                }
                for v in b.text("viol").lines() {
                    writeln!(viol, "{i}\t{v}").unwrap();
                }
                for (k, v) in &b.nums {
                    if let Some(kk) = k.strip_prefix("m.") {
                        *m.entry(kk.to_string()).or_default() += v;
                    }
                }
                compactions += b.num("compactions");
                if b.num("nontrivial") == 1 && distinct.insert(b.text("trace").to_string()) {
                    nontrivial += 1;
                }
            }
            Err(e) => writeln!(viol, "{i}\tabort: {e}").unwrap(),
        }
    }
    std::fs::write("cases.txt", cases).unwrap();
    std::fs::write("impl.txt", outs).unwrap();
    std::fs::write("viol.txt", viol).unwrap();
    let mut st = String::new();
    writeln!(st, "histories={n} compactions_that_moved_pages={compactions} distinct_nontrivial={nontrivial}").unwrap();
    let k: Vec<String> = m.iter().map(|(k, v)| format!("{k}={v}")).collect();
    writeln!(st, "markers {}", k.join(" ")).unwrap();
    std::fs::write("stats.txt", &st).unwrap();
    print!("{st}");
}
