//! C13 harness: compaction on fragmented, multi-region states with pending frees, pending non-durable
//! commits and multimap subtrees, on the REAL crate.
//!
//! usage: c13 <n_histories> [only]
//! writes into the cwd
//!   cases.txt / impl.txt   guard situations (persistent / ephemeral savepoints, readers) and what compact() answered
//!                          (input / reference for the extracted Coq `guard`, ocaml/c13_driver.ml)
//!   viol.txt               direct-oracle findings: contents changed, file grew, no fixpoint within the bound, a
//!                          crash image of the compaction did not recover the unchanged contents, pages leaked
//!                          or owned twice after compaction, table shape changed, refusal left something changed
//!   stats.txt              input distribution
#[path = "../rvdb.rs"]
mod rvdb;
#[path = "../c13_step.rs"]
mod step;

use redb::{CompactionError, Database, ReadableDatabase, Savepoint};
use rv_harness::backend::{Op, RecBackend};
use rv_harness::conc::Event;
use rv_harness::{Rng, catch, seed_from_env, silence_panics, tier_is_thorough};
use rvdb::*;
use step::*;
use std::collections::BTreeMap;
use std::fmt::Write as _;

const MAX_COMPACT_CALLS: u64 = 6;
/// write transactions compact() may begin after it went past its guards although an object it has to refuse
/// is alive, before the harness calls that "does not finish" and releases the object
const SPIN_BOUND: u64 = 150;
/// write transactions one compact() call may begin at all (observed: a few dozen)
const RUN_BOUND: u64 = 2_000;
/// passes (compact_pages transactions) one compact() call may make (observed: at most a handful; the model
/// proves termination, not a number)
const PASS_BOUND: u64 = 200;

/// What the observer sees between two of compact()'s own transactions
struct Snap {
    /// label -> paths (positions in order-0 units, root first, the page itself last) and the pages themselves
    trees: Vec<(String, Vec<Vec<u64>>, Vec<redb::verif::VPage>)>,
    /// allocated order-0 units
    allocated: std::collections::BTreeSet<u64>,
    /// free buddy blocks (start in order-0 units, order)
    free_blocks: Vec<(u64, u8)>,
    /// the highest page of any tree (start, order)
    highest: Option<(u64, u8)>,
    file_len: usize,
}

fn take_snap(obs: &redb::VObserver, file_len: usize) -> Result<Snap, String> {
    let mem = obs.mem_snapshot();
    if !mem.allocators_loaded {
        return Err("allocator state not loaded".into());
    }
    let r = u64::from(mem.layout.full_region_pages);
    let pos = |p: &redb::verif::VPage| u64::from(p.region) * r + (u64::from(p.index) << p.order);
    let latest = mem.latest().clone();
    let paths = catch(|| obs.page_paths(latest.data_root, latest.system_root)).map_err(|p| format!("panic: {p}"))?.map_err(|e| e.to_string())?;
    let mut trees = vec![];
    let mut highest: Option<(u64, u8)> = None;
    for t in &paths {
        let label = format!(
            "{}:{}",
            if t.system { "S" } else { "D" },
            match &t.table {
                None => "<master>".to_string(),
                Some(n) => format!("{}{}", if t.multimap { "mm:" } else { "t:" }, n),
            }
        );
        let mut pp = vec![];
        let mut pages = vec![];
        for path in &t.paths {
            let last = path.last().unwrap();
            let at = pos(last);
            if highest.map(|(h, _)| at > h).unwrap_or(true) {
                highest = Some((at, last.order));
            }
            pp.push(path.iter().map(&pos).collect::<Vec<u64>>());
            pages.push(*last);
        }
        trees.push((label, pp, pages));
    }
    let allocated = mem.allocated_order0().into_iter().map(|(reg, i)| u64::from(reg) * r + u64::from(i)).collect();
    let mut free_blocks = vec![];
    for (reg, region) in mem.regions.iter().enumerate() {
        for (i, o) in &region.free_blocks {
            free_blocks.push((reg as u64 * r + (u64::from(*i) << *o), *o));
        }
    }
    Ok(Snap { trees, allocated, free_blocks, highest, file_len })
}

struct H {
    idx: u64,
    seed: u64,
    cfg: Cfg,
    r: Rng,
    db: Option<Database>,
    backend: RecBackend,
    log: CrashLog,
    spec: Contents,
    spec_durable: Contents,
    cases: String,
    outs: String,
    viol: Vec<String>,
    trace: Vec<String>,
    dead: bool,
    m: BTreeMap<String, u64>,
    compactions: u64,
    nontrivial: bool,
    rounds_done: u64,
}

fn orders_of(db: &Database) -> Result<BTreeMap<String, Vec<u8>>, String> {
    let snap = db.verif_snapshot();
    let latest = snap.mem.latest().clone();
    let reach = catch(|| db.verif_reach(latest.data_root, latest.system_root))
        .map_err(|p| format!("panic: {p}"))?
        .map_err(|e| e.to_string())?;
    let mut out = BTreeMap::new();
    for t in &reach.data_tables {
        let mut o: Vec<u8> = t.pages.iter().map(|p| p.order).collect();
        o.sort();
        out.insert(format!("{}{}", if t.multimap { "mm:" } else { "t:" }, t.name), o);
    }
    let mut o: Vec<u8> = reach.data_master_pages.iter().map(|p| p.order).collect();
    o.sort();
    out.insert("<master>".into(), o);
    Ok(out)
}

impl H {
    fn new(idx: u64, seed: u64) -> H {
        let mut r = Rng::new(seed ^ 0xC13).fork(idx);
        let cfg = match r.below(4) {
            0 => Cfg { page_size: 512, region_size: Some(512 * 32), cache: 64 * 1024 },
            1 => Cfg { page_size: 512, region_size: Some(512 * 128), cache: 256 * 1024 },
            2 => Cfg { page_size: 1024, region_size: Some(1024 * 64), cache: 128 * 1024 },
            _ => Cfg { page_size: 512, region_size: None, cache: 1024 * 1024 },
        };
        H {
            idx,
            seed,
            cfg,
            r,
            db: None,
            backend: RecBackend::new(),
            log: CrashLog::new(),
            spec: Contents::default(),
            spec_durable: Contents::default(),
            cases: String::new(),
            outs: String::new(),
            viol: vec![],
            trace: vec![],
            dead: false,
            m: BTreeMap::new(),
            compactions: 0,
            nontrivial: false,
            rounds_done: 0,
        }
    }

    fn mark(&mut self, k: &str) {
        *self.m.entry(k.to_string()).or_default() += 1;
    }

    fn fail(&mut self, what: String) {
        self.viol.push(format!("{what} || trace: {}", self.trace.join(" ; ")));
        self.dead = true;
    }

    fn absorb(&mut self) {
        let b = self.backend.handle();
        self.log.absorb(&b);
    }

    fn file_len(&self) -> usize {
        self.backend.0.lock().unwrap().data.len()
    }

    fn txn(&mut self, none: bool, load: &Load, batches: u64) -> bool {
        let mut spec = self.spec.clone();
        let db = self.db.as_ref().unwrap();
        let mut t = match catch(|| db.begin_write()) {
            Ok(Ok(t)) => t,
            other => {
                self.fail(format!("begin_write failed: {:?}", other.map(|r| r.map(|_| ()).map_err(|e| e.to_string()))));
                return false;
            }
        };
        if none {
            let _ = set_durability(&mut t, true);
        }
        for _ in 0..batches {
            if let Err(e) = mutate(&t, &mut spec, &mut self.r, load) {
                self.fail(format!("data operation failed or disagreed with the spec map: {e}"));
                return false;
            }
        }
        match catch(move || t.commit().map_err(|e| e.to_string())) {
            Ok(Ok(())) => {
                self.spec = spec;
                if !none {
                    self.spec_durable = self.spec.clone();
                }
                self.trace.push(format!("txn({})", if none { "nondurable" } else { "durable" }));
                true
            }
            Ok(Err(e)) => {
                self.fail(format!("commit failed: {e}"));
                false
            }
            Err(p) => {
                self.fail(format!("commit panicked: {p}"));
                false
            }
        }
    }

    fn check_contents(&mut self, what: &str) -> bool {
        let db = self.db.as_ref().unwrap();
        match dump_db(db) {
            Ok(c) if c == self.spec => true,
            Ok(c) => {
                let d = self.spec.diff(&c);
                self.fail(format!("{what}: contents changed (expected {} got {}; first difference: {d})", self.spec.digest(), c.digest()));
                false
            }
            Err(e) => {
                self.fail(format!("{what}: reading the contents failed: {e}"));
                false
            }
        }
    }

    fn own(&mut self, what: &str) -> Option<OwnInfo> {
        match own_check(self.db.as_ref().unwrap()) {
            Ok(i) => Some(i),
            Err(e) => {
                self.fail(format!("{what}: {e}"));
                None
            }
        }
    }

    /// Build a fragmented state.
    fn build(&mut self) -> bool {
        let grow = Load { keys: 150 + self.r.below(400), ops: 40 + self.r.below(80), max_val: 60 + self.r.below(240) as usize, big_val_permille: 40, delete_bias: 1 };
        let n = 3 + self.r.below(5);
        for _ in 0..n {
            let none = self.r.chance(1, 4);
            let b = 2 + self.r.below(3);
            if !self.txn(none, &grow, b) {
                return false;
            }
        }
        let shrink = Load { keys: grow.keys, ops: 40 + self.r.below(80), max_val: 40, big_val_permille: 5, delete_bias: 8 };
        let n = 2 + self.r.below(5);
        for k in 0..n {
            // the last commits before compaction are sometimes non-durable, so that pending non-durable
            // commits and in-memory freed-page records exist when compact() starts
            let none = self.r.chance(1, 3) || (k + 1 == n && self.r.chance(1, 2));
            let b = 2 + self.r.below(4);
            if !self.txn(none, &shrink, b) {
                return false;
            }
        }
        true
    }

    fn compact_result(r: Result<Result<bool, CompactionError>, String>) -> String {
        match r {
            Ok(Ok(b)) => format!("none {b}"),
            Ok(Err(CompactionError::PersistentSavepointExists)) => "err persistent".into(),
            Ok(Err(CompactionError::EphemeralSavepointExists)) => "err ephemeral".into(),
            Ok(Err(CompactionError::TransactionInProgress)) => "err inprogress".into(),
            Ok(Err(e)) => format!("other {e}"),
            Err(p) => format!("other panic {p}"),
        }
    }

    /// Guard situations: compact() must refuse with the right error and change nothing.
    fn refusals(&mut self) {
        let rounds = 1 + self.r.below(3);
        for _ in 0..rounds {
            if self.dead {
                return;
            }
            let want_p = self.r.chance(1, 3);
            let want_e = self.r.below(3); // number of ephemeral savepoints
            let want_r = self.r.below(3); // number of read transactions
            if !want_p && want_e == 0 && want_r == 0 {
                continue;
            }
            let mut pid: Option<u64> = None;
            let mut eph: Vec<Savepoint> = vec![];
            let mut readers = vec![];
            {
                let db = self.db.as_ref().unwrap();
                if want_p {
                    let r = catch(|| {
                        let t = db.begin_write().map_err(|e| e.to_string())?;
                        let id = t.persistent_savepoint().map_err(|e| e.to_string())?;
                        t.commit().map_err(|e| e.to_string())?;
                        Ok::<u64, String>(id)
                    });
                    match r {
                        Ok(Ok(id)) => pid = Some(id),
                        other => {
                            self.fail(format!("creating a persistent savepoint failed: {other:?}"));
                            return;
                        }
                    }
                }
                for _ in 0..want_e {
                    let r = catch(|| {
                        let t = db.begin_write().map_err(|e| e.to_string())?;
                        let sp = t.ephemeral_savepoint().map_err(|e| e.to_string())?;
                        t.abort().map_err(|e| e.to_string())?;
                        Ok::<Savepoint, String>(sp)
                    });
                    match r {
                        Ok(Ok(sp)) => eph.push(sp),
                        other => {
                            self.fail(format!("creating an ephemeral savepoint failed: {:?}", other.map(|r| r.map(|_| ()))));
                            return;
                        }
                    }
                }
                for _ in 0..want_r {
                    match db.begin_read() {
                        Ok(r) => readers.push(r),
                        Err(e) => {
                            self.fail(format!("begin_read failed: {e}"));
                            return;
                        }
                    }
                }
            }
            self.absorb();
            let len_before = self.file_len();
            let own_before = self.own("before a refused compact()");
            let db = self.db.as_mut().unwrap();
            let res = Self::compact_result(catch(|| db.compact()));
            self.absorb();
            writeln!(self.cases, "guard p={} e={} r={}", u8::from(want_p), want_e, want_r).unwrap();
            writeln!(self.outs, "{}", res.split(' ').take(2).collect::<Vec<_>>().join(" ").replace("none true", "none").replace("none false", "none")).unwrap();
            self.trace.push(format!("refusal(p={},e={},r={})->{res}", u8::from(want_p), want_e, want_r));
            self.mark("guard_situations");
            if res.starts_with("err") {
                self.mark(&format!("refused_{}", res.split(' ').nth(1).unwrap()));
                // state unchanged
                if self.file_len() != len_before {
                    self.fail(format!("a refused compact() changed the file length {len_before} -> {}", self.file_len()));
                    return;
                }
                if let (Some(a), Some(b)) = (own_before, self.own("after a refused compact()")) {
                    if a.allocated != b.allocated || a.latest_txid != b.latest_txid {
                        self.fail(format!(
                            "a refused compact() changed the database: allocated {} -> {}, latest transaction {} -> {}",
                            a.allocated, b.allocated, a.latest_txid, b.latest_txid
                        ));
                        return;
                    }
                }
                if !self.check_contents("after a refused compact()") {
                    return;
                }
            }
            // release everything again
            drop(readers);
            for sp in eph {
                let _ = catch(move || drop(sp));
            }
            if let Some(id) = pid {
                let db = self.db.as_ref().unwrap();
                let r = catch(|| {
                    let t = db.begin_write().map_err(|e| e.to_string())?;
                    t.delete_persistent_savepoint(id).map_err(|e| e.to_string())?;
                    t.commit().map_err(|e| e.to_string())
                });
                if !matches!(r, Ok(Ok(()))) {
                    self.fail(format!("deleting the persistent savepoint failed: {r:?}"));
                    return;
                }
            }
        }
    }


    /// Guard situations under concurrency (step model coq/Compact/Guard.v): a write transaction that was
    /// begun BEFORE compact() is called is still open; the guarded object (ephemeral / persistent savepoint;
    /// every savepoint also owns a read reference) comes into existence before the call, between the up-front
    /// checks, or while compact() is parked before begin_write(); the writer commits or aborts before or after
    /// compact() went to sleep waiting for the write slot; existing savepoints / readers are dropped at any of
    /// compact()'s stops. The schedule is forced through the H4 pause points; the labels of what was done go to
    /// cases.txt and the extracted step machine predicts compact()'s answer. Direct oracle (the property):
    /// compact() must not get past its guards while an object it has to refuse exists, and must return.
    fn conc_guard(&mut self, k: u64) {
        let mut r = Rng::new(self.seed ^ 0xC13_C0C).fork(self.idx * 64 + k);
        let writer = r.chance(6, 7);
        // 0 nothing, 1 ephemeral savepoint, 2 persistent savepoint
        let kind = if writer { *r.pick(&[1u8, 1, 1, 2, 2, 0]) } else { *r.pick(&[1u8, 0]) };
        let create_at: u8 = if writer { *r.pick(&[0u8, 1, 2, 2, 2]) } else { 0 };
        let drop_at: Option<u8> = if kind == 1 && r.chance(1, 3) { Some(*r.pick(&[1u8, 2, 4, 5])).filter(|d| *d >= create_at) } else { None };
        let fin_commit = r.chance(3, 4);
        let fin_at_p2 = r.chance(1, 2);
        let writes = r.chance(2, 3);
        let reader = r.chance(1, 5);
        let reader_drop_at: Option<u8> = if reader && r.chance(3, 4) { Some(*r.pick(&[1u8, 2, 4, 5])) } else { None };
        let load = Load::light();

        let mut esp: Vec<Savepoint> = vec![];
        let mut psp_open: Vec<u64> = vec![]; // created by the open writer, not committed yet
        let mut psp_live: Vec<u64> = vec![]; // committed
        let mut readers = vec![];
        let mut w: Option<redb::WriteTransaction> = None;
        let mut wspec = self.spec.clone();
        let mut labels: Vec<&'static str> = vec![];
        let desc = format!(
            "conc(writer={} kind={} create_at={create_at} drop_at={drop_at:?} fin={}@{} writes={} reader={} reader_drop_at={reader_drop_at:?})",
            u8::from(writer), ["none", "esp", "psp"][kind as usize], if fin_commit { "commit" } else { "abort" }, if fin_at_p2 { "P2" } else { "blocked" },
            u8::from(writes), u8::from(reader)
        );
        self.absorb();
        {
            let db = self.db.as_ref().unwrap();
            if !writer && kind == 1 {
                let q = catch(|| {
                    let t = db.begin_write().map_err(|e| e.to_string())?;
                    let sp = t.ephemeral_savepoint().map_err(|e| e.to_string())?;
                    t.abort().map_err(|e| e.to_string())?;
                    Ok::<Savepoint, String>(sp)
                });
                match q {
                    Ok(Ok(sp)) => esp.push(sp),
                    other => {
                        self.fail(format!("{desc}: creating an ephemeral savepoint failed: {:?}", other.map(|r| r.map(|_| ()))));
                        return;
                    }
                }
            }
            if reader {
                match db.begin_read() {
                    Ok(t) => readers.push(t),
                    Err(e) => {
                        self.fail(format!("{desc}: begin_read failed: {e}"));
                        return;
                    }
                }
            }
            if writer {
                match catch(|| db.begin_write()) {
                    Ok(Ok(t)) => w = Some(t),
                    other => {
                        self.fail(format!("{desc}: begin_write failed: {:?}", other.map(|r| r.map(|_| ()).map_err(|e| e.to_string()))));
                        return;
                    }
                }
            }
        }
        // what happens at stop `q` of compact() (0 = before the call)
        macro_rules! actions {
            ($q:expr) => {{
                let q: u8 = $q;
                let mut err: Option<String> = None;
                if kind != 0 && writer && create_at == q {
                    if let Some(t) = w.as_ref() {
                        if kind == 1 {
                            match catch(|| t.ephemeral_savepoint()) {
                                Ok(Ok(sp)) => {
                                    esp.push(sp);
                                    if q > 0 { labels.push("esp"); }
                                }
                                other => err = Some(format!("ephemeral_savepoint failed: {:?}", other.map(|r| r.map(|_| ()).map_err(|e| e.to_string())))),
                            }
                        } else {
                            match catch(|| t.persistent_savepoint()) {
                                Ok(Ok(id)) => {
                                    psp_open.push(id);
                                    if q > 0 { labels.push("psp"); }
                                }
                                other => err = Some(format!("persistent_savepoint failed: {:?}", other.map(|r| r.map_err(|e| e.to_string())))),
                            }
                        }
                    }
                }
                if drop_at == Some(q) {
                    if let Some(sp) = esp.pop() {
                        let _ = catch(move || drop(sp));
                        labels.push("dropesp");
                    }
                }
                if reader_drop_at == Some(q) {
                    if let Some(t) = readers.pop() {
                        drop(t);
                        labels.push("dropread");
                    }
                }
                err
            }};
        }
        // the open writer writes (after its savepoint: a savepoint needs a clean transaction) and ends
        macro_rules! finish_writer {
            ($record:expr) => {{
                let mut err: Option<String> = None;
                if let Some(t) = w.take() {
                    if writes {
                        if let Err(e) = mutate(&t, &mut wspec, &mut r, &load) {
                            err = Some(format!("writer: data operation failed or disagreed with the spec map: {e}"));
                        }
                    }
                    if fin_commit {
                        match catch(move || t.commit().map_err(|e| e.to_string())) {
                            Ok(Ok(())) => {
                                self.spec = wspec.clone();
                                self.spec_durable = self.spec.clone();
                                psp_live.append(&mut psp_open);
                                if $record { labels.push("commit"); }
                            }
                            other => err = Some(format!("writer: commit failed: {other:?}")),
                        }
                    } else {
                        match catch(move || t.abort().map_err(|e| e.to_string())) {
                            Ok(Ok(())) => {
                                psp_open.clear();
                                if $record { labels.push("abort"); }
                            }
                            other => err = Some(format!("writer: abort failed: {other:?}")),
                        }
                    }
                }
                err
            }};
        }
        if let Some(e) = actions!(0) {
            self.fail(format!("{desc}: {e}"));
            return;
        }
        let init = format!("conc p=0 e={} r={} w={} wn={} :", esp.len(), readers.len(), u8::from(writer), psp_open.len());
        // ---------------- the call
        let db = self.db.take().unwrap();
        let mut st = Stepped::start(db, GUARD_ALPHABET);
        // stop -> (model steps of compact() done when it is reached, position). A refusal inside the guard
        // transaction drops that transaction (X.abort is reached either way); compact() is past its guards when it
        // begins its SECOND write transaction.
        let table: [(&str, usize, u8); 5] =
            [("T.any_savepoint#1", 1, 1), ("X.begin_write#1", 3, 2), ("X.begin_write.slot#1", 4, 4), ("T.any_savepoint#2", 5, 5), ("X.begin_write#2", 7, 6)];
        let mut seen: BTreeMap<String, u32> = BTreeMap::new();
        let mut cs = 0usize;
        let mut result: Option<String> = None;
        let mut waiting = false;
        let mut past_guards = false;
        let mut problem: Option<String> = None;
        let mut stops: Vec<String> = vec![];
        while result.is_none() && !past_guards && problem.is_none() {
            let ev = if waiting { st.wait() } else { st.step() };
            waiting = false;
            match ev {
                Event::At(p) => {
                    let n = seen.entry(p.clone()).or_default();
                    *n += 1;
                    let id = format!("{p}#{n}");
                    stops.push(id.clone());
                    if let Some((_, cum, pos)) = table.iter().find(|(name, _, _)| *name == id) {
                        while cs < *cum {
                            labels.push("C");
                            cs += 1;
                        }
                        if *pos == 6 {
                            past_guards = true;
                        } else {
                            if let Some(e) = actions!(*pos) {
                                problem = Some(e);
                            }
                            if *pos == 2 && fin_at_p2 {
                                if let Some(e) = finish_writer!(true) {
                                    problem = Some(e);
                                }
                            }
                        }
                    }
                }
                Event::Blocked => {
                    // compact() sleeps in begin_write(): the writer ends now
                    if w.is_none() {
                        problem = Some("compact() waits for the write slot although no write transaction is open".into());
                    } else if let Some(e) = finish_writer!(true) {
                        problem = Some(e);
                    }
                    waiting = true;
                }
                Event::Done(res) => result = Some(res),
                Event::Hung => problem = Some("HUNG".into()),
            }
        }
        if let Some(e) = problem {
            if e == "HUNG" {
                st.abandon();
                self.fail(format!("{desc}: compact() did not reach its next step within {:?} (stops so far: {})", rv_harness::conc::HANG_TIMEOUT, stops.join(",")));
            } else {
                st.abandon();
                self.fail(format!("abort: {desc}: {e} (stops so far: {})", stops.join(",")));
            }
            return;
        }
        // ---------------- past the guards: the property itself
        let mut breach: Option<String> = None;
        let mut spun = false;
        let mut begins = 0u64;
        if past_guards {
            let live = |esp: &Vec<Savepoint>, psp_live: &Vec<u64>, nread: usize| {
                let mut v = vec![];
                if !esp.is_empty() {
                    v.push(format!("{} ephemeral savepoint(s)", esp.len()));
                }
                if !psp_live.is_empty() {
                    v.push(format!("{} persistent savepoint(s)", psp_live.len()));
                }
                if nread > 0 {
                    v.push(format!("{nread} read transaction(s)"));
                }
                v.join(" + ")
            };
            let l0 = live(&esp, &psp_live, readers.len());
            if !l0.is_empty() {
                breach = Some(l0);
            }
            begins = 1;
            st.ctl.set_blocking(RUN_ALPHABET);
            loop {
                match st.step() {
                    Event::At(p) => {
                        if p == "X.begin_write" {
                            begins += 1;
                            if begins > SPIN_BOUND && !spun && !(esp.is_empty() && psp_live.is_empty() && readers.is_empty()) {
                                // still running while the object lives: release what can be released without the database
                                spun = true;
                                for sp in esp.drain(..) {
                                    let _ = catch(move || drop(sp));
                                }
                                readers.clear();
                                if !psp_live.is_empty() {
                                    problem = Some(format!("began {begins} write transactions and did not return while a persistent savepoint exists"));
                                    break;
                                }
                            }
                            if begins > RUN_BOUND {
                                problem = Some(format!("began {begins} write transactions and did not return"));
                                break;
                            }
                        }
                    }
                    Event::Blocked => {
                        problem = Some("compact() waits for the write slot although nothing can hold it".into());
                        break;
                    }
                    Event::Done(res) => {
                        result = Some(res);
                        break;
                    }
                    Event::Hung => {
                        problem = Some(format!("no step within {:?}", rv_harness::conc::HANG_TIMEOUT));
                        break;
                    }
                }
            }
        }
        let res = result.clone().unwrap_or_else(|| "no-return".into());
        let target = if res.starts_with("none") { 8 } else { 7 };
        while cs < target {
            labels.push("C");
            cs += 1;
        }
        writeln!(self.cases, "{init} {}", labels.join(" ")).unwrap();
        writeln!(self.outs, "{}", if res.starts_with("none") { "none" } else { res.as_str() }).unwrap();
        self.trace.push(format!("{desc}[{}]->{res}", labels.join(" ")));
        self.mark("conc_guard_situations");
        self.mark(&format!("conc_{}", res.replace(' ', "_")));
        if result.is_some() && esp.len() + psp_live.len() + psp_open.len() > 0 && !past_guards {
            self.mark("conc_refused_object_created_while_parked");
        }
        if let Some(what) = &breach {
            let tail = if let Some(p) = &problem {
                format!("; then compact() {p}")
            } else if spun {
                format!("; it then began {SPIN_BOUND} write transactions without returning for as long as the object lived (not a bounded number of passes) and returned `{res}` only after the harness released it ({begins} transactions in all)")
            } else {
                format!("; it returned `{res}` after {begins} write transactions")
            };
            self.viol.push(format!(
                "compact() went past its guards (aborted its guard transaction and went on to relocate) while {what} existed, created {} it took the write slot{tail} [{desc}; schedule: {}] || trace: {}",
                if create_at == 0 || !writer { "before" } else { "by the concurrent writer before" },
                labels.join(" "),
                self.trace.join(" ; ")
            ));
            self.dead = true;
        }
        if problem.is_some() || result.is_none() {
            st.abandon();
            if breach.is_none() {
                self.fail(format!("{desc}: compact() {} (no fixpoint: the call does not finish)", problem.unwrap_or_else(|| "did not return".into())));
            }
            return;
        }
        match st.finish() {
            Some(db) => self.db = Some(db),
            None => {
                self.fail(format!("abort: {desc}: the database did not come back from the compactor thread"));
                return;
            }
        }
        self.absorb();
        if self.dead {
            return;
        }
        if !res.starts_with("none") && !res.starts_with("err") {
            self.fail(format!("{desc}: compact() answered `{res}`"));
            return;
        }
        // ---------------- release everything, then nothing may have changed but what the writer committed
        if let Some(e) = finish_writer!(false) {
            self.fail(format!("{desc}: {e}"));
            return;
        }
        for sp in esp.drain(..) {
            let _ = catch(move || drop(sp));
        }
        readers.clear();
        for id in psp_live.drain(..) {
            let db = self.db.as_ref().unwrap();
            let q = catch(|| {
                let t = db.begin_write().map_err(|e| e.to_string())?;
                t.delete_persistent_savepoint(id).map_err(|e| e.to_string())?;
                t.commit().map_err(|e| e.to_string())
            });
            if !matches!(q, Ok(Ok(()))) {
                self.fail(format!("{desc}: deleting the persistent savepoint failed: {q:?}"));
                return;
            }
        }
        self.absorb();
        if !self.check_contents(&format!("after {desc} -> {res}")) {
            return;
        }
        let _ = self.own(&format!("after {desc} -> {res}"));
    }


    /// One `compact()` call, stepped through the transactions it begins (H4 pause points `X.begin_write`,
    /// `X.commit`, `X.abort`), with a look at the page trees and the allocator before and after every pass
    /// (`compact_pages` transaction).  compact()'s transactions are: the guard transaction (aborted), a drain
    /// (commits until nothing is pending, then one aborted transaction), then pass / drain alternating until a
    /// pass aborts (no progress).  Per pass that moved pages: the observed relocation of the data tables goes to the
    /// extracted checker `pass_okP` (cases.txt `pass` line; Pass.v: accepted => measure strictly smaller), and every
    /// target must have been free before the pass.  Per pass that moved nothing: no free block that could hold the
    /// highest page lies below it (the model's fixpoint: packed).  Returns compact()'s answer.
    fn compact_stepped(&mut self, call: u64) -> Option<String> {
        #[derive(Clone, Copy, PartialEq, Debug)]
        enum Tx {
            Guard,
            Drain,
            Pass,
        }
        let db = self.db.take().unwrap();
        let obs = db.verif_observer();
        let mut st = Stepped::start(db, RUN_ALPHABET);
        let (mut expect, mut cur): (Tx, Option<Tx>) = (Tx::Guard, None);
        let mut recognised = true;
        let mut before: Option<Snap> = None;
        let mut pending_after = false;
        let (mut passes, mut begins) = (0u64, 0u64);
        let mut problem: Option<String> = None;
        let mut result: Option<String> = None;
        let mut notes: Vec<String> = vec![];
        loop {
            match st.step() {
                Event::At(p) => match p.as_str() {
                    "X.begin_write" => {
                        begins += 1;
                        if begins > RUN_BOUND {
                            problem = Some(format!("began {begins} write transactions and did not return (no fixpoint: the call does not finish)"));
                            break;
                        }
                        if cur.is_some() {
                            recognised = false;
                        }
                        if recognised {
                            let len = self.file_len();
                            if pending_after {
                                pending_after = false;
                                match (before.take(), take_snap(&obs, len)) {
                                    (Some(b), Ok(a)) => {
                                        if let Some(v) = self.pass_observed(call, passes, &b, &a) {
                                            problem = Some(v);
                                            break;
                                        }
                                    }
                                    (_, Err(e)) => notes.push(format!("snapshot after pass {passes} failed: {e}")),
                                    _ => {}
                                }
                            }
                            if expect == Tx::Pass {
                                passes += 1;
                                if passes > PASS_BOUND {
                                    problem = Some(format!("made {passes} passes and still reports progress (no fixpoint: the call does not finish)"));
                                    break;
                                }
                                match take_snap(&obs, len) {
                                    Ok(b) => before = Some(b),
                                    Err(e) => notes.push(format!("snapshot before pass {passes} failed: {e}")),
                                }
                            }
                        }
                        cur = Some(expect);
                    }
                    "X.commit" | "X.abort" => {
                        let commit = p == "X.commit";
                        match (cur.take(), commit) {
                            (Some(Tx::Guard), false) => expect = Tx::Drain,
                            (Some(Tx::Drain), true) => expect = Tx::Drain,
                            (Some(Tx::Drain), false) => expect = Tx::Pass,
                            (Some(Tx::Pass), true) => {
                                pending_after = true;
                                expect = Tx::Drain;
                            }
                            (Some(Tx::Pass), false) => {
                                if let Some(b) = before.take() {
                                    self.pass_without_progress(&b);
                                }
                                expect = Tx::Drain;
                            }
                            _ => recognised = false,
                        }
                    }
                    _ => {}
                },
                Event::Blocked => {
                    problem = Some("waits for the write slot although nothing can hold it".into());
                    break;
                }
                Event::Done(r) => {
                    result = Some(r);
                    break;
                }
                Event::Hung => {
                    problem = Some(format!("made no step within {:?}", rv_harness::conc::HANG_TIMEOUT));
                    break;
                }
            }
        }
        drop(obs);
        if let Some(p) = problem {
            st.abandon();
            if p.starts_with("pass ") {
                self.fail(p);
            } else {
                self.fail(format!("compact() call #{call} {p}"));
            }
            return None;
        }
        match st.finish() {
            Some(db) => self.db = Some(db),
            None => {
                self.fail(format!("abort: compact() call #{call}: the database did not come back from the compactor thread"));
                return None;
            }
        }
        if !recognised {
            self.mark("pass_sequence_unrecognised");
        }
        for n in notes {
            self.mark("pass_snapshot_failed");
            self.trace.push(n);
        }
        *self.m.entry("passes_observed".into()).or_default() += passes;
        result
    }

    /// a pass that committed: returns Some(violation text) for a direct-oracle finding
    fn pass_observed(&mut self, call: u64, pass: u64, b: &Snap, a: &Snap) -> Option<String> {
        self.mark("pass_progressed");
        if a.file_len > b.file_len {
            self.mark("pass_grew_file_transiently");
        }
        let mut entries: Vec<String> = vec![];
        let mut moves: Vec<String> = vec![];
        let mut moved_any = false;
        for (label, paths, _) in &b.trees {
            if !label.starts_with("D:") || label == "D:<master>" {
                continue;
            }
            let Some((_, apaths, apages)) = a.trees.iter().find(|(l, _, _)| l == label) else {
                self.mark("pass_table_vanished");
                return None;
            };
            if apaths.len() != paths.len() || apaths.iter().zip(paths).any(|(x, y)| x.len() != y.len()) {
                // the call-level shape oracle reports it
                self.mark("pass_shape_differs");
                return None;
            }
            for (j, path) in paths.iter().enumerate() {
                let (old, anc) = path.split_last().unwrap();
                entries.push(format!("{old}/{}", anc.iter().map(|x| x.to_string()).collect::<Vec<_>>().join(".")));
                let new = *apaths[j].last().unwrap();
                if new != *old {
                    moved_any = true;
                    moves.push(format!("{old}>{new}"));
                    // the property's "crash ... recovers to unchanged contents" / old readers: the old version
                    // must not be overwritten -- the target was free before the pass
                    let pg = apages[j];
                    for u in new..new + (1u64 << pg.order) {
                        if b.allocated.contains(&u) {
                            return Some(format!(
                                "pass {pass} of compact() call #{call} relocated page {old} of {label} onto position {new} (order {}), of which unit {u} was allocated before the pass: a page of the old version is overwritten",
                                pg.order
                            ));
                        }
                    }
                }
            }
        }
        if moved_any {
            self.mark("pass_moved_data_pages");
        }
        writeln!(self.cases, "pass {} ; {}", entries.join(" "), moves.join(" ")).unwrap();
        writeln!(self.outs, "passok {}", if moved_any { "lt" } else { "eq" }).unwrap();
        None
    }

    /// a pass that aborted: the model's fixpoint is "nothing free below the highest page"; with buddy blocks: no
    /// free block that could hold the highest page starts below it
    fn pass_without_progress(&mut self, b: &Snap) {
        self.mark("pass_no_progress");
        if let Some((at, order)) = b.highest {
            let room = b.free_blocks.iter().any(|(start, o)| *o >= order && *start < at);
            self.mark(if room { "pass_no_progress_but_room_below" } else { "pass_no_progress_packed" });
            if order == 0 {
                // the model's statement itself (c13_pass_no_progress): every position below the highest page is taken
                let units: Vec<String> = b.allocated.iter().filter(|u| **u <= at).map(|u| u.to_string()).collect();
                writeln!(self.cases, "packed {}", units.join(" ")).unwrap();
                writeln!(self.outs, "packed true").unwrap();
                self.mark("pass_no_progress_highest_order0");
            } else {
                // buddy blocks: no free block that could hold the highest page starts below it
                let blocks: Vec<String> = b.free_blocks.iter().filter(|(start, _)| *start < at).map(|(s, o)| format!("{s}^{o}")).collect();
                writeln!(self.cases, "packedblocks {at}^{order} {}", blocks.join(" ")).unwrap();
                writeln!(self.outs, "packedblocks true").unwrap();
            }
        }
    }

    fn crash_images_of(&mut self, before_log: &CrashLog, ops: &[Op], n: u64, durable_before: &Contents) {
        if ops.is_empty() {
            return;
        }
        let interesting: Vec<usize> = ops
            .iter()
            .enumerate()
            .filter(|(_, o)| matches!(o, Op::Sync) || matches!(o, Op::SetLen(_)) || matches!(o, Op::Write { off, .. } if *off == 0))
            .map(|(i, _)| i)
            .collect();
        for _ in 0..n {
            if self.dead {
                return;
            }
            let cut = if !interesting.is_empty() && self.r.chance(2, 3) {
                (*self.r.pick(&interesting) + self.r.below(2) as usize).min(ops.len())
            } else {
                self.r.below(ops.len() as u64 + 1) as usize
            };
            let mut log = before_log.clone();
            for o in &ops[..cut] {
                log.feed(o.clone());
            }
            let (img, label) = match self.r.below(4) {
                0 => (log.image_all(), "all".to_string()),
                1 => (log.image_none(), "none".to_string()),
                _ => log.image_random(&mut self.r, self.cfg.page_size as u64),
            };
            let what = format!("crash image of compaction (cut {cut}/{}, {label})", ops.len());
            self.mark("crash_images");
            let (db2, _fired) = match open_db(RecBackend::with_data(img), self.cfg) {
                Ok(x) => x,
                Err(e) => {
                    self.fail(format!("{what}: open failed: {e}"));
                    return;
                }
            };
            let res = dump_db(&db2);
            match res {
                Ok(c) if c == self.spec => {}
                // commits made with Durability::None before compact() started become durable with the
                // compaction's first commit; a crash before that recovers the last durable contents
                Ok(c) if c == *durable_before => self.mark("crash_recovered_pre_compaction_durable_state"),
                Ok(c) => {
                    let d = self.spec.diff(&c);
                    self.fail(format!("{what}: recovered contents differ from the unchanged contents (first difference: {d})"));
                }
                Err(e) => self.fail(format!("{what}: reading the recovered contents failed: {e}")),
            }
            if !self.dead {
                if let Err(e) = own_check(&db2) {
                    self.fail(format!("{what}: after recovery {e}"));
                }
            }
            let _ = catch(move || drop(db2));
        }
    }

    fn compaction(&mut self) {
        self.absorb();
        let Some(own0) = self.own("before compaction") else { return };
        if own0.data_freed + own0.system_freed > 0 {
            self.mark("compact_with_pending_free");
        }
        if own0.unpersisted_freed > 0 || own0.latest_txid != own0.durable_txid {
            self.mark("compact_with_pending_nondurable");
        }
        if own0.regions > 1 {
            self.mark("compact_multi_region");
        }
        if self.spec.multi.values().any(|m| m.values().any(|s| s.len() > 60)) {
            self.mark("compact_with_multimap_subtree");
        }
        let orders0 = match orders_of(self.db.as_ref().unwrap()) {
            Ok(o) => o,
            Err(e) => {
                self.fail(format!("walking the tables failed: {e}"));
                return;
            }
        };
        let mut calls = 0;
        let mut first = true;
        let len0 = self.file_len();
        let durable_before = self.spec_durable.clone();
        loop {
            calls += 1;
            let len_before = self.file_len();
            let before_log = self.log.clone();
            let Some(res) = self.compact_stepped(calls) else { return };
            let ops: Vec<Op> = self.backend.take_ops();
            for o in &ops {
                self.log.feed(o.clone());
            }
            self.trace.push(format!("compact->{res}"));
            writeln!(self.cases, "guard p=0 e=0 r=0").unwrap();
            writeln!(self.outs, "{}", if res.starts_with("none") { "none" } else { res.as_str() }).unwrap();
            if !res.starts_with("none") {
                self.fail(format!("compact() call #{calls} on an idle database answered `{res}`"));
                return;
            }
            let progressed = res == "none true";
            let len_after = self.file_len();
            if len_after > len0 && (progressed || calls > 1) {
                self.fail(format!("compaction made the file larger than it was before: {len0} -> {len_after} bytes (call #{calls})"));
                return;
            }
            if len_after > len_before {
                if progressed {
                    self.fail(format!("compact() call #{calls} (which moved pages) made the file larger: {len_before} -> {len_after} bytes"));
                    return;
                }
                // Observed with tiny regions only (design.d/C13.md, O-C13-1): the closing call of the loop, which
                // moves nothing, re-grows the file by whole regions for its forced commit and cannot trim
                // all of it again. By the property text ("never makes the file larger") this is a violation by
                // that call; it is reported (recorded finding), the history goes on. With one region spanning
                // the whole file nothing of the kind happens on the unchanged tree, so there it is fatal.
                self.mark("noprogress_call_regrew_file");
                if self.cfg.region_size.is_none() {
                    self.fail(format!("compact() call #{calls} (which moved nothing) made the file larger: {len_before} -> {len_after} bytes [single region]"));
                    return;
                }
                self.viol.push(format!("a compact() call that moved nothing left the file larger than it found it (tiny regions): call #{calls}, {len_before} -> {len_after} bytes, page {} region {:?} || trace: {}",
                    self.cfg.page_size, self.cfg.region_size, self.trace.join(" ; ")));
            }
            if len_after < len_before {
                self.mark("file_shrank");
            }
            if !self.check_contents(&format!("after compact() call #{calls}")) {
                return;
            }
            self.spec_durable = self.spec.clone();
            let Some(own1) = self.own(&format!("after compact() call #{calls}")) else { return };
            if own1.data_freed + own1.system_freed + own1.unpersisted_freed != 0 {
                self.fail(format!(
                    "after compact() call #{calls} pages are still pending free: DATA_FREED={} SYSTEM_FREED={} unpersisted={}",
                    own1.data_freed, own1.system_freed, own1.unpersisted_freed
                ));
                return;
            }
            if own1.reach_data != own0.reach_data {
                self.fail(format!("compaction changed the number of data-tree pages: {} -> {}", own0.reach_data, own1.reach_data));
                return;
            }
            match orders_of(self.db.as_ref().unwrap()) {
                Ok(o) if o == orders0 => {}
                Ok(o) => {
                    let t = o.keys().chain(orders0.keys()).find(|k| o.get(*k) != orders0.get(*k)).cloned().unwrap_or_default();
                    self.fail(format!("compaction changed the shape of {t}: pages per order {:?} -> {:?}", orders0.get(&t), o.get(&t)));
                    return;
                }
                Err(e) => {
                    self.fail(format!("walking the tables after compaction failed: {e}"));
                    return;
                }
            }
            if first {
                // crash anywhere inside the compaction: recovery serves the unchanged contents
                let n = if progressed { 3 } else { 1 };
                self.crash_images_of(&before_log, &ops, n, &durable_before);
                first = false;
                if self.dead {
                    return;
                }
            }
            if progressed {
                self.mark("compact_moved_pages");
                self.compactions += 1;
            }
            if !progressed {
                break;
            }
            if calls >= MAX_COMPACT_CALLS {
                self.fail(format!("compact() still reports progress after {calls} calls (no fixpoint within the bound)"));
                return;
            }
        }
        *self.m.entry(format!("calls_to_fixpoint_{calls}")).or_default() += 1;
        self.nontrivial = self.compactions > 0;
    }

    fn run(&mut self) {
        match open_db(self.backend.handle(), self.cfg) {
            Ok((db, _)) => self.db = Some(db),
            Err(e) => {
                self.fail(format!("create failed: {e}"));
                return;
            }
        }
        self.absorb();
        let rounds = 1 + self.r.below(2);
        for _ in 0..rounds {
            if self.dead || !self.build() {
                break;
            }
            if self.r.chance(2, 3) {
                self.refusals();
            }
            if self.dead {
                break;
            }
            {
                let mut cr = Rng::new(self.seed ^ 0xC13_C0D).fork(self.idx * 8 + self.rounds_done);
                let n = if cr.chance(3, 4) { 1 + cr.below(2) } else { 0 };
                for k in 0..n {
                    if self.dead {
                        break;
                    }
                    self.conc_guard(self.rounds_done * 8 + k);
                }
            }
            self.rounds_done += 1;
            if self.dead {
                break;
            }
            self.compaction();
            if self.dead {
                break;
            }
            // clean reopen, contents and allocation still right, further transactions fine
            let db = self.db.take().unwrap();
            let _ = catch(move || drop(db));
            self.absorb();
            let img = self.backend.snapshot();
            self.backend = RecBackend::with_data(img.clone());
            self.log = CrashLog::from_image(img);
            match open_db(self.backend.handle(), self.cfg) {
                Ok((db, _)) => self.db = Some(db),
                Err(e) => {
                    self.fail(format!("reopen after compaction failed: {e}"));
                    break;
                }
            }
            self.absorb();
            self.trace.push("reopen".into());
            if !self.check_contents("after reopening the compacted database") || self.own("after reopening the compacted database").is_none() {
                break;
            }
            let light = Load::light();
            for _ in 0..3 {
                let none = self.r.chance(1, 3);
                if !self.txn(none, &light, 1) || !self.check_contents("transaction after compaction") {
                    break;
                }
            }
        }
        if let Some(db) = self.db.take() {
            let _ = catch(move || drop(db));
        }
    }
}

fn main() {
    silence_panics();
    let a: Vec<String> = std::env::args().collect();
    let n: u64 = a.get(1).and_then(|s| s.parse().ok()).unwrap_or(20);
    let only: Option<u64> = a.get(2).and_then(|s| s.parse().ok());
    let seed = seed_from_env();
    let _ = tier_is_thorough();
    let todo: Vec<u64> = (0..n).filter(|i| only.map(|o| o == *i).unwrap_or(true)).collect();
    let work = |i: u64| -> Block {
        let mut h = H::new(i, seed);
        h.run();
        let mut b = Block::default();
        b.texts.insert("cases".into(), h.cases.clone());
        b.texts.insert("outs".into(), h.outs.clone());
        b.texts.insert("viol".into(), h.viol.iter().map(|v| v.replace('\n', " ")).collect::<Vec<_>>().join("\n"));
        b.texts.insert("trace".into(), h.trace.join(";"));
        for (k, v) in &h.m {
            b.nums.insert(format!("m.{k}"), *v);
        }
        b.nums.insert("compactions".into(), h.compactions);
        b.nums.insert("nontrivial".into(), u64::from(h.nontrivial));
        b
    };
    let (mut cases, mut outs, mut viol) = (String::new(), String::new(), String::new());
    let mut m: BTreeMap<String, u64> = BTreeMap::new();
    let mut compactions = 0;
    let mut distinct = std::collections::BTreeSet::new();
    let mut nontrivial = 0;
    for (i, r) in run_isolated("c13", &todo, &work) {
        match r {
            Ok(b) => {
                for l in b.text("cases").lines() {
                    writeln!(cases, "{i} {l}").unwrap();
                }
                for l in b.text("outs").lines() {
                    writeln!(outs, "{i} {l}").unwrap();
                }
                for v in b.text("viol").lines() {
                    writeln!(viol, "{i}\t{v}").unwrap();
                }
                for (k, v) in &b.nums {
                    if let Some(kk) = k.strip_prefix("m.") {
                        *m.entry(kk.to_string()).or_default() += v;
                    }
                }
                compactions += b.num("compactions");
                if b.num("nontrivial") == 1 && distinct.insert(b.text("trace").to_string()) {
                    nontrivial += 1;
                }
            }
            Err(e) => writeln!(viol, "{i}\tabort: {e}").unwrap(),
        }
    }
    std::fs::write("cases.txt", cases).unwrap();
    std::fs::write("impl.txt", outs).unwrap();
    std::fs::write("viol.txt", viol).unwrap();
    let mut st = String::new();
    writeln!(st, "histories={n} compactions_that_moved_pages={compactions} distinct_nontrivial={nontrivial}").unwrap();
    let k: Vec<String> = m.iter().map(|(k, v)| format!("{k}={v}")).collect();
    writeln!(st, "markers {}", k.join(" ")).unwrap();
    std::fs::write("stats.txt", &st).unwrap();
    print!("{st}");
}
