//! Cache-layer correspondence harness (C02 part (b), C08): runs random + adversarial call programs on the REAL
//! `PagedCachedFile` (through the hook `redb::verif_cache::VCachedFile`) over an in-memory, recording,
//! failure-injecting backend, and writes
//!   cases.txt       the programs with the nondeterministic choices the real crate was OBSERVED to make
//!                   (which pages it evicted / wrote back, in which order; the backend's answers) -- the oracle
//!                   of the Coq model coq/Storage/Cache.v
//!   impl.txt        per call: result, backend events, picture of both caches/counters/flags
//!   violations.txt  S3: the property evaluated directly on the real crate against a plain byte array
//!                   ("last write wins"), independent of the Coq model
//!   stats.txt       measured distribution
//! usage: cachecorr <coherence|faults> <programs> [only-program-id]
//!
//! Line protocol (all numbers hexadecimal):
//!   P <id> <ps> <max_cache> <flen> <fseed>      program header; initial file byte i = pat0(fseed, i)
//!   <op> [~] | R <off>* | W <off>* | B <0|1>* [| H <result> <ns>]   one call; ~ = do not compare the state picture;
//!                                                R = read-cache keys evicted by the call, W = offsets of the
//!                                                backend writes in order, B = injected backend answers
//!   E                                            end of program (final file hash)
//! ops:  r <off> <len> <c|n>   w <off> <len> <0|1>   d <off> F <a> | d <off> P <j> <v>   fs <j> <k>   fe   sy   fl
//!       ba   di   iv <off> <len>   ia   ca <off> <len>   rs <n>   rd <off> <len>   ln   ck
use redb::verif_c08::{VLatchCall, VLatchEvent, latch_log_backend, latch_log_start, latch_log_take};
use redb::verif_cache::{VCacheState, VCachedFile, VWritablePage};
use redb::{StorageBackend, StorageError};
use rv_harness::{Rng, catch, seed_from_env, silence_panics};
use std::collections::{BTreeMap, BTreeSet, VecDeque};
use std::fmt::Write as _;
use std::io;
use std::sync::mpsc::{Receiver, Sender, channel};
use std::sync::{Arc, Mutex};

const STRIPES: u64 = 131;

fn fnv_bytes(b: &[u8]) -> u64 {
    let mut h: u64 = 0xcbf29ce484222325;
    for x in b {
        h ^= u64::from(*x);
        h = h.wrapping_mul(0x100000001b3);
    }
    h
}
fn pat0(fseed: u64, i: u64) -> u8 {
    (i.wrapping_mul(31).wrapping_add((i >> 8).wrapping_mul(17)).wrapping_add(fseed) & 0xff) as u8
}
fn pat(a: u64, j: u64) -> u8 {
    (a.wrapping_add(j.wrapping_mul(7)).wrapping_add((j >> 8).wrapping_mul(13)) & 0xff) as u8
}

// ------------------------------------------------------------------ backend
#[derive(Clone, Debug, PartialEq, Eq)]
enum BKind {
    Len,
    Read { off: u64, len: usize },
    Write { off: u64, len: usize, hash: u64 },
    SetLen(u64),
    Sync,
}
#[derive(Clone, Debug)]
struct BEv {
    kind: BKind,
    ok: bool,
    inj: bool,
}
struct Gate {
    entered: Sender<()>,
    release: Receiver<()>,
}
struct Inner {
    data: Vec<u8>,
    evs: Vec<BEv>,
    answers: VecDeque<bool>,
    gate: Option<Gate>,
}
struct CBackend(Arc<Mutex<Inner>>);
impl std::fmt::Debug for CBackend {
    fn fmt(&self, f: &mut std::fmt::Formatter<'_>) -> std::fmt::Result {
        f.write_str("CBackend")
    }
}
impl CBackend {
    fn call(&self, kind: BKind, apply: impl FnOnce(&mut Vec<u8>) -> bool) -> io::Result<()> {
        let mut g = self.0.lock().unwrap();
        if matches!(kind, BKind::Write { .. }) {
            if let Some(gate) = g.gate.take() {
                drop(g);
                let _ = gate.entered.send(());
                let _ = gate.release.recv();
                g = self.0.lock().unwrap();
            }
        }
        let inj = g.answers.pop_front().unwrap_or(true);
        let ok = inj && apply(&mut g.data);
        let code = match kind {
            BKind::Len => 0,
            BKind::Read { .. } => 1,
            BKind::Write { .. } => 2,
            BKind::SetLen(_) => 3,
            BKind::Sync => 4,
        };
        g.evs.push(BEv { kind, ok, inj });
        latch_log_backend(code, ok);
        if ok {
            Ok(())
        } else {
            Err(io::Error::new(io::ErrorKind::Other, "injected failure"))
        }
    }
}
impl StorageBackend for CBackend {
    fn len(&self) -> io::Result<u64> {
        self.call(BKind::Len, |_| true)?;
        Ok(self.0.lock().unwrap().data.len() as u64)
    }
    fn read(&self, offset: u64, out: &mut [u8]) -> io::Result<()> {
        let n = out.len();
        self.call(BKind::Read { off: offset, len: n }, |d| {
            let o = offset as usize;
            if o + n > d.len() {
                return false;
            }
            out.copy_from_slice(&d[o..o + n]);
            true
        })
    }
    fn set_len(&self, len: u64) -> io::Result<()> {
        self.call(BKind::SetLen(len), |d| {
            d.resize(len as usize, 0);
            true
        })
    }
    fn sync_data(&self) -> io::Result<()> {
        self.call(BKind::Sync, |_| true)
    }
    fn write(&self, offset: u64, data: &[u8]) -> io::Result<()> {
        self.call(BKind::Write { off: offset, len: data.len(), hash: fnv_bytes(data) }, |d| {
            let o = offset as usize;
            if o + data.len() > d.len() {
                return false;
            }
            d[o..o + data.len()].copy_from_slice(data);
            true
        })
    }
}

// ------------------------------------------------------------------ ops and the usage protocol
#[derive(Clone, Debug, PartialEq, Eq)]
enum DropData {
    Full(u64),
    Patch(usize, u8),
}
#[derive(Clone, Debug, PartialEq, Eq)]
enum Op {
    Read(u64, usize, bool),
    Write(u64, usize, bool),
    Drop(u64, DropData),
    FlushStripes(u64, u64),
    FlushEnd,
    Sync,
    Flush,
    Barrier,
    Discard,
    Invalidate(u64, usize),
    InvalidateAll,
    Cancel(u64, usize),
    Resize(u64),
    ReadDirect(u64, usize),
    Len,
    CheckIo,
}
fn op_str(o: &Op) -> String {
    match o {
        Op::Read(a, l, c) => format!("r {a:x} {l:x} {}", if *c { "c" } else { "n" }),
        Op::Write(a, l, w) => format!("w {a:x} {l:x} {}", u8::from(*w)),
        Op::Drop(a, DropData::Full(p)) => format!("d {a:x} F {p:x}"),
        Op::Drop(a, DropData::Patch(j, v)) => format!("d {a:x} P {j:x} {v:x}"),
        Op::FlushStripes(j, k) => format!("fs {j:x} {k:x}"),
        Op::FlushEnd => "fe".into(),
        Op::Sync => "sy".into(),
        Op::Flush => "fl".into(),
        Op::Barrier => "ba".into(),
        Op::Discard => "di".into(),
        Op::Invalidate(a, l) => format!("iv {a:x} {l:x}"),
        Op::InvalidateAll => "ia".into(),
        Op::Cancel(a, l) => format!("ca {a:x} {l:x}"),
        Op::Resize(n) => format!("rs {n:x}"),
        Op::ReadDirect(a, l) => format!("rd {a:x} {l:x}"),
        Op::Len => "ln".into(),
        Op::CheckIo => "ck".into(),
    }
}

type Range = (u64, u64);
fn overlap(a: Range, b: Range) -> bool {
    !(a.1 == 0 || b.1 == 0 || a.0 + a.1 <= b.0 || b.0 + b.1 <= a.0)
}
fn compat(l: &[Range], r: Range) -> bool {
    l.iter().all(|a| *a == r || !overlap(*a, r))
}
fn no_overlap(l: &[Range], r: Range) -> bool {
    l.iter().all(|a| !overlap(*a, r))
}
fn radd(l: &mut Vec<Range>, r: Range) {
    if !l.contains(&r) {
        l.push(r);
    }
}
/// the usage protocol of coq/Storage/Cache.v (`proto_step`), re-implemented for the generator; the driver
/// re-checks every program with the extracted `proto_step`
#[derive(Clone, Debug, Default)]
struct Ghost {
    rc: Vec<Range>,
    wb: Vec<Range>,
    out: Vec<Range>,
    unc: Vec<u64>,
    poison: Vec<Range>,
    flushing: Option<u64>,
    len: u64,
}
impl Ghost {
    fn step(&mut self, ps: u64, o: &Op, droplen: u64) -> bool {
        match o {
            Op::Read(a, l, c) => {
                let r = (*a, *l as u64);
                if !(r.1 > 0 && r.0 + r.1 <= self.len && compat(&self.rc, r) && compat(&self.wb, r)
                    && no_overlap(&self.out, r) && no_overlap(&self.poison, r) && (!*c || !self.unc.contains(a)))
                {
                    return false;
                }
                radd(&mut self.rc, r);
            }
            Op::Write(a, l, w) => {
                let r = (*a, *l as u64);
                if !(self.flushing.is_none() && r.1 > 0 && a % ps == 0 && r.0 + r.1 <= self.len
                    && compat(&self.rc, r) && compat(&self.wb, r) && no_overlap(&self.out, r)
                    && (*w || no_overlap(&self.poison, r)))
                {
                    return false;
                }
                self.rc.retain(|x| *x != r);
                radd(&mut self.wb, r);
                self.out.push(r);
                self.unc.push(*a);
            }
            Op::Drop(a, _) => {
                let r = (*a, droplen);
                if !(self.flushing.is_none() && self.out.contains(&r)) {
                    return false;
                }
                self.out.retain(|x| *x != r);
                self.poison.retain(|p| !(r.0 <= p.0 && p.0 + p.1 <= r.0 + r.1));
            }
            Op::FlushStripes(j, k) => {
                let cur = self.flushing.unwrap_or(0);
                if !(*j == cur && j <= k && *k <= STRIPES && self.out.is_empty()) {
                    return false;
                }
                let mut v = self.wb.clone();
                v.extend(self.rc.iter().copied());
                self.rc = v;
                self.flushing = Some(*k);
            }
            Op::FlushEnd => {
                if self.flushing != Some(STRIPES) {
                    return false;
                }
                let mut v = std::mem::take(&mut self.wb);
                v.extend(self.rc.iter().copied());
                self.rc = v;
                self.unc.clear();
                self.flushing = None;
            }
            Op::Sync | Op::Len | Op::CheckIo => {}
            Op::Flush => {
                if !(self.flushing.is_none() && self.out.is_empty()) {
                    return false;
                }
                let mut v = std::mem::take(&mut self.wb);
                v.extend(self.rc.iter().copied());
                self.rc = v;
                self.unc.clear();
            }
            Op::Barrier => {
                if !(self.flushing.is_none() && self.out.is_empty()) {
                    return false;
                }
                self.unc.clear();
            }
            Op::Discard => {
                if !(self.flushing.is_none() && self.out.is_empty()) {
                    return false;
                }
                let mut v = std::mem::take(&mut self.wb);
                v.extend(self.poison.iter().copied());
                self.poison = v;
                self.unc.clear();
            }
            Op::Invalidate(a, l) => {
                let r = (*a, *l as u64);
                if !(r.1 > 0 && compat(&self.rc, r)) {
                    return false;
                }
                self.rc.retain(|x| *x != r);
            }
            Op::InvalidateAll => self.rc.clear(),
            Op::Cancel(a, l) => {
                let r = (*a, *l as u64);
                if !(self.flushing.is_none() && r.1 > 0 && a % ps == 0 && compat(&self.wb, r) && no_overlap(&self.out, r)) {
                    return false;
                }
                if self.wb.contains(&r) {
                    self.poison.insert(0, r);
                }
                self.wb.retain(|x| *x != r);
            }
            Op::Resize(n) => {
                if !(self.flushing.is_none()
                    && self.wb.iter().all(|a| a.0 + a.1 <= *n)
                    && self.out.iter().all(|a| a.0 + a.1 <= *n)
                    && self.rc.iter().all(|a| a.0 + a.1 <= *n || *n <= a.0))
                {
                    return false;
                }
                self.rc.retain(|a| a.0 < *n);
                self.len = *n;
            }
            Op::ReadDirect(a, l) => {
                let r = (*a, *l as u64);
                if !(r.0 + r.1 <= self.len && no_overlap(&self.wb, r) && no_overlap(&self.poison, r)) {
                    return false;
                }
            }
        }
        true
    }
}

// ------------------------------------------------------------------ one program on the real crate
fn err_str(e: &StorageError) -> &'static str {
    match e {
        StorageError::Io(_) => "err:io",
        StorageError::PreviousIo => "err:prev",
        StorageError::DatabaseClosed => "err:closed",
        _ => "err:other",
    }
}
fn state_str(s: &VCacheState) -> String {
    let mut t = String::from("rc=");
    for (i, (k, l)) in s.read_cache.iter().enumerate() {
        let _ = write!(t, "{}{k:x}:{l:x}", if i > 0 { "," } else { "" });
    }
    t.push_str(" wb=");
    for (i, (k, l)) in s.write_buffer.iter().enumerate() {
        match l {
            Some(l) => {
                let _ = write!(t, "{}{k:x}:{l:x}", if i > 0 { "," } else { "" });
            }
            None => {
                let _ = write!(t, "{}{k:x}:T", if i > 0 { "," } else { "" });
            }
        }
    }
    let _ = write!(t, " rcb={:x} wbb={:x} cpb={} ns={:x} iof={}", s.read_cache_bytes, s.write_buffer_bytes,
                   u8::from(s.committed_pages_buffered), s.next_eviction_stripe, u8::from(s.io_failed));
    t
}
fn evs_str(evs: &[(BEv, bool)]) -> String {
    let mut t = String::new();
    for (i, (e, be)) in evs.iter().enumerate() {
        if i > 0 {
            t.push(',');
        }
        let ok = if e.ok { '+' } else { '-' };
        match &e.kind {
            BKind::Len => {
                let _ = write!(t, "L{ok}");
            }
            BKind::Read { off, len } => {
                let _ = write!(t, "R{off:x}:{len:x}{ok}");
            }
            BKind::Write { off, len, hash } => {
                let _ = write!(t, "{}{off:x}:{len:x}:{hash:x}{ok}", if *be { "w" } else { "W" });
            }
            BKind::SetLen(n) => {
                let _ = write!(t, "S{n:x}{ok}");
            }
            BKind::Sync => {
                let _ = write!(t, "Y{ok}");
            }
        }
    }
    t
}

struct Stats {
    programs: u64,
    calls: u64,
    kinds: BTreeMap<&'static str, u64>,
    markers: BTreeMap<&'static str, u64>,
    nontrivial: BTreeSet<u64>,
    budgets: BTreeMap<String, u64>,
    violations: Vec<String>,
    samples: Vec<String>,
}
impl Stats {
    fn mark(&mut self, m: &'static str) {
        *self.markers.entry(m).or_default() += 1;
    }
    fn violation(&mut self, key: &str, what: String, prog: &Prog, upto: usize) {
        if self.violations.len() < 40 {
            let calls: Vec<String> = prog.lines.iter().take(upto + 1).map(|l| l.split(" |").next().unwrap_or("").to_string()).collect();
            self.violations.push(format!(
                "{{\"key\":\"{key}\",\"what\":\"{}\",\"program\":{},\"header\":\"{}\",\"calls\":\"{}\"}}",
                what.replace('"', "'"), prog.id, prog.header, calls.join("; ")));
        }
    }
}

struct Prog {
    id: u64,
    header: String,
    lines: Vec<String>,
    impls: Vec<String>,
}

struct Sys {
    ps: u64,
    max: usize,
    cf: Arc<VCachedFile>,
    be: Arc<Mutex<Inner>>,
    ideal: Vec<u8>,
    ghost: Ghost,
    outs: BTreeMap<u64, VWritablePage>,
    dead: bool,     // a call panicked: stop
    latched: bool,  // a required failure was seen
}

struct CallOut {
    res: String,
    evs: Vec<(BEv, bool)>,
    boks: Vec<bool>,
    data: Option<Vec<u8>>,
    is_err: bool,
}

impl Sys {
    fn new(ps: u64, max: usize, flen: u64, fseed: u64) -> Sys {
        let data: Vec<u8> = (0..flen).map(|i| pat0(fseed, i)).collect();
        let be = Arc::new(Mutex::new(Inner { data: data.clone(), evs: vec![], answers: VecDeque::new(), gate: None }));
        let cf = VCachedFile::new(Box::new(CBackend(be.clone())), ps, max).unwrap();
        Sys { ps, max, cf: Arc::new(cf), be, ideal: data, ghost: Ghost { len: flen, ..Default::default() },
              outs: BTreeMap::new(), dead: false, latched: false }
    }
    fn state(&self) -> VCacheState {
        self.cf.state()
    }
    /// run one call on the real crate (main thread), collecting result + backend events with their best-effort flag
    fn call(&mut self, op: &Op) -> CallOut {
        latch_log_start();
        self.be.lock().unwrap().evs.clear();
        let cf = self.cf.clone();
        let mut data = None;
        let mut is_err = false;
        let outs = &mut self.outs;
        let r = catch(|| -> String {
            match op {
                Op::Read(a, l, c) => match cf.read(*a, *l, *c) {
                    Ok(b) => {
                        data = Some(b.to_vec());
                        format!("d:{:x}:{:x}", b.len(), fnv_bytes(&b))
                    }
                    Err(e) => {
                        is_err = true;
                        err_str(&e).into()
                    }
                },
                Op::ReadDirect(a, l) => match cf.read_direct(*a, *l) {
                    Ok(b) => {
                        data = Some(b.clone());
                        format!("d:{:x}:{:x}", b.len(), fnv_bytes(&b))
                    }
                    Err(e) => {
                        is_err = true;
                        err_str(&e).into()
                    }
                },
                Op::Write(a, l, w) => match cf.write(*a, *l, *w) {
                    Ok(p) => {
                        let b = p.mem().to_vec();
                        let s = format!("d:{:x}:{:x}", b.len(), fnv_bytes(&b));
                        data = Some(b);
                        outs.insert(*a, p);
                        s
                    }
                    Err(e) => {
                        is_err = true;
                        err_str(&e).into()
                    }
                },
                Op::Drop(a, dd) => {
                    let mut p = outs.remove(a).expect("drop of a page that is not outstanding");
                    match dd {
                        DropData::Full(x) => {
                            for (j, b) in p.mem_mut().iter_mut().enumerate() {
                                *b = pat(*x, j as u64);
                            }
                        }
                        DropData::Patch(j, v) => p.mem_mut()[*j] = *v,
                    }
                    data = Some(p.mem().to_vec());
                    drop(p);
                    "ok".into()
                }
                Op::Flush => unit(cf.flush(), &mut is_err),
                Op::Sync => unit(cf.sync_file(), &mut is_err),
                Op::Barrier => {
                    cf.write_barrier();
                    "ok".into()
                }
                Op::Discard => {
                    cf.discard_write_buffer();
                    "ok".into()
                }
                Op::Invalidate(a, l) => {
                    cf.invalidate_cache(*a, *l);
                    "ok".into()
                }
                Op::InvalidateAll => {
                    cf.invalidate_cache_all();
                    "ok".into()
                }
                Op::Cancel(a, l) => {
                    cf.cancel_pending_write(*a, *l);
                    "ok".into()
                }
                Op::Resize(n) => unit(cf.resize(*n), &mut is_err),
                Op::Len => match cf.raw_file_len() {
                    Ok(n) => format!("len:{n:x}"),
                    Err(e) => {
                        is_err = true;
                        err_str(&e).into()
                    }
                },
                Op::CheckIo => unit(cf.check_io_errors(), &mut is_err),
                Op::FlushStripes(..) | Op::FlushEnd => unreachable!(),
            }
        });
        let log = latch_log_take();
        let bevs = std::mem::take(&mut self.be.lock().unwrap().evs);
        let mut evs = vec![];
        let mut boks = vec![];
        let mut last_be = false;
        let mut it = bevs.into_iter();
        for e in &log {
            match e {
                VLatchEvent::Enter { call, .. } => last_be = *call == VLatchCall::WriteBestEffort,
                VLatchEvent::Backend { .. } => {
                    if let Some(b) = it.next() {
                        boks.push(b.inj);
                        evs.push((b, last_be));
                    }
                }
            }
        }
        for b in it {
            // a backend call without a log entry (cannot happen on this thread)
            boks.push(b.inj);
            evs.push((b, false));
        }
        let res = match r {
            Ok(s) => s,
            Err(m) => {
                self.dead = true;
                format!("panic:{}", m.chars().take(60).collect::<String>().replace([' ', '|'], "_"))
            }
        };
        CallOut { res, evs, boks, data, is_err }
    }
}
fn unit(r: Result<(), StorageError>, is_err: &mut bool) -> String {
    match r {
        Ok(()) => "ok".into(),
        Err(e) => {
            *is_err = true;
            err_str(&e).into()
        }
    }
}

/// derive the oracle part of a case line from what was observed
fn oracle_str(before: &VCacheState, after: &VCacheState, op: &Op, out: &CallOut) -> String {
    let mut t = String::from(" | R");
    let mut b: BTreeMap<u64, usize> = before.read_cache.iter().copied().collect();
    if let Op::Read(a, l, _) = op {
        // the miss path inserts the page and may evict it again at once
        if out.evs.iter().any(|(e, _)| matches!(e.kind, BKind::Read { .. } if e.ok)) {
            b.insert(*a, *l);
        }
    }
    let a: BTreeSet<u64> = after.read_cache.iter().map(|x| x.0).collect();
    let mut ev: Vec<(usize, u64)> = b.iter().filter(|(k, _)| !a.contains(k)).map(|(k, l)| (*l, *k)).collect();
    if matches!(op, Op::Write(..) | Op::Read(..)) {
        if let Op::Write(wa, _, _) = op {
            ev.retain(|x| x.1 != *wa); // removed by write() itself, not evicted
        }
        ev.sort_unstable();
        for (_, k) in ev {
            let _ = write!(t, " {k:x}");
        }
    }
    t.push_str(" | W");
    for (e, _) in &out.evs {
        if let BKind::Write { off, .. } = e.kind {
            let _ = write!(t, " {off:x}");
        }
    }
    t.push_str(" | B");
    for k in &out.boks {
        let _ = write!(t, " {}", u8::from(*k));
    }
    // hint for choosing the unobservable part of the oracle (`giveup`): the result and next_eviction_stripe seen
    let _ = write!(t, " | H {} {:x}", out.res, after.next_eviction_stripe);
    t
}

struct Gen<'a> {
    r: &'a mut Rng,
    ps: u64,
    npages: u64,
    known: Vec<Range>,
    fault: bool,
    pattern: u64,
}

fn run_program(id: u64, st: &mut Stats, r: &mut Rng, fault: bool, scenario: u8) -> Prog {
    // configuration
    let small = r.chance(1, 2);
    let ps: u64 = if small { *r.pick(&[8u64, 16, 8]) } else { *r.pick(&[512u64, 512, 512, 4096]) };
    let npages: u64 = if ps == 4096 { r.range(6, 12) } else if small { r.range(16, 420) } else if r.chance(1, 8) { r.range(132, 280) } else { r.range(8, 64) };
    let max: usize = match r.below(8) {
        0 => 0,
        1 => ps as usize,
        2 | 3 => 4 * ps as usize,
        4 => 2 * ps as usize,
        5 => 8 * ps as usize,
        6 => 3 * ps as usize + 1,
        _ => 1 << 20,
    };
    let max = if scenario == 1 && max < 4 * ps as usize { 1 << 20 } else { max };
    let flen = npages * ps;
    let fseed = r.below(256);
    let mut sys = Sys::new(ps, max, flen, fseed);
    let header = format!("P {id:x} {ps:x} {max:x} {flen:x} {fseed:x}");
    let mut prog = Prog { id, header: header.clone(), lines: vec![], impls: vec![] };
    *st.budgets.entry(format!("ps={ps} max={}", if max == 1 << 20 { "1MiB".to_string() } else { format!("{}p", max as f64 / ps as f64) })).or_default() += 1;
    let nops = r.range(30, if ps == 4096 { 70 } else { 160 });
    let mut g = Gen { r, ps, npages, known: vec![], fault, pattern: 1 };
    let mut cn = Counters::default();
    let mut steps = 0;
    let mut after_latch = 0;
    while steps < nops && !sys.dead && after_latch < 6 {
        steps += 1;
        if sys.latched {
            after_latch += 1;
        }
        let ops = if scenario == 1 && steps == nops * 2 / 3 {
            // set the stage for the blocked-flush scenario: no page outstanding, a few committed pages buffered
            let mut v: Vec<Op> = sys.outs.keys().map(|a| Op::Drop(*a, DropData::Full(0x33))).collect();
            for i in 0..5u64 {
                let k = (g.r.below(g.npages.min(120)) + i) % g.npages;
                v.push(Op::Write(k * ps, ps as usize, true));
                v.push(Op::Drop(k * ps, DropData::Full(0x40 + i)));
            }
            v.push(Op::Barrier);
            v
        } else {
            gen_ops(&mut g, &sys)
        };
        for op in ops {
            if sys.dead {
                break;
            }
            do_op(&mut sys, &mut prog, st, &mut g, op, &mut cn);
        }
        if scenario == 1 && steps == nops * 2 / 3 && !sys.dead {
            concurrent_flush(&mut sys, &mut prog, st, &mut g);
        }
    }
    // end of program: flush everything (when possible) and compare the file with the plain array
    if !sys.dead {
        let outs: Vec<u64> = sys.outs.keys().copied().collect();
        for a in outs {
            let op = Op::Drop(a, DropData::Full(0x55));
            let droplen = sys.ghost.out.iter().find(|x| x.0 == a).map_or(0, |x| x.1);
            let mut gh = sys.ghost.clone();
            if gh.step(ps, &op, droplen) {
                let before = sys.state();
                let out = sys.call(&op);
                let after = sys.state();
                prog.lines.push(format!("{}{}", op_str(&op), oracle_str(&before, &after, &op, &out)));
                prog.impls.push(format!("r={} ev={} {}", out.res, evs_str(&out.evs), state_str(&after)));
                sys.ghost = gh;
                let d = out.data.as_ref().unwrap();
                sys.ideal[a as usize..a as usize + d.len()].copy_from_slice(d);
            }
        }
        if sys.ghost.flushing.is_none() && sys.ghost.out.is_empty() {
            let op = Op::Flush;
            let mut gh = sys.ghost.clone();
            gh.step(ps, &op, 0);
            let before = sys.state();
            let out = sys.call(&op);
            let after = sys.state();
            let idx = prog.lines.len();
            prog.lines.push(format!("{}{}", op_str(&op), oracle_str(&before, &after, &op, &out)));
            prog.impls.push(format!("r={} ev={} {}", out.res, evs_str(&out.evs), state_str(&after)));
            if !out.is_err {
                sys.ghost = gh;
                let file = sys.be.lock().unwrap().data.clone();
                if !after.write_buffer.is_empty() || after.committed_pages_buffered {
                    st.violation("cache-flush-incomplete", format!("after flush() = Ok: write buffer {:?}, committed_pages_buffered = {}", after.write_buffer, after.committed_pages_buffered), &prog, idx);
                }
                if file.len() != sys.ideal.len() {
                    st.violation("cache-lost-page", format!("file length {} != {}", file.len(), sys.ideal.len()), &prog, idx);
                } else if let Some(i) = (0..file.len()).find(|i| file[*i] != sys.ideal[*i] && !sys.ghost.poison.iter().any(|p| p.0 <= *i as u64 && (*i as u64) < p.0 + p.1)) {
                    st.violation("cache-lost-page", format!("after flush() = Ok the file differs from the last writes at byte {i:#x} (file {:02x}, last written {:02x}): a buffered page was lost", file[i], sys.ideal[i]), &prog, idx);
                }
            }
        }
    }
    let fh = fnv_bytes(&sys.be.lock().unwrap().data);
    prog.lines.push("E".into());
    prog.impls.push(format!("file={fh:x}"));
    st.programs += 1;
    if cn.evictions > 0 && (cn.clean_from_buffer > 0 || cn.be_wb > 0 || cn.nondurable > 0) {
        st.nontrivial.insert(fnv_bytes(prog.lines.join("\n").as_bytes()));
    }
    if st.samples.len() < 3 && prog.lines.len() < 60 && cn.evictions > 0 {
        st.samples.push(format!("{} :: {}", header, prog.lines.iter().map(|l| l.split(" |").next().unwrap_or("")).collect::<Vec<_>>().join("; ")));
    }
    prog
}

#[derive(Default)]
struct Counters {
    evictions: u64,
    clean_from_buffer: u64,
    be_wb: u64,
    nondurable: u64,
}

/// one call: protocol filter, run on the real crate, S3 checks, markers, commit to the oracle state
fn do_op(sys: &mut Sys, prog: &mut Prog, st: &mut Stats, g: &mut Gen, op: Op, cn: &mut Counters) {
    let ps = sys.ps;
    let max = sys.max;
    let fault = g.fault;
    let droplen = if let Op::Drop(a, _) = &op { sys.ghost.out.iter().find(|x| x.0 == *a).map_or(0, |x| x.1) } else { 0 };
    // a patch position is drawn for the range the generator had in mind; the page that is actually outstanding
    // at this offset may be a shorter one (an earlier write() of the same offset): keep the position inside it
    let op = match op {
        Op::Drop(a, DropData::Patch(j, v)) if droplen > 0 => Op::Drop(a, DropData::Patch(j % droplen as usize, v)),
        o => o,
    };
    let mut gh = sys.ghost.clone();
    if !gh.step(ps, &op, droplen) {
        return;
    }
    // faults: answers for the backend calls of this call
    if fault && !sys.latched && g.r.chance(1, 6) {
        let n = g.r.range(1, 5);
        let mut q = VecDeque::new();
        for _ in 0..n {
            q.push_back(!g.r.chance(1, 3));
        }
        sys.be.lock().unwrap().answers = q;
    }
    let before = sys.state();
    if fault && !sys.latched && before.committed_pages_buffered && matches!(op, Op::Read(..))
        && before.write_buffer.iter().any(|x| x.1.is_some()) && g.r.chance(1, 3)
    {
        // the read succeeds, the first (best-effort) writeback of a committed page fails, maybe the second too
        let second = !g.r.chance(1, 3);
        sys.be.lock().unwrap().answers = VecDeque::from(vec![true, false, second]);
    }
    if fault && !sys.latched && matches!(op, Op::Resize(_)) && g.r.chance(1, 2) {
        // len() succeeds, set_len() fails
        sys.be.lock().unwrap().answers = VecDeque::from(vec![true, false]);
    }
    let out = sys.call(&op);
    sys.be.lock().unwrap().answers.clear();
    let after = sys.state();
    st.calls += 1;
    *st.kinds.entry(kind_name(&op)).or_default() += 1;
    let idx = prog.lines.len();
    prog.lines.push(format!("{}{}", op_str(&op), oracle_str(&before, &after, &op, &out)));
    prog.impls.push(format!("r={} ev={} {}", out.res, evs_str(&out.evs), state_str(&after)));
    // ---- S3: the property itself, against the plain array
    let req_failed = out.evs.iter().any(|(e, be)| !e.ok && !*be);
    let be_failed = out.evs.iter().any(|(e, be)| !e.ok && *be);
    if out.res.starts_with("panic") {
        st.violation("cache-panic", format!("call {} panicked on a program inside the usage protocol: {}", op_str(&op), out.res), prog, idx);
    }
    if let (Some(d), false) = (&out.data, out.is_err) {
        let (a, l) = match &op {
            Op::Read(a, l, _) | Op::ReadDirect(a, l) | Op::Write(a, l, _) => (*a as usize, *l),
            _ => (0, 0),
        };
        let check = match &op {
            Op::Read(..) | Op::ReadDirect(..) => true,
            Op::Write(_, _, w) => !*w,
            _ => false,
        };
        if check && d[..] != sys.ideal[a..a + l] {
            let first = (0..l).find(|j| d[*j] != sys.ideal[a + *j]).unwrap_or(0);
            st.violation("cache-stale-read",
                format!("{} returned bytes that are not the last write to that page (first difference at byte {first}: got {:02x}, last written {:02x}); cache picture before the call: {}",
                        op_str(&op), d[first], sys.ideal[a + first], state_str(&before)), prog, idx);
        }
    }
    if after.read_cache_bytes > max || after.read_cache.iter().map(|x| x.1).sum::<usize>() > max {
        st.violation("cache-budget", format!("read cache holds {} bytes (counter {}) > max_cache_size {max} after {}",
            after.read_cache.iter().map(|x| x.1).sum::<usize>(), after.read_cache_bytes, op_str(&op)), prog, idx);
    }
    if be_failed && !req_failed {
        st.mark("best_effort_writeback_failed");
        if after.io_failed {
            st.violation("cache-be-latched", format!("a failed best-effort writeback latched the backend during {}", op_str(&op)), prog, idx);
        }
        if out.is_err {
            st.violation("cache-be-propagated", format!("a failed best-effort writeback made {} return {}", op_str(&op), out.res), prog, idx);
        }
    }
    if req_failed {
        st.mark("required_call_failed");
        if !out.is_err {
            st.violation("cache-required-swallowed", format!("a required backend call failed during {} but the call returned {}", op_str(&op), out.res), prog, idx);
        }
        if !after.io_failed {
            st.violation("cache-required-not-latched", format!("a required backend call failed during {} but the backend is not latched", op_str(&op)), prog, idx);
        }
        sys.latched = true;
    }
    if before.io_failed && !out.evs.is_empty() {
        st.violation("cache-call-after-latch", format!("{} reached the backend although the latch was set", op_str(&op)), prog, idx);
    }
    // ---- markers
    if let Op::Read(a, _, c) = &op {
        let had_read = out.evs.iter().any(|(e, _)| matches!(e.kind, BKind::Read { .. }));
        let in_wb = before.write_buffer.iter().any(|x| x.0 == *a);
        let in_rc = before.read_cache.iter().any(|x| x.0 == *a);
        if !had_read && !out.is_err {
            if !*c && in_wb {
                st.mark("read_none_from_write_buffer");
            } else if in_rc {
                st.mark("read_hit_read_cache");
            } else if *c && in_wb {
                st.mark("read_clean_from_write_buffer");
                cn.clean_from_buffer += 1;
            }
        } else if had_read {
            st.mark("read_miss_backend");
            if !out.is_err && !after.read_cache.iter().any(|x| x.0 == *a) {
                st.mark("read_miss_not_cached_over_budget");
            }
        }
    }
    let nw_be = out.evs.iter().filter(|(e, be)| *be && matches!(e.kind, BKind::Write { .. })).count() as u64;
    if nw_be > 0 {
        st.mark("best_effort_writeback");
        cn.be_wb += nw_be;
    }
    if matches!(op, Op::Write(..)) && out.evs.iter().any(|(e, be)| !*be && matches!(e.kind, BKind::Write { .. })) {
        st.mark("write_evicts_buffered_page_required");
        cn.evictions += 1;
    }
    let rc_evicted = before.read_cache.iter().filter(|x| !after.read_cache.iter().any(|y| y.0 == x.0)).count();
    if matches!(op, Op::Read(..) | Op::Write(..)) && rc_evicted > usize::from(matches!(op, Op::Write(..))) {
        st.mark("read_cache_eviction");
        cn.evictions += 1;
    }
    if matches!(op, Op::Barrier) && after.committed_pages_buffered {
        st.mark("nondurable_commit_flag_set");
        cn.nondurable += 1;
    }
    if matches!(op, Op::Write(..)) && before.write_buffer.iter().any(|x| x.1.is_none()) {
        st.mark("write_with_other_page_outstanding");
    }
    // ---- commit to the oracle state
    if !out.is_err && !sys.dead {
        sys.ghost = gh;
        match &op {
            Op::Drop(a, _) => {
                let d = out.data.as_ref().unwrap();
                let a = *a as usize;
                sys.ideal[a..a + d.len()].copy_from_slice(d);
            }
            Op::Resize(n) => {
                sys.ideal.resize(*n as usize, 0);
                g.npages = *n / ps;
            }
            Op::Write(a, l, _) => {
                if !g.known.contains(&(*a, *l as u64)) {
                    g.known.push((*a, *l as u64));
                }
            }
            Op::Read(a, l, _) => {
                if !g.known.contains(&(*a, *l as u64)) {
                    g.known.push((*a, *l as u64));
                }
            }
            Op::Discard => {
                let poison = sys.ghost.poison.clone();
                g.known.retain(|x| no_overlap(&poison, *x));
            }
            _ => {}
        }
    } else if out.is_err {
        // a failed call: the usage protocol treats it as not made, except that a failed write() has
        // dropped the page from the read cache (harmless) and a failed flush may have flushed some stripes
        if matches!(op, Op::Flush) {
            // proto_fail: some stripes may already have been moved into the read cache
            let mut v = sys.ghost.wb.clone();
            v.extend(sys.ghost.rc.iter().copied());
            sys.ghost.rc = v;
        }
    }
}

fn kind_name(o: &Op) -> &'static str {
    match o {
        Op::Read(_, _, true) => "read_clean",
        Op::Read(_, _, false) => "read_none",
        Op::Write(_, _, true) => "write_overwrite",
        Op::Write(_, _, false) => "write_modify",
        Op::Drop(..) => "drop_writable_page",
        Op::FlushStripes(..) => "flush_stripes",
        Op::FlushEnd => "flush_end",
        Op::Sync => "sync_file",
        Op::Flush => "flush",
        Op::Barrier => "write_barrier",
        Op::Discard => "discard_write_buffer",
        Op::Invalidate(..) => "invalidate_cache",
        Op::InvalidateAll => "invalidate_cache_all",
        Op::Cancel(..) => "cancel_pending_write",
        Op::Resize(_) => "resize",
        Op::ReadDirect(..) => "read_direct",
        Op::Len => "raw_file_len",
        Op::CheckIo => "check_io_errors",
    }
}

/// candidate calls for one step (filtered afterwards by the usage protocol)
fn gen_ops(g: &mut Gen, sys: &Sys) -> Vec<Op> {
    let ps = g.ps;
    let r = &mut *g.r;
    // a fresh range: buddy-aligned, order 0..2, biased to collide in one lock stripe (offsets = k * 131 * ps / gcd)
    let fresh = |r: &mut Rng, npages: u64| -> Range {
        let order = if r.chance(1, 5) { r.range(1, 2) } else { 0 };
        let n = 1u64 << order;
        let slots = (npages / n).max(1);
        let mut k = r.below(slots);
        if r.chance(1, 2) && slots > STRIPES {
            // same stripe as page j: indices j, j+131, j+262 (ps and 131 are coprime)
            let j = r.below(4);
            k = (j + STRIPES * r.below(slots / STRIPES + 1)).min(slots - 1);
        }
        (k * n * ps, n * ps)
    };
    let pick_known = |r: &mut Rng, known: &[Range]| -> Option<Range> {
        if known.is_empty() { None } else { Some(known[r.below(known.len() as u64) as usize]) }
    };
    g.pattern += 1;
    let patt = g.pattern.wrapping_mul(37) & 0xff;
    if r.chance(1, 14) {
        // a burst of clean reads of distinct ranges (fills the read cache; with > 131 slots: all in one lock stripe)
        let n = r.range(3, 7);
        let j = r.below(4);
        let mut v = vec![];
        for i in 0..n {
            let k = if g.npages > STRIPES && r.chance(2, 3) { (j + STRIPES * (i % (g.npages / STRIPES + 1))).min(g.npages - 1) } else { r.below(g.npages) };
            let a = k * ps;
            v.push(Op::Read(a, ps as usize, !sys.ghost.unc.contains(&a) && r.chance(5, 6)));
        }
        return v;
    }
    match r.below(100) {
        0..=27 => {
            // read a known page (hint per protocol) or a fresh range
            let rg = if r.chance(4, 5) { pick_known(r, &g.known).unwrap_or_else(|| fresh(r, g.npages)) } else { fresh(r, g.npages) };
            let clean_ok = !sys.ghost.unc.contains(&rg.0);
            let c = clean_ok && r.chance(3, 4);
            vec![Op::Read(rg.0, rg.1 as usize, c)]
        }
        28..=47 => {
            // allocate + initialise a page (overwrite = true), drop now or later
            let rg = fresh(r, g.npages);
            let mut v = vec![Op::Write(rg.0, rg.1 as usize, true)];
            if r.chance(4, 5) {
                v.push(Op::Drop(rg.0, DropData::Full(patt)));
            }
            v
        }
        48..=59 => {
            // modify a known page in place
            if let Some(rg) = pick_known(r, &g.known) {
                let mut v = vec![Op::Write(rg.0, rg.1 as usize, false)];
                if r.chance(4, 5) {
                    v.push(Op::Drop(rg.0, DropData::Patch(r.below(rg.1) as usize, (patt ^ 0xa5) as u8)));
                }
                v
            } else {
                vec![]
            }
        }
        60..=65 => {
            // drop an outstanding page
            if let Some((a, _)) = sys.outs.iter().nth(r.below(sys.outs.len().max(1) as u64) as usize) {
                vec![Op::Drop(*a, if r.chance(1, 2) { DropData::Full(patt) } else { DropData::Patch(0, patt as u8) })]
            } else {
                vec![]
            }
        }
        66..=73 => {
            // free a page: invalidate + cancel (page_manager.rs free_helper)
            if let Some(rg) = pick_known(r, &g.known) {
                g.known.retain(|x| *x != rg);
                if r.chance(9, 10) {
                    vec![Op::Invalidate(rg.0, rg.1 as usize), Op::Cancel(rg.0, rg.1 as usize)]
                } else {
                    vec![Op::Cancel(rg.0, rg.1 as usize), Op::Invalidate(rg.0, rg.1 as usize)]
                }
            } else {
                vec![]
            }
        }
        74..=81 => vec![Op::Barrier],
        82..=87 => vec![Op::Flush],
        88..=89 => {
            if g.fault { vec![Op::Sync] } else { vec![Op::Discard, Op::InvalidateAll] }
        }
        90..=91 => vec![Op::InvalidateAll],
        92..=93 => {
            if let Some(rg) = pick_known(r, &g.known) { vec![Op::Invalidate(rg.0, rg.1 as usize)] } else { vec![] }
        }
        94..=95 => {
            // grow, or shrink to the end of the last live range
            if r.chance(1, 2) {
                vec![Op::Resize((g.npages + r.range(1, 8)) * ps)]
            } else {
                let end = sys.ghost.rc.iter().chain(sys.ghost.wb.iter()).chain(sys.ghost.out.iter()).map(|x| x.0 + x.1).max().unwrap_or(0);
                let n = (end.div_ceil(ps) + r.below(3)).max(4);
                g.known.retain(|x| x.0 + x.1 <= n * ps);
                vec![Op::Resize(n * ps)]
            }
        }
        96 => {
            if let Some(rg) = pick_known(r, &g.known) { vec![Op::ReadDirect(rg.0, rg.1 as usize)] } else { vec![] }
        }
        97 => vec![Op::Len],
        98 => vec![Op::CheckIo],
        _ => vec![Op::Sync],
    }
}

/// Deterministic concurrent scenario: flush() runs on a second thread and blocks inside its FIRST backend write
/// (first non-empty stripe j, holding that stripe's lock); meanwhile the main thread reads pages. In the model this
/// is  fs 0 j ; reads ; fs j 131 ; fe ; sy.
fn concurrent_flush(sys: &mut Sys, prog: &mut Prog, st: &mut Stats, g: &mut Gen) {
    if !sys.ghost.out.is_empty() || sys.ghost.flushing.is_some() || sys.latched {
        return;
    }
    let before = sys.state();
    let Some(j) = before.write_buffer.iter().map(|x| x.0 % STRIPES).min() else { return };
    // committed pages buffered in later stripes, pages in the read cache, uncached pages
    let mut reads: Vec<Op> = vec![];
    for (a, l) in &before.write_buffer {
        if a % STRIPES > j && !sys.ghost.unc.contains(a) && reads.len() < 4 {
            reads.push(Op::Read(*a, l.unwrap(), true));
        }
    }
    if reads.is_empty() {
        return;
    }
    for (a, l) in before.read_cache.iter().take(2) {
        if a % STRIPES != j {
            reads.push(Op::Read(*a, *l, g.r.chance(1, 2) && !sys.ghost.unc.contains(a)));
        }
    }
    let big = sys.max >= 1 << 20;
    if big {
        for rg in g.known.clone().iter().take(3) {
            if rg.0 % STRIPES != j {
                reads.push(Op::Read(rg.0, rg.1 as usize, !sys.ghost.unc.contains(&rg.0)));
            }
        }
    }
    let (etx, erx) = channel();
    let (rtx, rrx) = channel();
    sys.be.lock().unwrap().gate = Some(Gate { entered: etx, release: rrx });
    sys.be.lock().unwrap().evs.clear();
    let cf = sys.cf.clone();
    let th = std::thread::spawn(move || cf.flush().is_ok());
    // wait until the flush thread is inside its first write (or finished without writing)
    let entered = erx.recv_timeout(std::time::Duration::from_secs(20)).is_ok();
    if !entered {
        let _ = rtx.send(());
        let _ = th.join();
        sys.dead = true;
        return;
    }
    st.mark("concurrent_flush_scenarios");
    let mut gh = sys.ghost.clone();
    let op0 = Op::FlushStripes(0, j);
    if !gh.step(sys.ps, &op0, 0) {
        let _ = rtx.send(());
        let _ = th.join();
        sys.dead = true;
        return;
    }
    prog.lines.push(format!("{} | R | W | B", op_str(&op0)));
    prog.impls.push(format!("r=ok ev= {}", state_str(&before)));
    for op in reads {
        let mut g2 = gh.clone();
        if !g2.step(sys.ps, &op, 0) {
            continue;
        }
        // the flush thread's events are recorded only when its write returns, so the backend log now holds only ours
        let b = BTreeMap::<u64, usize>::new();
        let _ = b;
        let out = sys.call(&op);
        let idx = prog.lines.len();
        let mut t = format!("{} ~ | R | W | B", op_str(&op));
        for k in &out.boks {
            let _ = write!(t, " {}", u8::from(*k));
        }
        prog.lines.push(t);
        prog.impls.push(format!("r={} ev={} ~", out.res, evs_str(&out.evs)));
        st.mark("reads_during_blocked_flush");
        if let (Some(d), Op::Read(a, l, _)) = (&out.data, &op) {
            let a = *a as usize;
            if d[..] != sys.ideal[a..a + *l] {
                st.violation("cache-stale-read",
                    format!("{} issued while flush() is blocked in its first backend write (stripe {j}) returned bytes that are not the last write to that page (committed page still in the write buffer; committed_pages_buffered seen = {})",
                            op_str(&op), sys.cf.state().committed_pages_buffered), prog, idx);
            }
        }
        gh = g2;
    }
    sys.be.lock().unwrap().evs.clear();
    let _ = rtx.send(());
    let ok = th.join().unwrap_or(false);
    let bevs = std::mem::take(&mut sys.be.lock().unwrap().evs);
    let after = sys.state();
    let (wr, rest): (Vec<BEv>, Vec<BEv>) = bevs.into_iter().partition(|e| matches!(e.kind, BKind::Write { .. }));
    let wr: Vec<(BEv, bool)> = wr.into_iter().map(|e| (e, false)).collect();
    let rest: Vec<(BEv, bool)> = rest.into_iter().map(|e| (e, false)).collect();
    let op1 = Op::FlushStripes(j, STRIPES);
    gh.step(sys.ps, &op1, 0);
    let mut t = format!("{} ~ | R | W", op_str(&op1));
    for (e, _) in &wr {
        if let BKind::Write { off, .. } = e.kind {
            let _ = write!(t, " {off:x}");
        }
    }
    t.push_str(" | B");
    prog.lines.push(t);
    prog.impls.push(format!("r=ok ev={} ~", evs_str(&wr)));
    gh.step(sys.ps, &Op::FlushEnd, 0);
    prog.lines.push("fe ~ | R | W | B".into());
    prog.impls.push("r=ok ev= ~".into());
    prog.lines.push("sy | R | W | B".into());
    prog.impls.push(format!("r={} ev={} {}", if ok { "ok" } else { "err:io" }, evs_str(&rest), state_str(&after)));
    sys.ghost = gh;
}

fn main() {
    silence_panics();
    let mode = std::env::args().nth(1).unwrap_or("coherence".into());
    let n: u64 = std::env::args().nth(2).map(|s| s.parse().unwrap()).unwrap_or(100);
    let only: Option<u64> = std::env::args().nth(3).and_then(|s| s.parse().ok());
    let fault = mode == "faults";
    let mut master = Rng::new(seed_from_env() ^ if fault { 0xfa17 } else { 0xc0de });
    let mut st = Stats { programs: 0, calls: 0, kinds: BTreeMap::new(), markers: BTreeMap::new(), nontrivial: BTreeSet::new(),
                         budgets: BTreeMap::new(), violations: vec![], samples: vec![] };
    let mut cases = String::new();
    let mut impls = String::new();
    for id in 0..n {
        let mut r = master.fork(id);
        if only.is_some_and(|o| o != id) {
            continue;
        }
        // every 5th program of the coherence mode contains the blocked-flush scenario
        let scenario = u8::from(!fault && id % 5 == 4);
        let p = run_program(id, &mut st, &mut r, fault, scenario);
        cases.push_str(&p.header);
        cases.push('\n');
        impls.push_str(&p.header);
        impls.push('\n');
        for (a, b) in p.lines.iter().zip(p.impls.iter()) {
            cases.push_str(a);
            cases.push('\n');
            impls.push_str(b);
            impls.push('\n');
        }
    }
    std::fs::write("cache_cases.txt", cases).unwrap();
    std::fs::write("cache_impl.txt", impls).unwrap();
    std::fs::write("cache_violations.txt", st.violations.join("\n") + if st.violations.is_empty() { "" } else { "\n" }).unwrap();
    let mut s = String::new();
    let _ = writeln!(s, "mode={mode} programs={} calls={} distinct_nontrivial={} violations={}", st.programs, st.calls, st.nontrivial.len(), st.violations.len());
    let _ = writeln!(s, "kinds={:?}", st.kinds);
    let _ = writeln!(s, "markers={:?}", st.markers);
    let _ = writeln!(s, "budgets={:?}", st.budgets);
    for x in &st.samples {
        let _ = writeln!(s, "sample={x}");
    }
    std::fs::write("cache_stats.txt", &s).unwrap();
    print!("{s}");
}
