//! C12 harness: "check_integrity never certifies a damaged database".
//!
//! parent:  c12 run <budget>          generates histories/images, shards alterations over worker
//!                                     processes (a worker that aborts or hangs is recorded, not fatal),
//!                                     applies the S3 oracle and the S2 rule, writes c12_report.json
//! worker:  c12 worker <image file> <region size> <cps file>   reads alteration lines on stdin
//! replay:  c12 replay <history seed> <profile> <image tag> <off:hex,...>
#[path = "../c12_hist.rs"]
mod hist;
#[path = "../c12_fmt.rs"]
mod fmt;

use hist::*;
use redb::{ReadableDatabase as _, ReadableTable as _};
use rv_harness::{Rng, hex, seed_from_env, tier_is_thorough, unhex};
use std::cell::RefCell;
use std::collections::BTreeMap;
use std::fmt::Write as _;
use std::io::{BufRead, BufReader, Write};
use std::process::{Command, Stdio};
use std::sync::mpsc;
use std::time::Duration;

// ------------------------------------------------------------------ panic capture

thread_local! {
    static LAST_PANIC: RefCell<Option<(String, String)>> = const { RefCell::new(None) };
}

fn install_hook() {
    std::panic::set_hook(Box::new(|info| {
        let loc = info
            .location()
            .map(|l| {
                let f = l.file();
                // stable: path relative to the crate ("src/..."), independent of where the checkout lives
                let f = match f.rfind("/src/") {
                    Some(i) => &f[i + 1..],
                    None => f,
                };
                format!("{}:{}", f, l.line())
            })
            .unwrap_or_else(|| "?".into());
        let msg = if let Some(s) = info.payload().downcast_ref::<&str>() {
            (*s).to_string()
        } else if let Some(s) = info.payload().downcast_ref::<String>() {
            s.clone()
        } else {
            "<non-string panic>".to_string()
        };
        if std::env::var("C12_PANIC_TRACE").is_ok() {
            eprintln!("panic at {loc}: {msg}");
        }
        LAST_PANIC.with(|p| {
            let mut p = p.borrow_mut();
            if p.is_none() {
                *p = Some((loc, msg));
            }
        });
    }));
}

fn catch<T>(f: impl FnOnce() -> T) -> Result<T, (String, String)> {
    LAST_PANIC.with(|p| *p.borrow_mut() = None);
    match std::panic::catch_unwind(std::panic::AssertUnwindSafe(f)) {
        Ok(v) => Ok(v),
        Err(_) => Err(LAST_PANIC
            .with(|p| p.borrow_mut().take())
            .unwrap_or_else(|| ("?".into(), "?".into()))),
    }
}

// ------------------------------------------------------------------ evaluation of one (altered) image

fn strip_digits(s: &str) -> String {
    // error texts carry page numbers / offsets; the distribution wants the kind
    let mut out = String::new();
    let mut last_hash = false;
    for c in s.chars() {
        if c.is_ascii_digit() {
            if !last_hash {
                out.push('#');
            }
            last_hash = true;
        } else {
            out.push(c);
            last_hash = false;
        }
    }
    out.chars().take(70).collect()
}

fn err_kind(e: &redb::DatabaseError) -> String {
    match e {
        redb::DatabaseError::Storage(redb::StorageError::Corrupted(m)) => format!("corrupted: {}", strip_digits(m)),
        redb::DatabaseError::Storage(redb::StorageError::Io(m)) => format!("io: {}", strip_digits(&m.to_string())),
        other => strip_digits(&format!("{other}")),
    }
}

#[derive(Clone, Debug, Default)]
struct Outcome {
    open: String,   // ok | err:<kind> | panic
    c1: String,     // true | false | err:<kind> | panic | -
    dump: String,   // cp:<idx> | nomatch | err:<msg> | panic | -
    c2: String,     // like c1
    sp: String,     // ok | bad:<id>:<why> | -
    dropped: String, // ok | panic
    post: String,    // state of the file after close: ok | count-mismatch:<..> | undecodable | -
    panic_loc: String,
    panic_msg: String,
    panic_stage: String,
    dump_text: String, // only in verbose mode
}

impl Outcome {
    fn line(&self) -> String {
        let clean = |s: &str| s.replace(['\t', '\n'], " ");
        format!(
            "{}\t{}\t{}\t{}\t{}\t{}\t{}\t{}\t{}\t{}",
            clean(&self.open), clean(&self.c1), clean(&self.dump), clean(&self.c2), clean(&self.sp),
            clean(&self.dropped), clean(&self.panic_stage), clean(&self.panic_loc),
            clean(&self.panic_msg.chars().take(160).collect::<String>()), clean(&self.post)
        )
    }
    fn parse(s: &str) -> Outcome {
        let f: Vec<&str> = s.split('\t').collect();
        let g = |i: usize| f.get(i).map(|x| x.to_string()).unwrap_or_default();
        Outcome {
            open: g(0), c1: g(1), dump: g(2), c2: g(3), sp: g(4), dropped: g(5),
            panic_stage: g(6), panic_loc: g(7), panic_msg: g(8), post: g(9), dump_text: String::new(),
        }
    }
}

struct Expect<'a> {
    /// canonical dumps of the commit points this image may serve (index = commit point index)
    cps: &'a [String],
    /// savepoint id -> dump of the captured state (tables only)
    savepoints: &'a BTreeMap<u64, String>,
    deep_savepoints: bool,
    verbose: bool,
}

fn set_panic(o: &mut Outcome, stage: &str, p: (String, String)) {
    if o.panic_stage.is_empty() {
        o.panic_stage = stage.to_string();
        o.panic_loc = p.0;
        o.panic_msg = p.1;
    }
}

fn check_str(r: Result<Result<bool, redb::DatabaseError>, (String, String)>, o: &mut Outcome, stage: &str) -> String {
    match r {
        Ok(Ok(b)) => b.to_string(),
        Ok(Err(e)) => format!("err:{}", err_kind(&e)),
        Err(p) => {
            set_panic(o, stage, p);
            "panic".into()
        }
    }
}

/// open + check_integrity + full dump + second check_integrity (+ savepoint restore), all on a private copy
fn evaluate(bytes: Vec<u8>, region_size: u64, ex: &Expect) -> Outcome {
    evaluate_on(&MemBackend::new(bytes), region_size, ex)
}

/// same, on a backend the caller has filled (lets the worker reuse one buffer for all alterations)
fn evaluate_on(backend: &MemBackend, region_size: u64, ex: &Expect) -> Outcome {
    let mut o = Outcome { c1: "-".into(), dump: "-".into(), c2: "-".into(), sp: "-".into(), dropped: "-".into(), post: "-".into(), ..Default::default() };
    let opened = catch(|| builder(region_size).create_with_backend(backend.clone()));
    let mut db = match opened {
        Err(p) => {
            set_panic(&mut o, "open", p);
            o.open = "panic".into();
            return o;
        }
        Ok(Err(e)) => {
            o.open = format!("err:{}", err_kind(&e));
            return o;
        }
        Ok(Ok(db)) => db,
    };
    o.open = "ok".into();
    let r1 = catch(|| db.check_integrity());
    o.c1 = check_str(r1, &mut o, "check1");
    if o.c1 == "true" || o.c1 == "false" {
        match catch(|| dump_db(&db)) {
            Err(p) => {
                set_panic(&mut o, "dump", p);
                o.dump = "panic".into();
            }
            Ok(Err(e)) => o.dump = format!("err:{}", strip_digits(&e.to_string())),
            Ok(Ok(text)) => {
                o.dump = match ex.cps.iter().rposition(|c| *c == text) {
                    Some(i) => format!("cp:{i}"),
                    None => "nomatch".into(),
                };
                if ex.verbose {
                    o.dump_text = text.clone();
                }
                if o.dump.starts_with("cp:") {
                    let r2 = catch(|| db.check_integrity());
                    o.c2 = check_str(r2, &mut o, "check2");
                    if ex.deep_savepoints && o.c2 == "true" {
                        // what the persistent savepoints still hold: restore each (newest first) and dump
                        let ids: Vec<u64> = text
                            .lines()
                            .last()
                            .unwrap_or("S")
                            .split(' ')
                            .skip(1)
                            .filter_map(|x| x.parse().ok())
                            .collect();
                        o.sp = "ok".into();
                        for id in ids.iter().rev() {
                            let r = catch(|| -> Result<String, redb::Error> {
                                restore_savepoint_and_commit(&db, *id)?;
                                dump_db(&db)
                            });
                            match r {
                                Err(p) => {
                                    set_panic(&mut o, "savepoint", p);
                                    o.sp = format!("bad:{id}:panic");
                                    break;
                                }
                                Ok(Err(e)) => {
                                    o.sp = format!("bad:{id}:err:{}", strip_digits(&e.to_string()));
                                    break;
                                }
                                Ok(Ok(t)) => {
                                    // compare the tables part only (the savepoint list differs by construction)
                                    let tables = t.rsplit_once("S").map(|x| x.0).unwrap_or("");
                                    let want = ex.savepoints.get(id).map(|w| w.rsplit_once("S").map(|x| x.0).unwrap_or(""));
                                    if want != Some(tables) {
                                        o.sp = format!("bad:{id}:contents");
                                        break;
                                    }
                                }
                            }
                        }
                    }
                }
            }
        }
    }
    match catch(move || drop(db)) {
        Ok(()) => o.dropped = "ok".into(),
        Err(p) => {
            set_panic(&mut o, "drop", p);
            o.dropped = "panic".into();
        }
    }
    // After a verdict Ok(_) and a clean close the file must not keep damage that check_integrity is
    // responsible for: the table counts stored in the served slot must be the recounted ones.
    if o.c2 == "true" && o.dropped == "ok" {
        let after = backend.0.lock().unwrap_or_else(|e| e.into_inner());
        o.post = match fmt::decode_with(&after, PAGE_SIZE, None, false, false) {
            Ok(d) => {
                let n_user = d.tables.iter().filter(|t| t.starts_with("data-master:")).count() as u64;
                let n_sys = d.tables.iter().filter(|t| t.starts_with("sys-master:")).count() as u64;
                let s = &d.slots[d.served];
                let (su, ss) = (s.user.map(|r| r.len).unwrap_or(0), s.system.map(|r| r.len).unwrap_or(0));
                if su == n_user && ss == n_sys { "ok".into() } else { format!("count-mismatch:user {su}/{n_user} system {ss}/{n_sys}") }
            }
            Err(_) => "undecodable".into(),
        };
    }
    o
}

// ------------------------------------------------------------------ alterations

#[derive(Clone, Debug)]
struct Alt {
    kind: &'static str,
    writes: Vec<(usize, Vec<u8>)>,
    /// the file is first cut or extended to this length (extension filled with the given byte)
    new_len: Option<(usize, u8)>,
}

impl Alt {
    fn apply(&self, img: &mut Vec<u8>) {
        apply_spec(img, self.new_len, &self.writes);
    }
    /// `len=<new length>/<fill byte hex>` first (if the length changes), then `offset:hexbytes` writes
    fn spec(&self) -> String {
        let mut parts: Vec<String> = vec![];
        if let Some((n, fill)) = self.new_len {
            parts.push(format!("len={n}/{fill:02x}"));
        }
        parts.extend(self.writes.iter().map(|(o, b)| format!("{}:{}", o, hex(b))));
        parts.join(",")
    }
    fn parse_len(s: &str) -> Option<(usize, u8)> {
        s.split(',').find_map(|p| {
            let (n, f) = p.strip_prefix("len=")?.split_once('/')?;
            Some((n.parse().ok()?, u8::from_str_radix(f, 16).ok()?))
        })
    }
    fn parse(s: &str) -> Vec<(usize, Vec<u8>)> {
        if s == "none" || s.is_empty() {
            return vec![];
        }
        s.split(',')
            .filter(|p| !p.starts_with("len="))
            .map(|p| {
                let (o, h) = p.split_once(':').unwrap();
                (o.parse().unwrap(), unhex(h))
            })
            .collect()
    }
    fn first_off(&self) -> usize {
        self.writes.iter().map(|w| w.0).min().unwrap_or(0)
    }
}

/// length change first, then the byte writes (a write that no longer fits the file is dropped)
fn apply_spec(img: &mut Vec<u8>, new_len: Option<(usize, u8)>, writes: &[(usize, Vec<u8>)]) {
    if let Some((n, fill)) = new_len {
        img.resize(n, fill);
    }
    for (off, b) in writes {
        if off + b.len() <= img.len() {
            img[*off..*off + b.len()].copy_from_slice(b);
        }
    }
}

fn kind_static(s: &str) -> &'static str {
    match s {
        "byte^ff" => "byte^ff",
        "byte^01" => "byte^01",
        "byte:=0" => "byte:=0",
        "bit" => "bit",
        "run" => "run",
        "pageswap" => "pageswap",
        "slotswap" => "slotswap",
        "field" => "field",
        "length" => "length",
        "none" => "none",
        _ => "other",
    }
}

fn single_byte_alts(img: &[u8], off: usize, out: &mut Vec<Alt>) {
    let b = img[off];
    out.push(Alt { new_len: None, kind: "byte^ff", writes: vec![(off, vec![b ^ 0xff])] });
    out.push(Alt { new_len: None, kind: "byte^01", writes: vec![(off, vec![b ^ 0x01])] });
    if b != 0 {
        out.push(Alt { new_len: None, kind: "byte:=0", writes: vec![(off, vec![0])] });
    }
}

/// every header field set to interesting values; slot swaps
fn header_alts(img: &[u8], out: &mut Vec<Alt>) {
    let fields: [(usize, usize); 22] = [
        (0, 9), (9, 1), (10, 2), (12, 4), (16, 4), (20, 4), (24, 4), (28, 4), (32, 32),
        // slot-relative fields are added for both slots below
        (0, 1), (1, 1), (2, 1), (3, 5), (8, 8), (16, 16), (32, 8), (40, 8), (48, 16), (64, 8), (72, 32), (104, 8), (112, 16),
    ];
    let mut push = |off: usize, bytes: Vec<u8>| {
        if img[off..off + bytes.len()] != bytes[..] {
            out.push(Alt { new_len: None, kind: "field", writes: vec![(off, bytes)] });
        }
    };
    for (i, (o, l)) in fields.iter().enumerate() {
        let bases: Vec<usize> = if i < 9 { vec![0] } else { vec![64, 192] };
        for base in bases {
            let off = base + o;
            let cur = img[off..off + l].to_vec();
            push(off, vec![0u8; *l]);
            push(off, vec![0xffu8; *l]);
            // +1 / -1 on the little-endian integer in the field's low 8 bytes
            let n = (*l).min(8);
            let mut v = [0u8; 8];
            v[..n].copy_from_slice(&cur[..n]);
            let x = u64::from_le_bytes(v);
            for y in [x.wrapping_add(1), x.wrapping_sub(1), x << 1, x >> 1] {
                let mut c = cur.clone();
                c[..n].copy_from_slice(&y.to_le_bytes()[..n]);
                push(off, c);
            }
        }
    }
    // every value of the god byte's low nibble
    for g in 0..16u8 {
        push(9, vec![g]);
    }
    // slot swaps: contents of the two slots exchanged, with and without flipping the primary bit,
    // and one slot copied over the other
    let s0 = img[64..192].to_vec();
    let s1 = img[192..320].to_vec();
    if s0 != s1 {
        out.push(Alt { new_len: None, kind: "slotswap", writes: vec![(64, s1.clone()), (192, s0.clone())] });
        out.push(Alt { new_len: None, kind: "slotswap", writes: vec![(64, s1.clone()), (192, s0.clone()), (9, vec![img[9] ^ 1])] });
        out.push(Alt { new_len: None, kind: "slotswap", writes: vec![(64, s1.clone())] });
        out.push(Alt { new_len: None, kind: "slotswap", writes: vec![(192, s0.clone())] });
        out.push(Alt { new_len: None, kind: "slotswap", writes: vec![(9, vec![img[9] ^ 1])] });
        out.push(Alt { new_len: None, kind: "slotswap", writes: vec![(9, vec![img[9] & !4])] });
        out.push(Alt { new_len: None, kind: "slotswap", writes: vec![(9, vec![(img[9] ^ 1) & !4])] });
    }
}

/// The table counts stored in a slot's roots are under the slot checksum but under no page checksum;
/// check_integrity recounts them.  A run of bytes inside the super-header page can rewrite a count
/// *and* the slot checksum consistently (the checksum is a public function): the slot stays valid,
/// every tree verifies, only the recount can tell.
fn forged_count_alts(img: &[u8], out: &mut Vec<Alt>) {
    for base in [64usize, 192] {
        for (flag, off) in [(1usize, 32usize), (2, 64)] {
            if img[base + flag] == 0 {
                continue;
            }
            for delta in [1u64, 7, u64::MAX] {
                let mut slot = img[base..base + 128].to_vec();
                let cur = u64::from_le_bytes(slot[off..off + 8].try_into().unwrap());
                slot[off..off + 8].copy_from_slice(&cur.wrapping_add(delta).to_le_bytes());
                let sum = redb::verif::xxh3_128(&slot[..112]);
                slot[112..128].copy_from_slice(&sum.to_le_bytes());
                out.push(Alt { new_len: None, kind: "forged-count", writes: vec![(base + off, slot[off..].to_vec())] });
            }
        }
    }
}


/// class of an alteration: the byte classes of its writes, prefixed by the kind of length change
fn class_of_alt(d: &fmt::Decoded, orig_len: usize, new_len: Option<(usize, u8)>, writes: &[(usize, Vec<u8>)]) -> String {
    let w = if writes.is_empty() { String::new() } else { d.classify_writes(writes) };
    match new_len {
        None => w,
        Some((n, _)) => {
            let rl = d.geo.region_len().max(1);
            let diff = n.abs_diff(orig_len);
            let unit = if n < 320 {
                "inside-header"
            } else if diff % d.page_size != 0 {
                "odd-bytes"
            } else if diff % rl == 0 {
                "whole-regions"
            } else {
                "whole-pages"
            };
            let l = format!("file-length.{}.{}", if n < orig_len { "truncate" } else { "extend" }, unit);
            if w.is_empty() { l } else { format!("{l} & {w}") }
        }
    }
}

/// Header fields no checksum covers, set to values inside and outside what `from_bytes` accepts:
/// region geometry (page size, region header pages, region max data pages), the stored region counts
/// (including other descriptions of the same length and the MAX_REGIONS boundary), every bit of the god byte.
fn geometry_alts(img: &[u8], out: &mut Vec<Alt>) {
    if img.len() < 320 {
        return;
    }
    let g = |o: usize| u32::from_le_bytes(img[o..o + 4].try_into().unwrap());
    let (cap, full, trail) = (g(20), g(24), g(28));
    let mut push = |writes: Vec<(usize, Vec<u8>)>| {
        if writes.iter().any(|(o, b)| img[*o..*o + b.len()] != b[..]) {
            out.push(Alt { new_len: None, kind: "field", writes });
        }
    };
    let le = |v: u32| v.to_le_bytes().to_vec();
    for v in [4096u32, 128, 64] {
        push(vec![(12, le(v))]);
    }
    for v in [2u32, 3, 1 << 20, (1 << 20) + 1] {
        push(vec![(16, le(v))]);
    }
    for v in [1u32, 2, 3, 15, cap.wrapping_sub(2), cap / 4, cap.wrapping_mul(4), 1 << 20, (1 << 20) + 1] {
        push(vec![(20, le(v))]);
    }
    for v in [(1u32 << 20) - 1, 1 << 20, (1 << 20) + 1, full.wrapping_add(2), full.wrapping_sub(2)] {
        push(vec![(24, le(v))]);
    }
    for v in [cap, cap.wrapping_add(1), cap.wrapping_sub(1), 1, trail.wrapping_add(2)] {
        push(vec![(28, le(v))]);
    }
    // the same length described differently / consistently wrong pairs
    if trail == 0 && full >= 1 {
        push(vec![(24, le(full - 1)), (28, le(cap))]);
    }
    if trail == cap {
        push(vec![(24, le(full + 1)), (28, le(0))]);
    }
    push(vec![(24, le(0)), (28, le(0))]);
    push(vec![(24, le(full + 1)), (28, le(trail))]);
    push(vec![(24, le(1 << 20)), (28, le(trail.max(1)))]);
    // god byte: every single bit, unknown high bits, and the recovery flag together with damaged counts
    for k in 0..8 {
        push(vec![(9, vec![img[9] ^ (1 << k)])]);
    }
    for v in [img[9] | 0xf0, img[9] | 0x08, 0xff, 0x80] {
        push(vec![(9, vec![v])]);
    }
    push(vec![(9, vec![img[9] | 2]), (24, le(u32::MAX)), (28, le(u32::MAX))]);
    push(vec![(9, vec![img[9] | 2]), (24, le(0)), (28, le(0))]);
}

/// The file cut or extended: by whole pages, whole regions, odd byte counts, into the header; extensions
/// filled with zeros or 0xAA; and length changes accompanied by region counts that describe the new length.
fn length_alts(img: &[u8], page_size: usize, out: &mut Vec<Alt>) {
    let n = img.len();
    if n < 320 {
        return;
    }
    let g = |o: usize| u32::from_le_bytes(img[o..o + 4].try_into().unwrap()) as usize;
    let (hp, cap, full, trail) = (g(16), g(20), g(24), g(28));
    let rl = ((hp + cap) * page_size).max(page_size);
    let last_region_bytes = if trail > 0 { (hp + trail) * page_size } else { rl };
    let mut seen: std::collections::BTreeSet<(usize, u8)> = Default::default();
    let mut push = |out: &mut Vec<Alt>, len: usize, fill: u8, writes: Vec<(usize, Vec<u8>)>| {
        if len >= 1 && len != n && len <= n + 8 * rl && (seen.insert((len, fill)) || !writes.is_empty()) {
            out.push(Alt { new_len: Some((len, fill)), kind: "length", writes });
        }
    };
    for cut in [1usize, 7, 255, page_size - 1, page_size, page_size + 1, 2 * page_size, 5 * page_size, last_region_bytes, last_region_bytes + page_size, rl, rl + last_region_bytes, 2 * rl, n / 2 / page_size * page_size] {
        if cut < n {
            push(out, n - cut, 0, vec![]);
        }
    }
    for len in [1usize, 8, 9, 100, 319, 320, 321, page_size - 1, page_size, page_size + 1, 2 * page_size - 1, 2 * page_size, 3 * page_size] {
        push(out, len, 0, vec![]);
    }
    let fill_up = if trail > 0 && trail < cap { (cap - trail) * page_size } else { rl };
    for add in [1usize, 7, 255, page_size - 1, page_size, page_size + 1, 2 * page_size, fill_up, fill_up + page_size, rl, rl + page_size, rl - page_size, 2 * rl, 3 * rl + 2 * page_size] {
        push(out, n + add, 0, vec![]);
        if add == page_size || add == rl || add == 7 {
            push(out, n + add, 0xaa, vec![]);
        }
    }
    // length and stored counts changed together (a consistently smaller / larger file)
    let le = |v: usize| (v as u32).to_le_bytes().to_vec();
    if trail > 1 {
        push(out, n - page_size, 0, vec![(28, le(trail - 1))]);
    }
    if trail > 0 && full > 0 {
        push(out, n - last_region_bytes, 0, vec![(28, le(0))]);
    }
    if trail == 0 && full > 1 {
        push(out, n - rl, 0, vec![(24, le(full - 1))]);
        push(out, n - page_size, 0, vec![(24, le(full - 1)), (28, le(cap - 1))]);
    }
    if trail > 0 && trail < cap {
        push(out, n + page_size, 0, vec![(28, le(trail + 1))]);
    }
    push(out, n + rl, 0, vec![(24, le(full + 1))]);
}

// ------------------------------------------------------------------ worker

fn worker_main(args: &[String]) {
    install_hook();
    let img = std::fs::read(&args[0]).expect("image");
    let region_size: u64 = args[1].parse().unwrap();
    let cps_text = std::fs::read_to_string(&args[2]).expect("cps");
    let verbose = args.get(3).map(|s| s == "-v").unwrap_or(false);
    // cps file: records separated by a line "=====", first the commit points, then "#SP <id>" records
    let mut cps: Vec<String> = vec![];
    let mut sps: BTreeMap<u64, String> = BTreeMap::new();
    for rec in cps_text.split("=====\n") {
        if rec.is_empty() {
            continue;
        }
        if let Some(rest) = rec.strip_prefix("#SP ") {
            let (id, body) = rest.split_once('\n').unwrap();
            sps.insert(id.parse().unwrap(), body.to_string());
        } else if let Some(rest) = rec.strip_prefix("#CP\n") {
            cps.push(rest.to_string());
        }
    }
    let deep = std::env::var("C12_DEEP_SP").map(|v| v == "1").unwrap_or(true);
    let ex = Expect { cps: &cps, savepoints: &sps, deep_savepoints: deep, verbose };
    let stdin = std::io::stdin();
    let stdout = std::io::stdout();
    let backend = MemBackend::new(Vec::with_capacity(img.len() + (1 << 16)));
    for line in stdin.lock().lines() {
        let line = line.unwrap();
        let (idx, spec) = line.split_once(' ').unwrap();
        {
            let mut b = backend.0.lock().unwrap_or_else(|e| e.into_inner());
            b.clear();
            b.extend_from_slice(&img);
            apply_spec(&mut b, Alt::parse_len(spec), &Alt::parse(spec));
        }
        let o = evaluate_on(&backend, region_size, &ex);
        let mut out = stdout.lock();
        writeln!(out, "{}\t{}", idx, o.line()).unwrap();
        if verbose {
            writeln!(out, "DUMP-BEGIN\n{}DUMP-END", o.dump_text).unwrap();
        }
        out.flush().unwrap();
    }
}

/// Run alterations `alts[i]` (for i in idxs) through a worker process; a dead or hung worker is
/// restarted after recording the alteration it died on.
fn run_shard(exe: &str, img_file: &str, region_size: u64, cps_file: &str, alts: &[Alt], idxs: Vec<usize>) -> Vec<(usize, Outcome)> {
    let mut results: Vec<(usize, Outcome)> = Vec::with_capacity(idxs.len());
    let mut pos = 0usize;
    let t0 = std::time::Instant::now();
    let mut restarts = 0;
    while pos < idxs.len() {
        let mut child = Command::new("bash")
            .arg("-c")
            .arg("ulimit -v 6291456 2>/dev/null; ulimit -c 0 2>/dev/null; exec \"$0\" \"$@\"")
            .arg(exe)
            .arg("worker")
            .arg(img_file)
            .arg(region_size.to_string())
            .arg(cps_file)
            .stdin(Stdio::piped())
            .stdout(Stdio::piped())
            .stderr(Stdio::null())
            .spawn()
            .expect("spawn worker");
        let mut stdin = child.stdin.take().unwrap();
        let stdout = child.stdout.take().unwrap();
        let todo: Vec<usize> = idxs[pos..].to_vec();
        let lines: Vec<String> = todo.iter().map(|i| format!("{} {}\n", i, alts[*i].spec())).collect();
        let writer = std::thread::spawn(move || {
            for l in lines {
                if stdin.write_all(l.as_bytes()).is_err() {
                    break;
                }
            }
        });
        let (tx, rx) = mpsc::channel::<String>();
        let reader = std::thread::spawn(move || {
            for l in BufReader::new(stdout).lines() {
                match l {
                    Ok(l) => {
                        if tx.send(l).is_err() {
                            break;
                        }
                    }
                    Err(_) => break,
                }
            }
        });
        let mut died: Option<&'static str> = None;
        let mut got = 0usize;
        while got < todo.len() {
            match rx.recv_timeout(Duration::from_secs(60)) {
                Ok(l) => {
                    let (idx, rest) = l.split_once('\t').unwrap();
                    let idx: usize = idx.parse().unwrap();
                    assert_eq!(idx, todo[got]);
                    results.push((idx, Outcome::parse(rest)));
                    got += 1;
                }
                Err(mpsc::RecvTimeoutError::Timeout) => {
                    died = Some("hang");
                    break;
                }
                Err(mpsc::RecvTimeoutError::Disconnected) => {
                    died = Some("abort");
                    break;
                }
            }
        }
        let _ = child.kill();
        let status = child.wait();
        let _ = writer.join();
        let _ = reader.join();
        pos += got;
        restarts += 1;
        if let Some(how) = died {
            if pos < idxs.len() {
                let mut o = Outcome { open: how.to_string(), ..Default::default() };
                o.panic_stage = how.to_string();
                o.panic_loc = format!("process-{how}");
                o.panic_msg = format!("worker process {how} (status {:?})", status.ok());
                results.push((idxs[pos], o));
                pos += 1;
            }
        }
    }
    if std::env::var("C12_TIMING").is_ok() {
        eprintln!("shard of {} done in {:?}, {} worker starts", idxs.len(), t0.elapsed(), restarts);
    }
    results
}

// ------------------------------------------------------------------ report helpers

fn jstr(s: &str) -> String {
    let mut o = String::from("\"");
    for c in s.chars() {
        match c {
            '"' => o.push_str("\\\""),
            '\\' => o.push_str("\\\\"),
            '\n' => o.push_str("\\n"),
            '\t' => o.push_str("\\t"),
            c if (c as u32) < 0x20 => write!(o, "\\u{:04x}", c as u32).unwrap(),
            c => o.push(c),
        }
    }
    o.push('"');
    o
}

fn jmap(m: &BTreeMap<String, u64>) -> String {
    let items: Vec<String> = m.iter().map(|(k, v)| format!("{}: {}", jstr(k), v)).collect();
    format!("{{{}}}", items.join(", "))
}

#[derive(Default)]
struct Report {
    evaluations: u64,
    distinct_nontrivial: u64,
    by_kind: BTreeMap<String, u64>,
    by_class: BTreeMap<String, u64>,
    by_verdict: BTreeMap<String, u64>,
    post_states: BTreeMap<String, u64>,
    class_verdict: BTreeMap<String, u64>,
    errors: BTreeMap<String, u64>,
    panics: BTreeMap<String, (u64, String, String)>, // site -> (count, first message, first replay json)
    violations: Vec<(String, String, String)>,        // key, what, replay json
    s2_mismatch: Vec<(String, String)>,               // what, replay json
    images: Vec<String>,
    hist_stats: BTreeMap<String, u64>,
    samples: Vec<String>,
    served_older: u64,
    savepoint_findings: BTreeMap<String, (u64, String, String)>, // byte class -> (count, what, replay)
    model_in: String,
    real_out: String,
    model_blocks: u64,
    model_skipped: u64,
}

fn replay_json(h: &History, profile: u32, img: &Image, alt: &Alt, o: &Outcome, class: &str) -> String {
    format!(
        "{{\"history_seed\": {}, \"profile\": {}, \"image\": {}, \"image_len\": {}, \"region_size\": {}, \"page_size\": {}, \"alteration_kind\": {}, \"alteration\": {}, \"byte_class\": {}, \"open\": {}, \"check_integrity\": {}, \"dump\": {}, \"second_check\": {}, \"savepoints\": {}, \"panic_stage\": {}, \"panic_location\": {}, \"panic_message\": {}, \"replay_cmd\": {}}}",
        h.seed, profile, jstr(&img.tag), img.bytes.len(), h.region_size, PAGE_SIZE, jstr(alt.kind), jstr(&alt.spec()),
        jstr(class), jstr(&o.open), jstr(&o.c1), jstr(&o.dump), jstr(&o.c2), jstr(&o.sp), jstr(&o.panic_stage),
        jstr(&o.panic_loc), jstr(&o.panic_msg),
        jstr(&format!("c12 replay {} {} {} {}", h.seed, profile, img.tag, alt.spec()))
    )
}

fn verdict_code(o: &Outcome, latest: usize) -> String {
    if !o.panic_stage.is_empty() {
        return format!("panic@{}", o.panic_stage);
    }
    if o.open != "ok" {
        return "open-error".into();
    }
    if o.c1.starts_with("err") {
        return "check-error".into();
    }
    let which = match o.dump.strip_prefix("cp:") {
        Some(i) => {
            if i.parse::<usize>().unwrap() == latest { "latest" } else { "older" }
        }
        None => {
            if o.dump == "nomatch" { "NOT-A-COMMIT-POINT" } else { "DUMP-FAILED" }
        }
    };
    format!("Ok({})+{}+second={}", o.c1, which, if o.c2.starts_with("err") { "err" } else { &o.c2 })
}

// ------------------------------------------------------------------ parent

fn write_cps(path: &str, h: &History, img: &Image) {
    let mut s = String::new();
    for c in &h.commits[..=img.upto] {
        s.push_str("#CP\n");
        s.push_str(&c.dump);
        s.push_str("=====\n");
    }
    for (id, d) in &img.savepoints {
        write!(s, "#SP {id}\n{d}=====\n").unwrap();
    }
    std::fs::write(path, s).unwrap();
}

fn process_image(exe: &str, h: &History, profile: u32, ii: usize, img: &Image, budget: usize, r: &mut Rng, rep: &mut Report, nworkers: usize) {
    let tag = format!("h{}p{}_{}", h.seed, profile, ii);
    let img_file = format!("img_{tag}.bin");
    let cps_file = format!("cps_{tag}.txt");
    std::fs::write(&img_file, &img.bytes).unwrap();
    write_cps(&cps_file, h, img);
    let dec = fmt::decode(&img.bytes, PAGE_SIZE);
    let n = img.bytes.len();

    // ---- alteration plan
    let mut alts: Vec<Alt> = vec![Alt { new_len: None, kind: "none", writes: vec![] }];
    header_alts(&img.bytes, &mut alts);
    forged_count_alts(&img.bytes, &mut alts);
    geometry_alts(&img.bytes, &mut alts);
    length_alts(&img.bytes, PAGE_SIZE, &mut alts);
    let exhaustive = n * 12 / 5 <= budget;
    if exhaustive {
        for off in 0..n {
            single_byte_alts(&img.bytes, off, &mut alts);
        }
    } else {
        // the super-header and every byte of every page in use exhaustively while the budget lasts
        // (interesting bytes first), the rest sampled
        let mut offs: Vec<usize> = (0..320.min(n)).collect();
        let mut interesting: Vec<usize> = vec![];
        if let Ok(d) = &dec {
            for p in &d.pages {
                for o in p.offset..(p.offset + p.len) {
                    interesting.push(o);
                }
            }
        }
        // on average 2.4 alterations per offset (`:=0` is skipped for zero bytes)
        let room = budget * 5 / 12;
        if interesting.len() + offs.len() <= room * 9 / 10 {
            offs.extend(interesting);
        } else {
            let want = room * 3 / 4;
            for _ in 0..want {
                offs.push(interesting[r.below(interesting.len() as u64) as usize]);
            }
        }
        while offs.len() < room {
            offs.push(r.below(n as u64) as usize);
        }
        offs.sort();
        offs.dedup();
        for off in offs {
            single_byte_alts(&img.bytes, off, &mut alts);
        }
    }
    // single bits, runs within one page, swapped pages
    let used_pages: Vec<(usize, usize)> = match &dec {
        Ok(d) => d.pages.iter().map(|p| (p.offset, p.len)).collect(),
        Err(_) => vec![],
    };
    let n_extra = if exhaustive { (n / 40).max(200) } else { budget / 20 };
    for _ in 0..n_extra {
        let off = if !used_pages.is_empty() && r.chance(3, 4) {
            let (po, pl) = *r.pick(&used_pages);
            po + r.below(pl.min(PAGE_SIZE) as u64) as usize
        } else {
            r.below(n as u64) as usize
        };
        alts.push(Alt { new_len: None, kind: "bit", writes: vec![(off, vec![img.bytes[off] ^ (1 << r.below(8))])] });
    }
    for _ in 0..n_extra {
        let (po, pl) = if !used_pages.is_empty() && r.chance(4, 5) { *r.pick(&used_pages) } else { ((r.below((n / PAGE_SIZE) as u64) as usize) * PAGE_SIZE, PAGE_SIZE) };
        let start = r.below(pl as u64) as usize;
        let len = r.range(2, 64).min((pl - start) as u64) as usize;
        if len == 0 {
            continue;
        }
        let bytes: Vec<u8> = match r.below(4) {
            0 => vec![0; len],
            1 => vec![0xff; len],
            2 => img.bytes[po + start..po + start + len].iter().map(|b| b ^ 0x55).collect(),
            _ => r.bytes(len),
        };
        if img.bytes[po + start..po + start + len] != bytes[..] {
            alts.push(Alt { new_len: None, kind: "run", writes: vec![(po + start, bytes)] });
        }
    }
    let npages = n / PAGE_SIZE;
    for _ in 0..(n_extra / 2).max(50) {
        let (a, b) = if used_pages.len() >= 2 && r.chance(3, 4) {
            (r.pick(&used_pages).0 / PAGE_SIZE, if r.chance(1, 2) { r.pick(&used_pages).0 / PAGE_SIZE } else { r.below(npages as u64) as usize })
        } else {
            (r.below(npages as u64) as usize, r.below(npages as u64) as usize)
        };
        let pa = img.bytes[a * PAGE_SIZE..(a + 1) * PAGE_SIZE].to_vec();
        let pb = img.bytes[b * PAGE_SIZE..(b + 1) * PAGE_SIZE].to_vec();
        if a != b && pa != pb {
            alts.push(Alt { new_len: None, kind: "pageswap", writes: vec![(a * PAGE_SIZE, pb), (b * PAGE_SIZE, pa)] });
        }
    }

    // ---- run
    let total = alts.len();
    let mut shards: Vec<Vec<usize>> = vec![vec![]; nworkers];
    for i in 0..total {
        shards[(i / 64) % nworkers].push(i);
    }
    let mut outcomes: Vec<Option<Outcome>> = vec![None; total];
    std::thread::scope(|s| {
        let handles: Vec<_> = shards
            .into_iter()
            .map(|idxs| {
                let (alts, img_file, cps_file) = (&alts, &img_file, &cps_file);
                s.spawn(move || run_shard(exe, img_file, h.region_size, cps_file, alts, idxs))
            })
            .collect();
        for hd in handles {
            for (i, o) in hd.join().unwrap() {
                outcomes[i] = Some(o);
            }
        }
    });

    // ---- judge
    let latest = img.upto;
    let base = outcomes[0].clone().unwrap();
    let base_code = verdict_code(&base, latest);
    rep.images.push(format!(
        "{tag} {} len={} region={} commits={} savepoints={} alterations={} exhaustive={} decoded={} baseline={}",
        img.tag, n, h.region_size, img.upto + 1, img.savepoints.len(), total, exhaustive,
        match &dec { Ok(d) => format!("ok(pages={},covered={})", d.pages.len(), d.covered_count()), Err(e) => format!("FAILED({e})") },
        base_code
    ));
    if base_code != "Ok(true)+latest+second=true" || base.sp.starts_with("bad") {
        rep.violations.push((
            "baseline-not-clean".into(),
            format!("unaltered image {} of history seed {} is not certified clean with its latest commit point: {} sp={}", img.tag, h.seed, base_code, base.sp),
            replay_json(h, profile, img, &alts[0], &base, "none"),
        ));
    }
    let mut seen_nontrivial: std::collections::BTreeSet<(String, String)> = Default::default();
    for (i, alt) in alts.iter().enumerate().skip(1) {
        let o = outcomes[i].clone().unwrap_or_else(|| Outcome { open: "lost".into(), panic_stage: "lost".into(), panic_loc: "process-lost".into(), ..Default::default() });
        let class = match &dec {
            Ok(d) => class_of_alt(d, n, alt.new_len, &alt.writes),
            Err(_) => fmt::coarse_class(alt.first_off(), PAGE_SIZE),
        };
        // a cut that removes a covered byte alters it as well
        let cut_covered = match (&dec, alt.new_len) {
            (Ok(d), Some((l, _))) if l < n => (l..n).any(|o| d.is_covered(o)),
            _ => false,
        };
        let covered = cut_covered || match &dec {
            Ok(d) => alt.writes.iter().any(|(o, b)| (0..b.len()).any(|j| b[j] != img.bytes[o + j] && d.is_covered(o + j))),
            Err(_) => false,
        };
        let outside_header = alt.writes.iter().all(|(o, _)| *o >= PAGE_SIZE);
        let code = verdict_code(&o, latest);
        rep.evaluations += 1;
        *rep.by_kind.entry(alt.kind.to_string()).or_insert(0) += 1;
        *rep.by_class.entry(class.clone()).or_insert(0) += 1;
        *rep.by_verdict.entry(code.clone()).or_insert(0) += 1;
        *rep.class_verdict.entry(format!("{class} => {code}")).or_insert(0) += 1;
        if covered && seen_nontrivial.insert((class.clone(), alt.spec())) {
            rep.distinct_nontrivial += 1;
        }
        for e in [&o.open, &o.c1] {
            if let Some(k) = e.strip_prefix("err:") {
                *rep.errors.entry(k.to_string()).or_insert(0) += 1;
            }
        }
        if code.contains("+older") {
            rep.served_older += 1;
        }
        if rep.samples.len() < 6 && (i % 997 == 1 || covered && rep.samples.len() < 3) {
            rep.samples.push(format!("{{\"image\": {}, \"alteration\": {}, \"class\": {}, \"verdict\": {}}}", jstr(&tag), jstr(&alt.spec()), jstr(&class), jstr(&code)));
        }
        let rj = || replay_json(h, profile, img, alt, &o, &class);
        // ---- S3: the property itself
        if o.panic_stage == "savepoint" || (o.panic_stage.is_empty() && o.sp.starts_with("bad")) {
            // after check_integrity certified the file (twice), a persistent savepoint is unusable or wrong
            let e = rep.savepoint_findings.entry(class.clone()).or_insert((0, String::new(), String::new()));
            e.0 += 1;
            if e.1.is_empty() {
                e.1 = format!("check_integrity returned Ok({}) and Ok({}), the contents are a commit point, yet restoring a persistent savepoint afterwards gives {}{} (byte class {}, alteration {} {})",
                    o.c1, o.c2, o.sp, if o.panic_stage.is_empty() { String::new() } else { format!(" [panic at {}: {}]", o.panic_loc, o.panic_msg) }, class, alt.kind, alt.spec());
                e.2 = rj();
            }
            continue;
        }
        if !o.panic_stage.is_empty() {
            let site = format!("panic:{}", o.panic_loc);
            let e = rep.panics.entry(site).or_insert((0, format!("{} [stage {}; byte class {}]", o.panic_msg, o.panic_stage, class), rj()));
            e.0 += 1;
            continue;
        }
        if o.open != "ok" || o.c1.starts_with("err") {
            continue; // damage reported as an error
        }
        let cp_ok = o.dump.starts_with("cp:");
        if o.c1 == "true" && !cp_ok {
            rep.violations.push((
                format!("false-clean:{}", class),
                format!("check_integrity returned Ok(true) but the database serves {} (byte class {}, alteration {} {})", if o.dump == "nomatch" { "contents that are no commit point".to_string() } else { format!("no contents: {}", o.dump) }, class, alt.kind, alt.spec()),
                rj(),
            ));
            continue;
        }
        if o.c1 == "false" && (!cp_ok || o.c2 != "true") {
            rep.violations.push((
                format!("bad-repair:{}", class),
                format!("check_integrity returned Ok(false) (repaired) but then dump={} second check={} (byte class {}, alteration {} {})", o.dump, o.c2, class, alt.kind, alt.spec()),
                rj(),
            ));
            continue;
        }
        if o.c1 == "true" && o.c2 != "true" {
            rep.violations.push((
                format!("unstable-clean:{}", class),
                format!("check_integrity returned Ok(true), contents are a commit point, but an immediate second check returned {} (byte class {}, alteration {})", o.c2, class, alt.spec()),
                rj(),
            ));
            continue;
        }
        // ---- S2: model verdict. A changed byte in the covered set of the served slot (outside the
        // super-header, so slot selection is unaffected) makes the model's verify fail: the
        // implementation must not go on serving that slot's commit.
        if o.post.starts_with("count-mismatch") {
            rep.s2_mismatch.push((
                format!("check_integrity returned Ok({}) and the database was closed, but the file still carries {} (alteration {} {})", o.c1, o.post, alt.kind, alt.spec()),
                rj(),
            ));
        }
        *rep.post_states.entry(o.post.split(':').next().unwrap_or("").to_string()).or_insert(0) += 1;
        if covered && outside_header && o.dump == format!("cp:{latest}") {
            rep.s2_mismatch.push((
                format!("model: byte in covered set altered => verify fails; implementation: {} (class {}, alteration {})", code, class, alt.spec()),
                rj(),
            ));
        }
    }
    // ---- S2 through the extracted Coq model: the unaltered image, every header alteration, and a
    // sample of page alterations are abstracted by the independent reader and handed to the model
    if let Ok(d) = &dec {
        let ambiguous = d.slots[0].user == d.slots[1].user; // both slots hold the same user data (closing commit)
        let mut pick: Vec<usize> = vec![0];
        let mut page_alts: Vec<usize> = vec![];
        for (i, alt) in alts.iter().enumerate().skip(1) {
            if alt.new_len.is_some() || alt.writes.iter().any(|(o, _)| *o < 320) {
                if alt.new_len.is_some() || alt.kind == "field" || alt.kind == "slotswap" || alt.kind == "forged-count" || i % 7 == 0 {
                    pick.push(i);
                }
            } else {
                page_alts.push(i);
            }
        }
        let want = if exhaustive { 400 } else { 250 };
        for _ in 0..want.min(page_alts.len()) {
            pick.push(page_alts[r.below(page_alts.len() as u64) as usize]);
        }
        pick.sort();
        pick.dedup();
        // blocks after the first are written as differences against the unaltered image's block
        let mut base_lines: BTreeMap<String, String> = BTreeMap::new();
        for i in pick {
            let mut b = img.bytes.clone();
            alts[i].apply(&mut b);
            let Some(o) = &outcomes[i] else { continue };
            match fmt::export_forest(&b, PAGE_SIZE) {
                Ok(f) => {
                    let id = format!("{tag}|{i}");
                    let keyed: BTreeMap<String, String> = f
                        .lines()
                        .map(|l| {
                            let mut it = l.splitn(3, ' ');
                            let a = it.next().unwrap_or("");
                            let k = if a == "G" || a == "F" { a.to_string() } else { format!("{} {}", a, it.next().unwrap_or("")) };
                            (k, l.to_string())
                        })
                        .collect();
                    if i == 0 {
                        writeln!(rep.model_in, "I {id}").unwrap();
                        rep.model_in.push_str(&f);
                        base_lines = keyed;
                    } else {
                        writeln!(rep.model_in, "D {id}").unwrap();
                        for (k, l) in &keyed {
                            if base_lines.get(k) != Some(l) {
                                writeln!(rep.model_in, "{l}").unwrap();
                            }
                        }
                        for k in base_lines.keys() {
                            if !keyed.contains_key(k) && k.starts_with("P ") {
                                writeln!(rep.model_in, "X {}", &k[2..]).unwrap();
                            }
                        }
                    }
                    rep.model_in.push_str("E\n");
                    let ptrs: Vec<String> = if i == 0 {
                        let mut v: Vec<String> = d.pages.iter().filter(|p| !p.savepoint_only).map(|p| p.mptr.trim_start_matches('0').to_string()).collect();
                        v.sort();
                        v
                    } else {
                        vec![]
                    };
                    writeln!(
                        rep.real_out, "{id}\t{}\t{}\t{}\t{}\t{}\t{}", verdict_code(o, latest), d.served, u8::from(ambiguous),
                        ptrs.join(","), alts[i].spec().chars().take(80).collect::<String>(),
                        class_of_alt(d, n, alts[i].new_len, &alts[i].writes)
                    ).unwrap();
                    rep.model_blocks += 1;
                }
                Err(_) if i != 0 => {
                    // the reader cannot decode slots/pages (bad magic, geometry, a file cut inside the
                    // header): the model gets the header facts only and must answer erropen
                    let id = format!("{tag}|{i}");
                    writeln!(rep.model_in, "D {id}").unwrap();
                    rep.model_in.push_str(&fmt::export_file_line(&b, PAGE_SIZE));
                    rep.model_in.push_str("E\n");
                    writeln!(
                        rep.real_out, "{id}\t{}\t{}\t{}\t\t{}\t{}", verdict_code(o, latest), d.served, u8::from(ambiguous),
                        alts[i].spec().chars().take(80).collect::<String>(), class_of_alt(d, n, alts[i].new_len, &alts[i].writes)
                    ).unwrap();
                    rep.model_blocks += 1;
                    rep.model_skipped += 1;
                }
                Err(_) => rep.model_skipped += 1,
            }
        }
    }
    // the page list of the unaltered image, for the cross-check against b-fmt's reader (props/c12.py)
    if let Ok(d) = &dec {
        let mut lines: Vec<String> = d.pages.iter().filter(|p| !p.savepoint_only).map(|p| format!("{} {} {}", p.offset, p.offset + p.len, p.used)).collect();
        lines.sort();
        std::fs::write(format!("pages_{tag}.txt"), lines.join("\n") + "\n").unwrap();
    } else {
        let _ = std::fs::remove_file(&img_file);
    }
    let _ = std::fs::remove_file(&cps_file);
}

fn run_main(args: &[String]) {
    let budget: usize = args.first().map(|s| s.parse().unwrap()).unwrap_or(200_000);
    let seed = seed_from_env();
    let thorough = tier_is_thorough();
    let exe = std::env::current_exe().unwrap().to_string_lossy().to_string();
    let nworkers = std::thread::available_parallelism().map(|n| n.get()).unwrap_or(8).min(32);
    let mut r = Rng::new(seed ^ 0x00C1_2000);
    let mut rep = Report::default();
    // plan: small histories swept exhaustively, larger ones sampled
    let plan: Vec<(u32, usize)> = if thorough {
        vec![(0, 3), (1, 3), (2, 2)]
    } else {
        vec![(0, 1), (1, 1), (2, 1)]
    };
    let mut remaining = budget;
    let n_hist: usize = plan.iter().map(|p| p.1).sum();
    let mut hi = 0usize;
    let mut fatal: Vec<String> = vec![];
    for (profile, count) in plan {
        for _ in 0..count {
            let hseed = r.next_u64() % 1_000_000;
            let h = match run_history(hseed, profile) {
                Ok(h) => h,
                Err(e) => {
                    fatal.push(format!("history seed {hseed} profile {profile}: {e}"));
                    continue;
                }
            };
            for (k, v) in &h.stats {
                *rep.hist_stats.entry(k.clone()).or_insert(0) += v;
            }
            // the first (smallest) history gets half of the budget so that its clean image is swept
            // exhaustively at least over the super-header and every reachable page
            let per_hist = if hi == 0 && n_hist > 1 { remaining / 2 } else { remaining / (n_hist - hi).max(1) };
            let nimg = h.images.len();
            for (ii, img) in h.images.iter().enumerate() {
                let share = if img.tag == "clean" { per_hist * 2 / 3 } else { per_hist / (3 * (nimg - 1).max(1)) };
                let mut ir = r.fork(ii as u64);
                process_image(&exe, &h, profile, ii, img, share.max(2000), &mut ir, &mut rep, nworkers);
            }
            remaining = remaining.saturating_sub(per_hist);
            hi += 1;
        }
    }
    // ---- report
    let mut s = String::new();
    s.push_str("{\n");
    writeln!(s, " \"evaluations\": {},", rep.evaluations).unwrap();
    writeln!(s, " \"distinct_nontrivial\": {},", rep.distinct_nontrivial).unwrap();
    writeln!(s, " \"served_older_commit\": {},", rep.served_older).unwrap();
    writeln!(s, " \"fatal\": [{}],", fatal.iter().map(|x| jstr(x)).collect::<Vec<_>>().join(", ")).unwrap();
    writeln!(s, " \"images\": [{}],", rep.images.iter().map(|x| jstr(x)).collect::<Vec<_>>().join(",\n   ")).unwrap();
    writeln!(s, " \"history_ops\": {},", jmap(&rep.hist_stats)).unwrap();
    writeln!(s, " \"by_alteration_kind\": {},", jmap(&rep.by_kind)).unwrap();
    writeln!(s, " \"by_byte_class\": {},", jmap(&rep.by_class)).unwrap();
    writeln!(s, " \"by_verdict\": {},", jmap(&rep.by_verdict)).unwrap();
    writeln!(s, " \"class_verdict\": {},", jmap(&rep.class_verdict)).unwrap();
    writeln!(s, " \"file_after_close\": {},", jmap(&rep.post_states)).unwrap();
    writeln!(s, " \"error_kinds\": {},", jmap(&rep.errors)).unwrap();
    writeln!(s, " \"samples\": [{}],", rep.samples.join(", ")).unwrap();
    let panics: Vec<String> = rep
        .panics
        .iter()
        .map(|(k, (n, m, rj))| format!("{{\"key\": {}, \"count\": {}, \"message\": {}, \"replay\": {}}}", jstr(k), n, jstr(m), rj))
        .collect();
    writeln!(s, " \"panics\": [{}],", panics.join(",\n   ")).unwrap();
    let viol: Vec<String> = rep
        .violations
        .iter()
        .map(|(k, w, rj)| format!("{{\"key\": {}, \"what\": {}, \"replay\": {}}}", jstr(k), jstr(w), rj))
        .collect();
    writeln!(s, " \"violations\": [{}],", viol.join(",\n   ")).unwrap();
    let s2: Vec<String> = rep
        .s2_mismatch
        .iter()
        .take(20)
        .map(|(w, rj)| format!("{{\"what\": {}, \"replay\": {}}}", jstr(w), rj))
        .collect();
    let spf: Vec<String> = rep
        .savepoint_findings
        .iter()
        .map(|(k, (n, w, rj))| format!("{{\"byte_class\": {}, \"count\": {}, \"what\": {}, \"replay\": {}}}", jstr(k), n, jstr(w), rj))
        .collect();
    writeln!(s, " \"savepoint_findings\": [{}],", spf.join(",\n   ")).unwrap();
    writeln!(s, " \"model_blocks\": {}, \"model_skipped_undecodable\": {},", rep.model_blocks, rep.model_skipped).unwrap();
    std::fs::write("model_in.txt", &rep.model_in).unwrap();
    std::fs::write("real.txt", &rep.real_out).unwrap();
    writeln!(s, " \"s2_mismatch_count\": {},", rep.s2_mismatch.len()).unwrap();
    writeln!(s, " \"s2_mismatch\": [{}]", s2.join(",\n   ")).unwrap();
    s.push_str("}\n");
    std::fs::write("c12_report.json", &s).unwrap();
    println!(
        "evaluations={} distinct_nontrivial={} violations={} panic_sites={} s2_mismatch={} fatal={}",
        rep.evaluations, rep.distinct_nontrivial, rep.violations.len(), rep.panics.len(), rep.s2_mismatch.len(), fatal.len()
    );
    for l in &rep.images {
        println!("image {l}");
    }
    for (k, v) in &rep.by_verdict {
        println!("verdict {v:>8} {k}");
    }
    for (k, (n, m, _)) in &rep.panics {
        println!("panic-site {n:>7} {k}  {m}");
    }
    if !fatal.is_empty() {
        for f in &fatal {
            println!("FATAL {f}");
        }
        std::process::exit(2);
    }
}

fn replay_main(args: &[String]) {
    install_hook();
    let hseed: u64 = args[0].parse().unwrap();
    let profile: u32 = args[1].parse().unwrap();
    let tag = &args[2];
    let spec = args.get(3).map(|s| s.as_str()).unwrap_or("none");
    let h = run_history(hseed, profile).expect("history");
    let img = h.images.iter().find(|i| &i.tag == tag).expect("image tag");
    let cps: Vec<String> = h.commits[..=img.upto].iter().map(|c| c.dump.clone()).collect();
    let ex = Expect { cps: &cps, savepoints: &img.savepoints, deep_savepoints: true, verbose: true };
    let mut b = img.bytes.clone();
    if let Some((n, fill)) = Alt::parse_len(spec) {
        println!("alter file length : {} -> {} (extension filled with {:#04x})", b.len(), n, fill);
    }
    for (off, bytes) in Alt::parse(spec) {
        if off + bytes.len() <= b.len() {
            println!("alter offset {} : {} -> {}", off, hex(&b[off..off + bytes.len()]), hex(&bytes));
        }
    }
    apply_spec(&mut b, Alt::parse_len(spec), &Alt::parse(spec));
    if let Ok(d) = fmt::decode(&img.bytes, PAGE_SIZE) {
        println!("byte class: {}", class_of_alt(&d, img.bytes.len(), Alt::parse_len(spec), &Alt::parse(spec)));
    }
    println!("model input: {}", fmt::export_file_line(&b, PAGE_SIZE).trim_end());
    if args.get(4).map(|s| s == "--write").unwrap_or(false) {
        std::fs::write("c12_replay_original.redb", &img.bytes).unwrap();
        std::fs::write("c12_replay_altered.redb", &b).unwrap();
        println!("wrote c12_replay_original.redb / c12_replay_altered.redb (page size {PAGE_SIZE})");
    }
    let o = evaluate(b, h.region_size, &ex);
    println!("history: {} commits; image {} ({} bytes)", h.commits.len(), img.tag, img.bytes.len());
    println!("open={} check_integrity={} dump={} second_check={} savepoints={} drop={}", o.open, o.c1, o.dump, o.c2, o.sp, o.dropped);
    if !o.panic_stage.is_empty() {
        println!("PANIC during {} at {}: {}", o.panic_stage, o.panic_loc, o.panic_msg);
    }
    println!("verdict: {}", verdict_code(&o, img.upto));
    if o.dump == "nomatch" {
        println!("--- served contents (no commit point):\n{}--- latest commit point:\n{}", o.dump_text, cps[img.upto]);
    }
}

/// Self-contained reproducer of the panics with the crate's DEFAULT configuration (4 KiB pages, a
/// real file, `Database::create` / `Database::open`): one table, one key, clean close, one byte altered.
fn minimal_main() {
    install_hook();
    let path = "c12_minimal.redb";
    let path2 = "c12_minimal_altered.redb";
    let _ = std::fs::remove_file(path);
    {
        let db = redb::Database::create(path).unwrap();
        let w = db.begin_write().unwrap();
        {
            let mut t = w.open_table(redb::TableDefinition::<u64, u64>::new("t")).unwrap();
            t.insert(1, 1).unwrap();
        }
        w.commit().unwrap();
    }
    let bytes = std::fs::read(path).unwrap();
    let d = fmt::decode(&bytes, 4096).expect("decode");
    println!("file of {} bytes, god byte {:#04x}, served slot {}", bytes.len(), bytes[9], d.served);
    for p in &d.pages {
        println!("  page at {:>7} len {:>5} used {:>4} {}", p.offset, p.len, p.used, p.kind);
    }
    let mut tried = 0;
    for p in d.pages.iter().filter(|p| p.kind.starts_with("sys")) {
        for (rel, what) in [(0usize, "page type byte"), (2, "entry count, low byte"), (4, "first offset, low byte"), (5, "first offset, second byte")] {
            for x in [0xffu8, 0x01] {
                let off = p.offset + rel;
                let mut b = bytes.clone();
                b[off] ^= x;
                std::fs::write(path2, &b).unwrap();
                let r = catch(|| redb::Database::open(path2).map(|mut db| db.check_integrity()));
                let res = match r {
                    Ok(Ok(Ok(v))) => format!("open ok, check_integrity Ok({v})"),
                    Ok(Ok(Err(e))) => format!("open ok, check_integrity Err({e})"),
                    Ok(Err(e)) => format!("open Err({e})"),
                    Err((loc, msg)) => format!("PANIC at {loc}: {msg}"),
                };
                println!("offset {off} ({} +{rel}: {what}) {:#04x} -> {:#04x}: {res}", p.kind, bytes[off], b[off]);
                tried += 1;
            }
        }
    }
    println!("{tried} alterations tried");
    let _ = std::fs::remove_file(path);
    let _ = std::fs::remove_file(path2);

    // ---- part 2: a page that only a persistent savepoint references is not verified
    println!("--- persistent savepoint");
    let def = redb::TableDefinition::<u64, u64>::new("t");
    {
        let db = redb::Database::create(path).unwrap();
        let w = db.begin_write().unwrap();
        w.open_table(def).unwrap().insert(1, 100).unwrap();
        w.commit().unwrap();
        let w = db.begin_write().unwrap();
        let id = w.persistent_savepoint().unwrap();
        w.commit().unwrap();
        println!("key 1 -> 100 committed, persistent savepoint {id} created");
        let w = db.begin_write().unwrap();
        w.open_table(def).unwrap().insert(1, 200).unwrap();
        w.commit().unwrap();
        println!("key 1 -> 200 committed, database closed");
    }
    let bytes = std::fs::read(path).unwrap();
    let d = fmt::decode(&bytes, 4096).expect("decode");
    for p in d.pages.iter().filter(|p| p.savepoint_only && p.kind.ends_with("table-leaf")) {
        // the value (a u64) is the last 8 bytes of the covered prefix: alter its lowest byte
        let off = p.offset + p.used - 8;
        let mut b = bytes.clone();
        b[off] ^= 0x01;
        std::fs::write(path2, &b).unwrap();
        println!("page at {} ({}), offset {off}: {:#04x} -> {:#04x}", p.offset, p.kind, bytes[off], b[off]);
        let r = catch(|| -> Result<String, redb::Error> {
            let mut db = redb::Database::open(path2)?;
            let c1 = db.check_integrity()?;
            let c2 = db.check_integrity()?;
            let rt = db.begin_read()?;
            let now = rt.open_table(def)?.get(1)?.map(|g| g.value());
            drop(rt);
            let mut w = db.begin_write()?;
            let ids: Vec<u64> = w.list_persistent_savepoints()?.collect();
            let sp = w.get_persistent_savepoint(ids[0])?;
            w.restore_savepoint(&sp)?;
            w.commit()?;
            let rt = db.begin_read()?;
            let restored = rt.open_table(def)?.get(1)?.map(|g| g.value());
            drop(rt);
            let c3 = db.check_integrity()?;
            Ok(format!("check_integrity = Ok({c1}), Ok({c2}); key 1 -> {now:?}; after restoring savepoint {}: key 1 -> {restored:?} (the savepoint captured 100); check_integrity afterwards = Ok({c3})", ids[0]))
        });
        match r {
            Ok(Ok(t)) => println!("{t}"),
            Ok(Err(e)) => println!("error: {e}"),
            Err((loc, msg)) => println!("PANIC at {loc}: {msg}"),
        }
    }
    let _ = std::fs::remove_file(path);
    let _ = std::fs::remove_file(path2);
}

fn main() {
    let args: Vec<String> = std::env::args().skip(1).collect();
    let _ = kind_static;
    match args.first().map(|s| s.as_str()) {
        Some("worker") => worker_main(&args[1..]),
        Some("replay") => replay_main(&args[1..]),
        Some("run") => run_main(&args[1..]),
        Some("minimal") => minimal_main(),
        _ => {
            eprintln!("usage: c12 run <budget> | worker ... | replay <history seed> <profile> <image tag> <off:hex,...> [--write]");
            std::process::exit(2);
        }
    }
}
