//! C06 harness: random histories over the real crate; after EVERY API call the page-ownership state is
//! observed through hook H3 and written to trace.txt (see own_util.rs for the format); the extracted
//! checker / model (ocaml/c06_driver.ml) evaluates `own_checkb` on every state (S3) and compares every
//! transition with the model's `step` (S2).  Rust-side direct checks (tracker refcounts, pinned pages
//! never rewritten, storage returns to pages(current) at quiescence, check_integrity) go to rust_viol.txt.
//!
//! usage: c06 <n_histories> <steps_per_history> [only <history>]
#[path = "../own_util.rs"]
mod own_util;

use own_util::*;
use redb::{Durability, MultimapTableDefinition, ReadableDatabase, TableDefinition};
use rv_harness::{Rng, catch, seed_from_env, silence_panics};
use std::collections::BTreeSet;
use std::fmt::Write as _;

const TABLES: [TableDefinition<u64, &[u8]>; 2] = [TableDefinition::new("t0"), TableDefinition::new("t1")];
const MM: MultimapTableDefinition<u64, &[u8]> = MultimapTableDefinition::new("m0");

#[derive(Clone, Debug)]
enum Kind {
    Nop,
    BeginWrite,
    Mut,
    BeginRead(u64),
    DropPin(u64),
    SpCreate(u64, bool),
    SpDelete(u64),
    Restore(u64, Vec<u64>),
    Abort,
    CommitDur(bool),
    CommitNd,
    Reopen,
    Opaque,
}

struct Gen {
    r: Rng,
    w: World,
    trace: String,
    log: Vec<String>,
    hist: usize,
    step: usize,
    dead: bool,
    // write-transaction flags mirrored by the harness
    immediate: bool,
    qr: bool,
    dirty: bool,
    /// successful restore_savepoint calls in the live write transaction
    restores_in_txn: u32,
    // statistics
    stats: std::collections::BTreeMap<String, u64>,
    viol: Vec<String>,
    max_regions_touched: u64,
    sigs: BTreeSet<String>,
}

fn vsize(r: &mut Rng) -> usize {
    *r.pick(&[8usize, 8, 40, 40, 200, 200, 700, 1500, 3000])
}

impl Gen {
    fn count(&mut self, k: &str) {
        *self.stats.entry(k.to_string()).or_default() += 1;
    }

    fn after(&mut self, label: &str, kind: Kind) {
        if self.dead {
            return;
        }
        self.step += 1;
        self.log.push(label.to_string());
        self.count(label.split(' ').next().unwrap());
        let obs = match self.w.observe() {
            Ok(o) => o,
            Err(e) => {
                self.viol.push(format!("h{} s{} after `{label}`: {e}", self.hist, self.step));
                self.dead = true;
                return;
            }
        };
        let a = &obs.abs;
        let l = |x: &Vec<u64>| fmt_list(x);
        let mut ops: Vec<String> = vec![];
        match &kind {
            Kind::Nop => {}
            Kind::BeginWrite => ops.push("O bw".into()),
            Kind::Mut => {
                ops.push(format!("O md {}", l(&a.wdata)));
                ops.push(format!("O ms {}", l(&a.wsys)));
            }
            Kind::BeginRead(h) => ops.push(format!("O br {h}")),
            Kind::DropPin(h) => ops.push(format!("O dp {h}")),
            Kind::SpCreate(h, p) => {
                ops.push(format!("O sc {h} {}", u8::from(*p)));
                ops.push(format!("O md {}", l(&a.wdata)));
                ops.push(format!("O ms {}", l(&a.wsys)));
            }
            Kind::SpDelete(h) => {
                ops.push(format!("O sd {h}"));
                ops.push(format!("O ms {}", l(&a.wsys)));
            }
            Kind::Restore(h, dels) => {
                ops.push(format!("O rs {h}"));
                for d in dels {
                    ops.push(format!("O sd {d}"));
                }
                ops.push(format!("O ms {}", l(&a.wsys)));
            }
            Kind::Abort => ops.push("O ab".into()),
            Kind::CommitDur(qr) => {
                let so = if obs.db.mem.read_from_secondary { l(&a.lat.2) } else { "-".into() };
                ops.push(format!("O cd {} 1 {}|{}|{}", u8::from(*qr), l(&a.dur.1), l(&a.dur.2), so));
            }
            Kind::CommitNd => ops.push(format!("O cn {}|{}", l(&a.lat.1), l(&a.lat.2))),
            Kind::Reopen => {
                ops.push("O bw".into());
                ops.push(format!("O cd 1 0 {}|{}|-", l(&a.dur.1), l(&a.dur.2)));
                ops.push("O ro".into());
            }
            Kind::Opaque => ops.push(format!("X {}", label.replace(' ', "_"))),
        }
        for o in ops {
            self.trace.push_str(&o);
            self.trace.push('\n');
        }
        let lab = format!("h{}.{}:{}", self.hist, self.step, label.replace(' ', "_"));
        self.trace.push_str(&a.line(&lab));
        self.trace.push('\n');
        let regions = obs.db.mem.regions.iter().filter(|r| !r.allocated_order0.is_empty()).count() as u64;
        self.max_regions_touched = self.max_regions_touched.max(regions);
        // a signature of the bookkeeping situation (for distinct_nontrivial)
        let sig = format!(
            "{:?}/{}/{}/{}/{}/{}/{}/{}",
            std::mem::discriminant(&kind), a.inw, a.pins.len().min(3), a.pend.len().min(2),
            a.dfreed.len().min(2), a.sfreed.len().min(2), a.ufreed.len().min(2), regions.min(3)
        );
        self.sigs.insert(sig);
        let rv: Vec<String> = self.w.rust_violations.drain(..).collect();
        for v in rv {
            self.viol.push(format!("h{} s{} after `{label}`: {v}", self.hist, self.step));
        }
    }

    fn begin_write(&mut self) {
        let t = self.w.db().begin_write().expect("begin_write");
        self.w.wtx = Some(t);
        self.immediate = true;
        self.qr = false;
        self.dirty = false;
        self.restores_in_txn = 0;
        self.after("begin_write", Kind::BeginWrite);
    }

    fn table_op(&mut self) {
        let which = self.r.below(100);
        let t = self.w.wtx.as_ref().unwrap();
        let label;
        let keyspace = *self.r.pick(&[30u64, 200, 200, 1000]);
        if which < 45 {
            let ti = self.r.below(2) as usize;
            let n = *self.r.pick(&[1u64, 3, 10, 30, 60]);
            let sz = vsize(&mut self.r);
            let mut tab = t.open_table(TABLES[ti]).unwrap();
            for _ in 0..n {
                let k = self.r.below(keyspace);
                let v = vec![(k & 0xff) as u8; sz];
                tab.insert(k, v.as_slice()).unwrap();
            }
            label = format!("insert t{ti} n={n} size={sz}");
        } else if which < 65 {
            let ti = self.r.below(2) as usize;
            let n = *self.r.pick(&[1u64, 5, 20, 80]);
            let mut tab = t.open_table(TABLES[ti]).unwrap();
            for _ in 0..n {
                let k = self.r.below(keyspace);
                tab.remove(k).unwrap();
            }
            label = format!("remove t{ti} n={n}");
        } else if which < 72 {
            let ti = self.r.below(2) as usize;
            let m = self.r.range(2, 4);
            let mut tab = t.open_table(TABLES[ti]).unwrap();
            tab.retain(|k, _| k % m == 0).unwrap();
            label = format!("retain t{ti} mod{m}");
        } else if which < 85 {
            let n = *self.r.pick(&[1u64, 5, 20]);
            let sz = *self.r.pick(&[4usize, 30, 300]);
            let mut tab = t.open_multimap_table(MM).unwrap();
            for _ in 0..n {
                let k = self.r.below(20);
                let mut v = vec![0u8; sz];
                v[0] = self.r.below(40) as u8;
                tab.insert(k, v.as_slice()).unwrap();
            }
            label = format!("mminsert n={n} size={sz}");
        } else if which < 92 {
            let mut tab = t.open_multimap_table(MM).unwrap();
            let n = self.r.range(1, 8);
            for _ in 0..n {
                let k = self.r.below(20);
                tab.remove_all(k).unwrap();
            }
            label = format!("mmremove_all n={n}");
        } else if which < 97 {
            let ti = self.r.below(2) as usize;
            t.delete_table(TABLES[ti]).unwrap();
            label = format!("delete_table t{ti}");
        } else {
            t.delete_multimap_table(MM).unwrap();
            label = "delete_multimap_table".to_string();
        }
        self.dirty = true;
        self.after(&label, Kind::Mut);
    }

    fn commit(&mut self) {
        let t = self.w.wtx.take().unwrap();
        let snap = t.verif_snapshot();
        let deleted: Vec<u64> = snap.savepoint_state.deleted_persistent.iter().map(|(id, _)| World::handle_of_savepoint(*id)).collect();
        let invalidated: Vec<u64> = snap.savepoint_state.invalidated.iter().map(|id| World::handle_of_savepoint(*id)).collect();
        let imm = self.immediate;
        let qr = self.qr;
        match catch(|| t.commit()) {
            Ok(Ok(())) => {}
            other => {
                self.viol.push(format!("h{} s{}: commit failed unexpectedly: {other:?}", self.hist, self.step));
                self.dead = true;
                return;
            }
        }
        self.w.pins.retain(|p| !deleted.contains(&p.handle));
        for p in self.w.pins.iter_mut() {
            if invalidated.contains(&p.handle) {
                p.valid = false;
            }
        }
        if imm {
            self.after(&format!("commit durable qr={}", u8::from(qr)), Kind::CommitDur(qr));
        } else {
            self.after("commit nondurable", Kind::CommitNd);
        }
    }

    fn abort(&mut self, by_drop: bool) {
        let t = self.w.wtx.take().unwrap();
        let snap = t.verif_snapshot();
        let created: Vec<u64> = snap.savepoint_state.created_persistent.iter().map(|(id, _)| World::handle_of_savepoint(*id)).collect();
        if by_drop {
            drop(t);
        } else {
            t.abort().unwrap();
        }
        self.w.pins.retain(|p| !created.contains(&p.handle));
        self.after(if by_drop { "drop_txn" } else { "abort" }, Kind::Abort);
    }

    fn begin_read(&mut self) {
        let rt = self.w.db().begin_read().unwrap();
        let (txn, root) = rt.verif_root();
        let h = self.w.next_handle;
        self.w.next_handle += 1;
        match self.w.pin_pages(root) {
            Ok((pages, content)) => {
                self.w.pins.push(Pin { handle: h, kind: PinKind::Reader(rt), txn, root, pages, content, valid: true });
                self.after("begin_read", Kind::BeginRead(h));
            }
            Err(e) => {
                self.viol.push(format!("h{} s{}: new reader cannot walk its own root: {e}", self.hist, self.step));
                self.dead = true;
            }
        }
    }

    fn drop_pin(&mut self) {
        let cands: Vec<usize> = (0..self.w.pins.len()).filter(|i| !self.w.pins[*i].persistent()).collect();
        if cands.is_empty() {
            return;
        }
        let i = *self.r.pick(&cands);
        let p = self.w.pins.remove(i);
        let h = p.handle;
        let what = if matches!(p.kind, PinKind::Reader(_)) { "drop_reader" } else { "drop_ephemeral_savepoint" };
        drop(p);
        self.after(what, Kind::DropPin(h));
    }

    fn savepoint(&mut self, persistent: bool) {
        let t = self.w.wtx.as_ref().unwrap();
        if persistent {
            match t.persistent_savepoint() {
                Ok(id) => {
                    let sp = t.get_persistent_savepoint(id).unwrap();
                    let rec = sp.verif_record();
                    drop(sp);
                    let h = World::handle_of_savepoint(id);
                    let (pages, content) = self.w.pin_pages(rec.data_root).unwrap();
                    self.w.pins.push(Pin { handle: h, kind: PinKind::Pers(id), txn: rec.transaction_id, root: rec.data_root, pages, content, valid: true });
                    self.after("persistent_savepoint", Kind::SpCreate(h, true));
                }
                Err(_) => self.after("persistent_savepoint rejected", Kind::Nop),
            }
        } else {
            match t.ephemeral_savepoint() {
                Ok(sp) => {
                    let rec = sp.verif_record();
                    let h = World::handle_of_savepoint(rec.id);
                    let (pages, content) = self.w.pin_pages(rec.data_root).unwrap();
                    self.w.pins.push(Pin { handle: h, kind: PinKind::Eph(sp), txn: rec.transaction_id, root: rec.data_root, pages, content, valid: true });
                    self.after("ephemeral_savepoint", Kind::SpCreate(h, false));
                }
                Err(_) => self.after("ephemeral_savepoint rejected", Kind::Nop),
            }
        }
    }

    fn delete_persistent(&mut self) {
        let cands: Vec<(u64, u64)> = self.w.pins.iter().filter_map(|p| if let PinKind::Pers(id) = p.kind { Some((p.handle, id)) } else { None }).collect();
        if cands.is_empty() {
            return;
        }
        let (h, id) = *self.r.pick(&cands);
        let t = self.w.wtx.as_ref().unwrap();
        let snap = t.verif_snapshot();
        if snap.savepoint_state.deleted_persistent.iter().any(|(i, _)| *i == id) {
            return;
        }
        match t.delete_persistent_savepoint(id) {
            Ok(true) => self.after("delete_persistent_savepoint", Kind::SpDelete(h)),
            Ok(false) => self.after("delete_persistent_savepoint absent", Kind::Nop),
            Err(_) => self.after("delete_persistent_savepoint rejected", Kind::Nop),
        }
    }

    fn restore(&mut self) {
        let cands: Vec<usize> = (0..self.w.pins.len()).filter(|i| !matches!(self.w.pins[*i].kind, PinKind::Reader(_))).collect();
        if cands.is_empty() {
            return;
        }
        let i = *self.r.pick(&cands);
        self.restore_at(i);
    }

    fn restore_at(&mut self, i: usize) {
        let before = self.w.wtx.as_ref().unwrap().verif_snapshot();
        let mut t = self.w.wtx.take().unwrap();
        let (h, res, spid) = {
            let p = &self.w.pins[i];
            match &p.kind {
                PinKind::Eph(sp) => (p.handle, t.restore_savepoint(sp), sp.verif_record().id),
                PinKind::Pers(id) => match t.get_persistent_savepoint(*id) {
                    Ok(sp) => (p.handle, t.restore_savepoint(&sp), *id),
                    Err(e) => (p.handle, Err(e), *id),
                },
                PinKind::Reader(_) => unreachable!(),
            }
        };
        let poisoned = t.verif_snapshot().poisoned;
        self.w.wtx = Some(t);
        match res {
            Ok(()) => {
                let after = self.w.wtx.as_ref().unwrap().verif_snapshot();
                let dels: Vec<u64> = after
                    .savepoint_state
                    .deleted_persistent
                    .iter()
                    .filter(|x| !before.savepoint_state.deleted_persistent.contains(x))
                    .map(|(id, _)| World::handle_of_savepoint(*id))
                    .collect();
                self.dirty = true;
                self.restores_in_txn += 1;
                if self.restores_in_txn == 2 {
                    self.count("note_second_restore_in_one_transaction");
                }
                self.after(&format!("restore_savepoint {spid}"), Kind::Restore(h, dels));
            }
            Err(_) => {
                if poisoned {
                    self.viol.push(format!("h{} s{}: restore failed part-way and poisoned the transaction without a storage fault", self.hist, self.step));
                    self.dead = true;
                } else {
                    self.after("restore_savepoint rejected", Kind::Nop);
                }
            }
        }
    }

    fn reopen(&mut self) {
        // readers / ephemeral savepoints must be gone first (each drop is its own API call)
        while self.w.pins.iter().any(|p| !p.persistent()) {
            self.drop_pin();
            if self.dead {
                return;
            }
        }
        let db = self.w.db.take().unwrap();
        drop(db);
        self.w.open();
        self.after("reopen", Kind::Reopen);
    }

    fn compact(&mut self) {
        let mut db = self.w.db.take().unwrap();
        let r = catch(|| db.compact());
        self.w.db = Some(db);
        match r {
            Ok(Ok(_)) => self.after("compact", Kind::Opaque),
            Ok(Err(_)) => self.after("compact rejected", Kind::Nop),
            Err(p) => {
                self.viol.push(format!("h{} s{}: compact panicked: {p}", self.hist, self.step));
                self.dead = true;
            }
        }
    }

    fn check_integrity(&mut self) {
        let before: BTreeSet<(u32, u32)> = self.w.db().verif_snapshot().mem.allocated_order0().into_iter().collect();
        let mut db = self.w.db.take().unwrap();
        let r = catch(|| db.check_integrity());
        self.w.db = Some(db);
        match r {
            Ok(Ok(true)) => self.after("check_integrity", Kind::Opaque),
            Ok(Ok(false)) => {
                // Ok(false) = "the allocator state differed from the rebuild and was repaired". It is a
                // C06 defect only if the set of allocated pages actually changed; a mere layout
                // difference (file grown by an aborted transaction) is recorded as a note (see design.d/C06.md)
                let after: BTreeSet<(u32, u32)> = self.w.db().verif_snapshot().mem.allocated_order0().into_iter().collect();
                if before != after {
                    self.viol.push(format!(
                        "h{} s{}: check_integrity() repaired the allocator: {} pages were allocated before, {} after the rebuild",
                        self.hist, self.step, before.len(), after.len()
                    ));
                } else {
                    self.count("note_check_integrity_false_same_allocation");
                }
                self.after("check_integrity", Kind::Opaque);
            }
            Ok(Err(_)) => self.after("check_integrity rejected", Kind::Nop),
            Err(p) => {
                self.viol.push(format!("h{} s{}: check_integrity panicked: {p}", self.hist, self.step));
                self.dead = true;
            }
        }
    }

    fn set_durability(&mut self, none: bool) {
        let t = self.w.wtx.as_mut().unwrap();
        let r = t.set_durability(if none { Durability::None } else { Durability::Immediate });
        if r.is_ok() {
            self.immediate = !none;
        }
        self.after(if none { "set_durability none" } else { "set_durability immediate" }, Kind::Nop);
    }

    /// Directed-random segment: a ladder of 2-4 savepoints, one per transaction, the commits between them mostly
    /// non-durable (so that the pending-free records of the rolled-back commits live in memory only); then ONE write
    /// transaction restores one to three of them -- newest to oldest (each one legal), oldest to newest (the later ones
    /// were invalidated by the first) or in random order -- with table operations in between sometimes; then the
    /// savepoints are released between further commits. Every call is observed and checked like any other.
    fn ladder(&mut self) {
        if self.w.wtx.is_some() {
            self.commit();
        }
        self.count("note_savepoint_ladders");
        let rungs = self.r.range(2, 4);
        let all_ephemeral = self.r.chance(2, 3);
        let mut rung_handles: Vec<u64> = vec![];
        for _ in 0..rungs {
            if self.dead {
                return;
            }
            self.begin_write();
            let persistent = !all_ephemeral && self.r.chance(1, 2);
            let n0 = self.w.pins.len();
            self.savepoint(persistent);
            if self.w.pins.len() > n0 {
                rung_handles.push(self.w.pins.last().unwrap().handle);
            }
            if !persistent && self.r.chance(3, 4) {
                self.set_durability(true);
            }
            for _ in 0..self.r.range(1, 3) {
                self.table_op();
            }
            if self.r.chance(1, 6) {
                self.begin_read();
            }
            self.commit();
        }
        if self.dead {
            return;
        }
        self.begin_write();
        if self.r.chance(1, 3) {
            self.set_durability(true);
        }
        let mut order: Vec<u64> = rung_handles.clone();
        match self.r.below(4) {
            0 | 1 => order.reverse(),
            2 => {}
            _ => {
                for i in (1..order.len()).rev() {
                    let j = self.r.below(i as u64 + 1) as usize;
                    order.swap(i, j);
                }
            }
        }
        let nrest = self.r.range(1, 3) as usize;
        if nrest < order.len() && self.r.chance(1, 2) {
            // not always starting from the newest / oldest one
            order.remove(0);
        }
        for h in order.into_iter().take(nrest) {
            if self.dead {
                return;
            }
            if self.r.chance(1, 4) {
                self.table_op();
            }
            if let Some(i) = self.w.pins.iter().position(|p| p.handle == h) {
                self.restore_at(i);
            }
        }
        if self.dead {
            return;
        }
        if self.r.chance(1, 3) {
            self.table_op();
        }
        if self.r.chance(1, 8) {
            self.abort(false);
        } else {
            self.commit();
        }
        // release what pins pages, with commits in between
        for _ in 0..self.r.range(2, 6) {
            if self.dead {
                return;
            }
            match self.r.below(3) {
                0 => {
                    self.begin_write();
                    if self.r.chance(1, 3) {
                        self.set_durability(true);
                    }
                    if self.r.chance(1, 2) {
                        self.table_op();
                    }
                    self.commit();
                }
                _ => self.drop_pin(),
            }
        }
    }

    fn step_once(&mut self) {
        let x = self.r.below(100);
        // a transaction that has restored a savepoint sometimes restores another one
        if self.w.wtx.is_some() && self.restores_in_txn > 0 && self.restores_in_txn < 3 && self.r.chance(1, 4) {
            self.restore();
            return;
        }
        if self.w.wtx.is_none() {
            match x {
                0..=54 => self.begin_write(),
                55..=69 => self.begin_read(),
                70..=81 => self.drop_pin(),
                82..=87 => self.reopen(),
                88..=91 => self.compact(),
                92..=95 => self.check_integrity(),
                96..=97 => self.ladder(),
                _ => self.begin_write(),
            }
        } else {
            match x {
                0..=43 => self.table_op(),
                44..=61 => self.commit(),
                62..=66 => self.abort(false),
                67..=68 => self.abort(true),
                69..=75 => {
                    let none = self.r.chance(2, 3);
                    self.set_durability(none);
                }
                76..=77 => {
                    let on = self.r.chance(1, 2);
                    self.w.wtx.as_mut().unwrap().set_two_phase_commit(on);
                    self.after("set_two_phase_commit", Kind::Nop);
                }
                78..=80 => {
                    let on = self.r.chance(2, 3);
                    self.w.wtx.as_mut().unwrap().set_quick_repair(on);
                    self.qr = on;
                    self.after("set_quick_repair", Kind::Nop);
                }
                81..=84 => self.savepoint(false),
                85..=87 => self.savepoint(true),
                88..=91 => self.restore(),
                92..=93 => self.delete_persistent(),
                94..=96 => self.begin_read(),
                _ => self.drop_pin(),
            }
        }
    }

    /// Everything that holds pages is released and two durable commits pass: storage must be back to
    /// exactly the pages of the current trees (bounded_storage).
    fn quiesce(&mut self) {
        if self.dead {
            return;
        }
        if self.w.wtx.is_some() {
            self.commit();
        }
        while !self.dead && self.w.pins.iter().any(|p| !p.persistent()) {
            self.drop_pin();
        }
        if self.dead {
            return;
        }
        if self.w.pins.iter().any(|p| p.persistent()) {
            self.begin_write();
            while !self.dead && self.w.pins.iter().any(|p| p.persistent()) {
                let n = self.w.pins.len();
                self.delete_persistent();
                if self.w.wtx.as_ref().map(|t| t.verif_snapshot().savepoint_state.deleted_persistent.len()).unwrap_or(0) >= n {
                    break;
                }
            }
            if self.dead {
                return;
            }
            self.commit();
        }
        // three, not two: the first one's epilogue records the system pages it unlinked under a
        // non-durable id, which pins its durable ancestor through the second commit
        for _ in 0..3 {
            if self.dead {
                return;
            }
            self.begin_write();
            self.commit();
        }
        if self.dead {
            return;
        }
        if let Ok(o) = self.w.observe() {
            let a = &o.abs;
            if !(a.dfreed.is_empty() && a.sfreed.is_empty() && a.ufreed.is_empty() && a.unpers.is_empty()) {
                self.viol.push(format!(
                    "h{}: storage did not return to pages(current) after all readers/savepoints were released and three durable commits passed: dfreed={:?} sfreed={:?} ufreed={:?} unpers={}",
                    self.hist, a.dfreed.keys().collect::<Vec<_>>(), a.sfreed.keys().collect::<Vec<_>>(), a.ufreed.keys().collect::<Vec<_>>(), a.unpers.len()
                ));
            }
            let owned: BTreeSet<u64> = a.lat.1.iter().chain(a.lat.2.iter()).copied().collect();
            let alloc: BTreeSet<u64> = a.alloc.iter().copied().collect();
            if owned != alloc {
                self.viol.push(format!("h{}: at quiescence allocated ({}) != pages(current) ({})", self.hist, alloc.len(), owned.len()));
            }
            self.count("quiescent_checks");
        }
    }
}

fn run_history(g: &mut Gen, churn: bool, steps: usize, plateau: &mut Vec<Vec<u64>>) {
    let hist = g.hist;
    g.after("create", Kind::Opaque);
    if churn {
        // steady churn: the same keys rewritten every round, a reader held across some rounds;
        // the allocated count after quiescence must plateau
        let mut series = vec![];
        for round in 0..12u64 {
            if g.dead {
                break;
            }
            if round % 4 == 1 {
                g.begin_read();
            }
            g.begin_write();
            if round % 3 == 2 {
                g.w.wtx.as_mut().unwrap().set_durability(Durability::None).unwrap();
                g.immediate = false;
                g.after("set_durability none", Kind::Nop);
            }
            {
                let t = g.w.wtx.as_ref().unwrap();
                let mut tab = t.open_table(TABLES[0]).unwrap();
                for k in 0..40u64 {
                    let v = vec![(round & 0xff) as u8; 120];
                    tab.insert(k, v.as_slice()).unwrap();
                }
            }
            g.after("insert t0 n=40 size=120", Kind::Mut);
            g.commit();
            if round % 4 == 3 {
                g.quiesce();
                if let Ok(o) = g.w.observe() {
                    series.push(o.db.mem.allocated_page_count);
                }
            }
        }
        if series.len() >= 3 {
            let first = series[0];
            let last = *series.last().unwrap();
            if last > first + first / 4 + 4 {
                g.viol.push(format!("h{hist}: allocated pages keep growing under steady churn: {series:?}"));
            }
        }
        plateau.push(series);
    } else {
        // every fifth history is built around savepoint ladders, with random calls between them
        let ladders = hist % 5 == 2;
        let mut k = 0;
        while k < steps {
            if g.dead {
                break;
            }
            if ladders && k % 12 == 4 {
                g.ladder();
                k += 8;
            } else {
                g.step_once();
                k += 1;
            }
        }
        g.quiesce();
    }
}

fn main() {
    silence_panics();
    let args: Vec<String> = std::env::args().collect();
    let n: usize = args.get(1).map(|s| s.parse().unwrap()).unwrap_or(20);
    let steps: usize = args.get(2).map(|s| s.parse().unwrap()).unwrap_or(40);
    let only: Option<usize> = if args.get(3).map(|s| s.as_str()) == Some("only") { Some(args[4].parse().unwrap()) } else { None };
    let mut master = Rng::new(seed_from_env());
    let configs: [(usize, u64); 6] = [(512, 16), (512, 16), (512, 16), (512, 64), (1024, 8), (4096, 0)];
    let mut trace = String::new();
    let mut viol: Vec<String> = vec![];
    let mut logs = String::new();
    let mut stats = std::collections::BTreeMap::<String, u64>::new();
    let mut sigs = BTreeSet::new();
    let mut states = 0usize;
    let mut max_regions = 0u64;
    let mut plateau: Vec<Vec<u64>> = vec![];
    for hist in 0..n {
        let r = master.fork(hist as u64);
        if only.is_some() && only != Some(hist) {
            continue;
        }
        let cfg = configs[hist % configs.len()];
        let churn = hist % 10 == 9;
        let mut g = Gen {
            r,
            w: World::create(cfg.0, cfg.1),
            trace: String::new(),
            log: vec![],
            hist,
            step: 0,
            dead: false,
            immediate: true,
            qr: false,
            dirty: false,
            restores_in_txn: 0,
            stats: Default::default(),
            viol: vec![],
            max_regions_touched: 0,
            sigs: BTreeSet::new(),
        };
        writeln!(g.trace, "H {hist} page={} region_pages={}", cfg.0, cfg.1).unwrap();
        // a panic inside the engine on a valid API sequence (e.g. a debug assertion about a page
        // that is freed twice or still referenced) ends the history and is reported with it
        let res = catch(|| run_history(&mut g, churn, steps, &mut plateau));
        if let Err(msg) = res {
            let last = g.log.last().cloned().unwrap_or_default();
            g.viol.push(format!("h{} s{}: engine panicked after `{}`: {}", hist, g.step, last, msg.chars().take(300).collect::<String>()));
            g.dead = true;
        }
        states += g.step;
        trace.push_str(&g.trace);
        for v in &g.viol {
            viol.push(v.clone());
        }
        if !g.viol.is_empty() || only.is_some() {
            writeln!(logs, "history {hist} config {cfg:?}:").unwrap();
            for (i, l) in g.log.iter().enumerate() {
                writeln!(logs, "  {}: {l}", i + 1).unwrap();
            }
        }
        for (k, v) in g.stats {
            *stats.entry(k).or_default() += v;
        }
        for s in g.sigs {
            sigs.insert(s);
        }
        max_regions = max_regions.max(g.max_regions_touched);
        if g.dead {
            // the engine may be in a poisoned state: do not run its destructors
            std::mem::forget(g.w);
        } else {
            g.w.wtx.take().map(|t| t.abort());
            g.w.pins.clear();
        }
    }
    std::fs::write("trace.txt", trace).unwrap();
    std::fs::write("rust_viol.txt", viol.join("\n")).unwrap();
    std::fs::write("history_logs.txt", logs).unwrap();
    let mut st = String::new();
    for (k, v) in &stats {
        write!(st, "{k}={v} ").unwrap();
    }
    println!("histories={n} states={states} distinct_situations={} max_regions_in_use={max_regions} rust_violations={} plateau={:?}", sigs.len(), viol.len(), plateau);
    println!("ops: {st}");
}
