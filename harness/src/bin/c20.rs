//! C20 harness: runs the real crate over monitoring storage backends and writes
//!   cases.txt  one case per line for the extracted model (contract monitor, layout functions)
//!   impl.txt   what the implementation / the harness' own monitor computed for the same line
//!   meta.txt   one JSON-ish description per line (scenario, history) used for replays
//!   stats.txt  measured distribution
//! Line kinds: T (trace), LC/LR/LB/PA (layout differential), LF (length accepted?), U (used page in bounds),
//! H / HT (shutdown model stream / close-timing oracle per API step: harness/src/c20_close.rs).
#![allow(clippy::too_many_arguments)]

#[path = "../c08_util.rs"]
mod util;
#[path = "../c20_close.rs"]
mod close;

use redb::{ReadableDatabase, ReadableTable, RepairSession};
use rv_harness::{Rng, catch, seed_from_env, silence_panics, tier_is_thorough};
use std::collections::{BTreeMap, BTreeSet};
use std::fmt::Write as _;
use std::io::Write as _;
use util::*;

struct Out {
    cases: Vec<String>,
    impls: Vec<String>,
    metas: Vec<String>,
    trace_hashes: BTreeSet<u64>,
    nontrivial: BTreeSet<u64>,
    n_traces: u64,
    n_events: u64,
    kinds: BTreeMap<&'static str, u64>,
    scen: BTreeMap<String, u64>,
    markers: BTreeMap<&'static str, u64>,
    anomalies: Vec<String>,
}

/// consume a range until its end or its first error (an iterator keeps yielding the error)
fn drain<T, E>(it: impl Iterator<Item = Result<T, E>>) -> usize {
    let mut n = 0;
    for x in it {
        if x.is_err() {
            break;
        }
        n += 1;
    }
    n
}

fn fnv(s: &str) -> u64 {
    let mut h: u64 = 0xcbf29ce484222325;
    for b in s.bytes() {
        h ^= u64::from(b);
        h = h.wrapping_mul(0x100000001b3);
    }
    h
}

impl Out {
    fn push(&mut self, case: String, imp: String, meta: String) {
        self.cases.push(case);
        self.impls.push(imp);
        self.metas.push(meta.replace('\n', " "));
    }

    /// a complete trace of one backend object
    fn trace(&mut self, scen: &str, ro: bool, be: &MonBackend, meta: String, complete: bool) {
        let reordered;
        {
            // With several threads the backend's own lock order is not the order in which redb made
            // the calls.  Order calls by the moment they ENTERED the backend and the close by the
            // moment it RETURNED: a call is "after close" only if it began after close() had returned
            // (calls overlapping the close get the benefit of the doubt).  Single-threaded: no change.
            let mut g = be.lock();
            let cx = g.close_exit_seq;
            let before: Vec<u64> = g.events.iter().map(|e| e.seq).collect();
            g.events.sort_by_key(|e| if e.kind == Kind::Close && cx != 0 { cx } else { e.seq });
            reordered = before != g.events.iter().map(|e| e.seq).collect::<Vec<_>>();
        }
        if reordered {
            *self.markers.entry("trace_with_overlapping_calls_reordered").or_default() += 1;
        }
        let g = be.lock();
        let id = format!("{}#{}", scen, self.n_traces);
        let line = trace_line(&id, ro, g.len0, &g.events);
        let (c, p) = rust_monitor(ro, g.len0, &g.events);
        // cross-check the backend's own counters with the event list
        let own_ok = g.closes == 1 && g.calls_after_close == 0 && g.oob.is_empty();
        // (the backend's counters follow its lock order, so they are comparable only if no calls overlapped)
        if complete && !reordered && own_ok != c {
            self.anomalies.push(format!("{id}: backend counters (closes={}, after_close={}, oob={}) disagree with the event monitor {c}", g.closes, g.calls_after_close, g.oob.len()));
        }
        let h = fnv(&line[line.find(' ').map(|i| i + 1 + id.len()).unwrap_or(0)..]);
        self.n_traces += 1;
        self.n_events += g.events.len() as u64;
        for e in &g.events {
            *self.kinds.entry(e.kind.name()).or_default() += 1;
            if !e.ok {
                *self.kinds.entry("failed").or_default() += 1;
            }
        }
        *self.scen.entry(scen.split(':').next().unwrap().to_string()).or_default() += 1;
        let shrinks = {
            let mut len = g.len0;
            let mut n = 0;
            for e in &g.events {
                if e.kind == Kind::SetLen && e.ok {
                    if e.off < len {
                        n += 1;
                    }
                    len = e.off;
                }
            }
            n
        };
        if shrinks > 0 {
            *self.markers.entry("trace_with_shrink").or_default() += 1;
        }
        if g.events.iter().any(|e| e.kind == Kind::SetLen && e.ok) {
            *self.markers.entry("trace_with_set_len").or_default() += 1;
        }
        if g.events.iter().any(|e| !e.ok) {
            *self.markers.entry("trace_with_failed_call").or_default() += 1;
        }
        if self.trace_hashes.insert(h) && (g.events.iter().any(|e| (e.kind == Kind::SetLen) || !e.ok) || scen != "hist") {
            self.nontrivial.insert(h);
        }
        let imp = format!("c={} p={} bad={}", c as u8, p as u8, first_bad(ro, g.len0, &g.events).map_or("-".to_string(), |i| format!("{i:x}")));
        let exp = if complete { "complete" } else { "prefix" };
        // for the violation key: is the first call after the (first) close made by the closing thread?
        let same_thread = g
            .events
            .iter()
            .position(|e| e.kind == Kind::Close)
            .and_then(|ci| g.events.get(ci + 1).map(|e| e.tid == g.events[ci].tid));
        let meta = match same_thread {
            Some(b) => format!("\"first_call_after_close_by_closing_thread\":{b},{meta}"),
            None => meta,
        };
        drop(g);
        self.push(line, imp, format!("{{\"scenario\":\"{scen}\",\"expect\":\"{exp}\",{meta}}}"));
    }
}

fn first_bad(ro: bool, len0: u64, events: &[Ev]) -> Option<usize> {
    for i in 0..events.len() {
        let (_, p) = rust_monitor(ro, len0, &events[..=i]);
        if !p {
            return Some(i);
        }
    }
    None
}

// ------------------------------------------------------------------------------------------------
// layout differential

fn fmt_layout(l: &redb::verif::VLayout) -> String {
    format!(
        "{:x} {:x} {:x} {:x} {} {:x} {:x} {:x}",
        l.num_full_regions,
        l.full_region_pages,
        l.header_pages,
        l.page_size,
        l.trailing_pages.map_or("-".to_string(), |t| format!("{t:x}")),
        l.num_regions,
        l.len,
        l.usable_bytes
    )
}

fn layout_cases(rng: &mut Rng, n: usize, out: &mut Out) {
    let page_sizes = [512u32, 1024, 4096, 16384, 65536];
    for i in 0..n {
        let ps = *rng.pick(&page_sizes);
        let max_cap = std::cmp::min(1u64 << 20, (1u64 << 32) / u64::from(ps)) as u32;
        let cap = match rng.below(6) {
            0 => 1,
            1 => max_cap,
            2 => rng.range(1, 8) as u32,
            3 => 1 << rng.range(0, 20).min(u64::from(max_cap.ilog2())),
            _ => rng.range(1, u64::from(max_cap)) as u32,
        };
        let hdr = *rng.pick(&[0u32, 0, 0, 1, 2, 7]);
        let usable = u64::from(cap) * u64::from(ps);
        let desired = match rng.below(8) {
            0 => 1,
            1 => usable,
            2 => usable + 1,
            3 => usable - 1,
            4 => usable * rng.range(1, 50),
            5 => usable * rng.range(1, 50) + rng.range(1, u64::from(ps)),
            6 => rng.range(1, u64::from(ps) * 3),
            _ => rng.range(1, usable * 20),
        }
        .max(1);
        // calculate
        let r = catch(|| redb::verif::layout_calculate(desired, cap, hdr, ps));
        let case = format!("LC {desired:x} {cap:x} {hdr:x} {ps:x}");
        let meta = format!("\"i\":{i}");
        let Ok(l) = r else {
            out.push(case, "panic".into(), meta);
            continue;
        };
        out.push(case, fmt_layout(&l), meta.clone());
        *out.markers.entry(if l.num_full_regions == 0 { "layout_single_region" } else if l.trailing_pages.is_some() { "layout_multi_with_trailing" } else { "layout_multi_exact" }).or_default() += 1;
        // recalculate on the exact length and on perturbed lengths (>= one page)
        let lens = [
            l.len,
            l.len + u64::from(ps) * rng.range(0, 3),
            l.len.saturating_sub(u64::from(ps) * rng.range(0, 3)).max(u64::from(ps)),
            l.len + rng.below(u64::from(ps)),
            u64::from(ps) + rng.below(usable * 3 + 1),
        ];
        for fl in lens {
            // the domain layout_from_file_len guards: at least the header page, a region header and one page
            let fl = fl.max(u64::from(ps) * (u64::from(hdr) + 2));
            let r = catch(|| redb::verif::layout_recalculate(fl, hdr, cap, ps));
            let case = format!("LR {fl:x} {hdr:x} {cap:x} {ps:x}");
            match r {
                Ok(l2) => {
                    if fl == l.len {
                        *out.markers.entry("layout_roundtrip_exact_len").or_default() += 1;
                    }
                    out.push(case, fmt_layout(&l2), meta.clone());
                    if l2.num_regions > 0 {
                        let region = match rng.below(3) {
                            0 => 0,
                            1 => l2.num_regions - 1,
                            _ => rng.below(u64::from(l2.num_regions)) as u32,
                        };
                        let rb = catch(|| redb::verif::layout_region_base_address(fl, hdr, cap, ps, region));
                        out.push(
                            format!("LB {fl:x} {hdr:x} {cap:x} {ps:x} {region:x}"),
                            rb.map_or("panic".into(), |b| format!("{b:x}")),
                            meta.clone(),
                        );
                        // a page inside that region and its address range with the arguments
                        // TransactionalMemory passes
                        let pages = if region == l2.num_full_regions { l2.trailing_pages.unwrap_or(l2.full_region_pages) } else { l2.full_region_pages };
                        let order = rng.below(u64::from(pages.ilog2()) + 1) as u8;
                        let blocks = pages >> order;
                        if blocks > 0 && region <= 0xF_FFFF {
                            let index = match rng.below(3) {
                                0 => 0,
                                1 => blocks - 1,
                                _ => rng.below(u64::from(blocks)) as u32,
                            };
                            let rsize = (u64::from(hdr) + u64::from(cap)) * u64::from(ps);
                            let rstart = u64::from(hdr) * u64::from(ps);
                            let pa = catch(|| redb::verif::page_number_address_range(region, index, order, u64::from(ps), rsize, rstart, ps));
                            out.push(
                                format!("PA {region:x} {index:x} {order:x} {:x} {rsize:x} {rstart:x} {ps:x}", u64::from(ps)),
                                pa.map_or("panic".into(), |(s, e)| format!("{s:x} {e:x}")),
                                meta.clone(),
                            );
                        }
                    }
                }
                Err(_) => out.push(case, "panic".into(), meta.clone()),
            }
        }
    }
}

// ------------------------------------------------------------------------------------------------
// used pages vs. length (needs H3 snapshot)

fn used_page_cases(db: &redb::Database, be: &MonBackend, out: &mut Out, meta: &str) {
    let snap = db.verif_snapshot();
    let m = &snap.mem;
    if !m.allocators_loaded {
        return;
    }
    let l = &m.layout;
    let blen = be.lock().data.len() as u64;
    let mut per_region: BTreeMap<u32, (u32, u32)> = BTreeMap::new(); // region -> (min, max) allocated order-0 index
    for (r, i) in m.allocated_order0() {
        let e = per_region.entry(r).or_insert((i, i));
        e.0 = e.0.min(i);
        e.1 = e.1.max(i);
    }
    // the highest allocated page of the last two regions with allocations + the lowest of region 0
    let mut picks: Vec<(u32, u32)> = per_region.iter().rev().take(2).map(|(r, (_, mx))| (*r, *mx)).collect();
    if let Some((r, (mn, _))) = per_region.iter().next() {
        picks.push((*r, *mn));
    }
    for (region, index) in picks {
        let rsize = (u64::from(l.header_pages) + u64::from(l.full_region_pages)) * u64::from(l.page_size);
        let rstart = u64::from(l.header_pages) * u64::from(l.page_size);
        let (s, e) = redb::verif::page_number_address_range(region, index, 0, u64::from(l.page_size), rsize, rstart, l.page_size);
        let pages = if region == l.num_full_regions { l.trailing_pages.unwrap_or(l.full_region_pages) } else { l.full_region_pages };
        let inl = region < l.num_regions && index < pages;
        let inb = u64::from(l.page_size) <= s && e <= blen;
        out.push(
            format!(
                "U {blen:x} {:x} {:x} {:x} {:x} {} {region:x} {index:x} 0",
                l.num_full_regions,
                l.full_region_pages,
                l.header_pages,
                l.page_size,
                l.trailing_pages.map_or("-".to_string(), |t| format!("{t:x}"))
            ),
            format!("valid=1 in={} {s:x} {e:x} inb={}", inl as u8, inb as u8),
            format!("{{\"scenario\":\"used-page\",{meta}}}"),
        );
        *out.markers.entry("used_page_checked").or_default() += 1;
    }
    // the backend length must be the layout length between API calls
    if blen != l.len {
        out.anomalies.push(format!("backend length {blen} differs from layout length {} between API calls ({meta})", l.len));
    }
}

// ------------------------------------------------------------------------------------------------
// histories

fn hist_meta(seed: u64, hi: usize, h: &History) -> String {
    let mut s = format!("\"seed\":{seed},\"history\":{hi},\"page_size\":{},\"region_size\":{},\"cache_size\":{},\"ops\":[", h.cfg.page_size, h.cfg.region_size, h.cfg.cache_size);
    for (i, op) in h.ops.iter().enumerate() {
        if i > 0 {
            s.push(',');
        }
        write!(s, "\"{}\"", hop_summary(op)).unwrap();
    }
    s.push(']');
    s
}

/// a fault-free history: trace + used-page checks + every set_len image must be a readable database
/// holding one of the commit points around it
fn run_history(seed: u64, hi: usize, h: &History, out: &mut Out, images: &mut Vec<(Config, Vec<u8>, bool)>) {
    let be = MonBackend::new(vec![]);
    be.lock().snapshot_setlen = true;
    let mut r = Runner::new(h.cfg.clone(), be.handle());
    let meta = hist_meta(seed, hi, h);
    if !r.open() {
        out.anomalies.push(format!("history {hi}: creation failed: {:?}", r.apis.last()));
        return;
    }
    // set_len images are numbered over all backend objects of the history (a reopen starts a new one)
    fn total_setlen(r: &Runner) -> usize {
        r.old_backends.iter().chain(std::iter::once(&r.be)).map(|b| b.lock().setlen_images.len()).sum()
    }
    let mut setlen_seen = total_setlen(&r);
    let mut points_at_setlen: Vec<(usize, usize, usize)> = vec![]; // (setlen image index, number of points known before the step, index of the last durable point then)
    for (i, op) in h.ops.iter().enumerate() {
        let before = r.points.len();
        let ld = r.points.iter().rposition(|p| p.durable).unwrap_or(0);
        let cont = r.step(i as u32 + 1, op);
        let n = total_setlen(&r);
        for k in setlen_seen..n {
            points_at_setlen.push((k, before, ld));
        }
        setlen_seen = n;
        if !cont {
            break;
        }
        if let Some(db) = r.db.as_ref() {
            if matches!(op, HOp::Write { .. } | HOp::Compact | HOp::Reopen) {
                let m = format!("{meta},\"after_op\":{}", i + 1);
                let res = catch(|| {
                    let mut tmp = Out::new();
                    used_page_cases(db, &r.be, &mut tmp, &m);
                    tmp
                });
                if let Ok(tmp) = res {
                    out.absorb(tmp);
                }
            }
        }
        // image of a database that is open (recovery_required set): material for failing-open scenarios
        if i == h.ops.len() / 2 && images.len() < 64 {
            images.push((h.cfg.clone(), r.be.image(), false));
        }
    }
    r.cur_hop = h.ops.len() as u32 + 1;
    {
        let before = r.points.len();
        let ld = r.points.iter().rposition(|p| p.durable).unwrap_or(0);
        r.close();
        let n = total_setlen(&r);
        for k in setlen_seen..n {
            points_at_setlen.push((k, before, ld));
        }
    }
    for m in &r.mismatches {
        out.anomalies.push(format!("history {hi}: {m}"));
    }
    for a in &r.apis {
        if let ApiRes::Panic(p) = &a.res {
            out.anomalies.push(format!("history {hi}: panic in {} at hop {}: {p}", a.name, a.hop));
        }
    }
    if images.len() < 64 {
        images.push((h.cfg.clone(), r.be.image(), true));
    }
    let backs: Vec<MonBackend> = r.old_backends.iter().chain(std::iter::once(&r.be)).map(|b| b.handle()).collect();
    let mut imgs: Vec<(usize, usize, Vec<u8>)> = vec![]; // (backend index, event index, image)
    let mut seen = BTreeSet::new();
    for (bi, b) in backs.iter().enumerate() {
        out.trace("hist", false, b, format!("{meta},\"open_number\":{bi}"), true);
        // every set_len target must be the length of a valid layout (geometry from the header)
        let mut g = b.lock();
        let ps = h.cfg.page_size as u64;
        let cap = h.cfg.region_size / ps;
        for e in g.events.iter().filter(|e| e.kind == Kind::SetLen) {
            if seen.insert(e.off) && seen.len() <= 6 {
                out.cases.push(format!("LF {:x} 0 {cap:x} {ps:x}", e.off));
                out.impls.push("some".into());
                out.metas.push(format!("{{\"scenario\":\"set_len-target\",{meta}}}"));
            }
        }
        for (evidx, img) in std::mem::take(&mut g.setlen_images) {
            imgs.push((bi, evidx, img));
        }
    }
    // shrink safety without hooks: the image right after each set_len is a crash point of the
    // history; it must reopen and hold the contents of a commit point known around that step
    let budget = 6usize;
    let step = imgs.len().div_ceil(budget).max(1);
    for (k, (bi, evidx, img)) in imgs.into_iter().enumerate() {
        let is_shrink = {
            let g = backs[bi].lock();
            let mut len = g.len0;
            for e in &g.events[..evidx] {
                if e.kind == Kind::SetLen && e.ok {
                    len = e.off;
                }
            }
            g.events[evidx].off < len
        };
        if !(is_shrink || k % step == 0) {
            continue;
        }
        let Some((_, before, ld)) = points_at_setlen.iter().find(|(kk, _, _)| *kk == k).copied() else {
            continue; // issued while the database was being created: no completed creation yet
        };
        *out.markers.entry(if is_shrink { "setlen_image_shrink_reopened" } else { "setlen_image_grow_reopened" }).or_default() += 1;
        match reopen_and_read(&h.cfg, img, true) {
            Ok((c, be2)) => {
                // allowed: any commit point from the last durable one known before the step up to
                // the one the step itself may have produced
                let hi_ = (before + 1).min(r.points.len());
                let ok = r.points[ld..hi_].iter().any(|p| p.contents == c);
                if !ok {
                    let pos: Vec<usize> = r.points.iter().enumerate().filter(|(_, p)| p.contents == c).map(|(i, _)| i).collect();
                    out.anomalies.push(format!(
                        "VIOLATION-CANDIDATE shrink: history {hi} (seed {seed}): image after set_len event {evidx} of open {bi} reopens with contents {} that are no commit point in the allowed window [{ld}, {hi_}) (it equals points {pos:?}; durable flags {:?}, hops {:?})",
                        digest(&c), r.points.iter().map(|p| p.durable as u8).collect::<Vec<_>>(), r.points.iter().map(|p| p.hop).collect::<Vec<_>>()
                    ));
                }
                out.trace("setlen-image-reopen", false, &be2, format!("{meta},\"set_len_event\":{evidx},\"open_number\":{bi}"), true);
            }
            Err(e) => {
                out.anomalies.push(format!("VIOLATION-CANDIDATE shrink: history {hi} (seed {seed}): image after set_len event {evidx} of open {bi} (shrink={is_shrink}) does not reopen: {e}"));
            }
        }
    }
}

impl Out {
    fn new() -> Self {
        Out {
            cases: vec![],
            impls: vec![],
            metas: vec![],
            trace_hashes: BTreeSet::new(),
            nontrivial: BTreeSet::new(),
            n_traces: 0,
            n_events: 0,
            kinds: BTreeMap::new(),
            scen: BTreeMap::new(),
            markers: BTreeMap::new(),
            anomalies: vec![],
        }
    }
    fn absorb(&mut self, o: Out) {
        self.cases.extend(o.cases);
        self.impls.extend(o.impls);
        self.metas.extend(o.metas);
        for (k, v) in o.markers {
            *self.markers.entry(k).or_default() += v;
        }
        self.anomalies.extend(o.anomalies);
    }
}

// ------------------------------------------------------------------------------------------------
// failing opens

fn open_with(cfg: &Config, be: &MonBackend, abort_at: Option<u32>) -> Result<redb::Database, String> {
    let mut b = Runner::builder(cfg);
    if let Some(n) = abort_at {
        let cnt = std::sync::atomic::AtomicU32::new(0);
        b.set_repair_callback(move |s: &mut RepairSession| {
            let c = cnt.fetch_add(1, std::sync::atomic::Ordering::SeqCst);
            if c >= n {
                s.abort();
            }
        });
    }
    let h = be.handle();
    match catch(move || b.create_with_backend(h)) {
        Ok(Ok(db)) => Ok(db),
        Ok(Err(e)) => Err(err_string(&e)),
        Err(p) => Err(format!("panic: {p}")),
    }
}

fn failing_opens(rng: &mut Rng, images: &[(Config, Vec<u8>, bool)], out: &mut Out, budget: usize) {
    if images.is_empty() {
        return;
    }
    let mut n = 0;
    while n < budget {
        let (cfg, img, clean) = rng.pick(images).clone();
        let kind = rng.below(9);
        let mut data = img.clone();
        let ps = cfg.page_size;
        let mut abort_at = None;
        let mut fail = Fail::Never;
        let mut ro = false;
        let scen;
        let mut detail = String::new();
        let mut expect_err = true;
        let mut lf_idx: Option<usize> = None;
        match kind {
            0 => {
                scen = "open-bad-magic";
                let i = rng.below(9) as usize;
                data[i] ^= 1 << rng.below(8);
                detail = format!("\"byte\":{i}");
            }
            1 => {
                scen = "open-bad-geometry";
                let off = *rng.pick(&[12usize, 16, 20, 24, 28]);
                let v: u32 = *rng.pick(&[0u32, 1, 2, 0xFFFF_FFFF, 0x0010_0001, 0x7FFF_FFFF, 3, 1 << 20]);
                data[off..off + 4].copy_from_slice(&v.to_le_bytes());
                detail = format!("\"offset\":{off},\"value\":{v}");
                // some values are harmless (e.g. the value already stored, or torn counts on an
                // unclean file that are recomputed from the length)
                expect_err = false;
            }
            2 => {
                let newlen = match rng.below(11) {
                    // cut by whole pages: on small regions such a length is usually again the length of a valid layout
                    8 | 9 | 10 => {
                        let pages = (data.len() / ps) as u64;
                        if pages > 3 { data.len() as u64 - ps as u64 * rng.range(1, pages - 2) } else { ps as u64 }
                    }
                    0 => rng.range(1, 8),
                    1 => rng.range(9, 319),
                    2 => rng.range(320, ps as u64),
                    3 => ps as u64,
                    4 => (data.len() as u64).saturating_sub(rng.range(1, ps as u64 * 3)),
                    5 => data.len() as u64 + rng.range(1, ps as u64 - 1),
                    6 => data.len() as u64 + ps as u64 * rng.range(1, 5),
                    _ => rng.range(ps as u64, data.len() as u64),
                } as usize;
                // a shorter file is the accepted finding's scenario (F-C20-1); a longer one is a different scenario
                scen = if newlen >= img.len() { "open-extended-length" } else { "open-bad-length" };
                data.resize(newlen, 0);
                detail = format!("\"new_len\":{newlen},\"old_len\":{}", img.len());
                expect_err = false;
                // the model's acceptance of the length is compared for unclean images below
                if !clean {
                    let cap = cfg.region_size / ps as u64;
                    out.cases.push(format!("LF {newlen:x} 0 {cap:x} {ps:x}"));
                    out.impls.push("?".into());
                    lf_idx = Some(out.impls.len() - 1);
                    out.metas.push(format!("{{\"scenario\":\"{scen}\",\"clean\":{clean},{detail}}}"));
                }
            }
            3 => {
                scen = "open-aborted-repair";
                abort_at = Some(rng.below(5) as u32);
                detail = format!("\"abort_at\":{}", abort_at.unwrap());
                expect_err = false; // a clean image needs no repair
            }
            4 | 5 => {
                scen = "open-io-error";
                let k = rng.below(60);
                fail = if rng.chance(1, 2) { Fail::Once(k) } else { Fail::From(k) };
                detail = format!("\"fail\":\"{fail:?}\"");
                expect_err = false;
            }
            6 => {
                scen = "open-empty-io-error";
                data.clear();
                let k = rng.below(14);
                fail = if rng.chance(1, 2) { Fail::Once(k) } else { Fail::From(k) };
                detail = format!("\"fail\":\"{fail:?}\"");
                expect_err = false;
            }
            7 => {
                scen = "open-read-only";
                ro = true;
                expect_err = false;
            }
            _ => {
                scen = "open-read-only-io-error";
                ro = true;
                let k = rng.below(30);
                fail = if rng.chance(1, 2) { Fail::Once(k) } else { Fail::From(k) };
                detail = format!("\"fail\":\"{fail:?}\"");
                expect_err = false;
            }
        }
        let be = MonBackend::new(data);
        be.lock().fail = fail;
        if rng.chance(1, 5) {
            be.lock().fail_close = true;
        }
        // the open itself, watched through the latch log: one SOpen event for the shutdown model
        be.lock().latch_log = true;
        redb::verif_c08::latch_log_start();
        let id = format!("open:{scen}#{n}");
        let mut note_open = |be: &MonBackend, out: &mut Out, ok: bool| {
            let log = redb::verif_c08::latch_log_take();
            let mut g = be.lock();
            g.latch_log = false;
            // (a read past len() is answered with an error the log does not show: F-C20-1 scenarios are left out)
            if g.oob.is_empty() {
                let lines = close::open_lines(&id, log, ok, g.closes, g.calls_after_close, g.fail_close);
                drop(g);
                for (c, i) in lines {
                    out.push(c, i, format!("{{\"scenario\":\"open-path:{scen}\",\"clean_image\":{clean},\"read_only\":{ro},\"opened\":{ok}}}"));
                }
                *out.markers.entry(if ok { "open_path_ok_modelled" } else { "open_path_failure_modelled" }).or_default() += 1;
            }
        };
        let res: Result<(), String> = if ro {
            let b = Runner::builder(&cfg);
            let h = be.handle();
            let r = catch(move || b.verif_open_read_only_with_backend(h));
            note_open(&be, out, matches!(r, Ok(Ok(_))));
            match r {
                Ok(Ok(db)) => {
                    // read something, hold a read transaction past the database
                    let rt = catch(|| db.begin_read());
                    if let Ok(Ok(rt)) = rt {
                        let _ = catch(|| {
                            if let Ok(t) = rt.open_table(tdef(0)) {
                                let _ = t.range(..).map(drain);
                            }
                        });
                        if rng.chance(1, 2) {
                            let _ = catch(move || drop(db));
                            let _ = catch(|| {
                                if let Ok(t) = rt.open_table(tdef(1)) {
                                    let _ = t.range(..).map(drain);
                                }
                            });
                            let _ = catch(move || drop(rt));
                        } else {
                            let _ = catch(move || drop(rt));
                            let _ = catch(move || drop(db));
                        }
                    } else {
                        let _ = catch(move || drop(db));
                    }
                    Ok(())
                }
                Ok(Err(e)) => Err(err_string(&e)),
                Err(p) => Err(format!("panic: {p}")),
            }
        } else {
            let r = open_with(&cfg, &be, abort_at);
            note_open(&be, out, r.is_ok());
            match r {
                Ok(db) => {
                    let _ = catch(|| {
                        if let Ok(rt) = db.begin_read() {
                            if let Ok(t) = rt.open_table(tdef(0)) {
                                let _ = t.range(..).map(drain);
                            }
                        }
                    });
                    let _ = catch(move || drop(db));
                    Ok(())
                }
                Err(e) => Err(e),
            }
        };
        let outcome = match &res {
            Ok(()) => "ok".to_string(),
            Err(e) => {
                let mut e = e.replace('"', "'");
                e.truncate(100);
                e
            }
        };
        if let Some(i) = lf_idx {
            // compared by the check: a length no valid layout has must not open
            out.impls[i] = if res.is_ok() { "?opened".into() } else { "?rejected".into() };
        }
        if expect_err && res.is_ok() {
            out.anomalies.push(format!("{scen}: open succeeded on a damaged image ({detail})"));
        }
        if let Err(e) = &res {
            if e.starts_with("panic") {
                *out.markers.entry("open_panicked").or_default() += 1;
            }
        }
        *out.markers.entry(if res.is_ok() { "open_ok" } else { "open_err" }).or_default() += 1;
        let sep = if detail.is_empty() { "" } else { "," };
        out.trace(
            &format!("{scen}:{}", if clean { "clean" } else { "unclean" }),
            ro,
            &be,
            format!("\"clean_image\":{clean},\"page_size\":{},\"region_size\":{},\"outcome\":\"{outcome}\"{sep}{detail}", cfg.page_size, cfg.region_size),
            true,
        );
        n += 1;
    }
}

// ------------------------------------------------------------------------------------------------
// drop orders / threads / injected failures while running

fn small_txn(db: &redb::Database, k: u64, durable: bool) -> Result<(), String> {
    let mut txn = db.begin_write().map_err(|e| err_string(&e))?;
    if !durable {
        txn.set_durability(redb::Durability::None).map_err(|e| err_string(&e))?;
    }
    {
        let mut t = txn.open_table(tdef(0)).map_err(|e| err_string(&e))?;
        t.insert(&k, value_for(k, 1, 300).as_slice()).map_err(|e| err_string(&e))?;
    }
    txn.commit().map_err(|e| err_string(&e))
}

fn drop_orders(rng: &mut Rng, out: &mut Out, budget: usize) {
    for n in 0..budget {
        let cfg = Config {
            page_size: *rng.pick(&[512usize, 4096]),
            region_size: 512 * 64 * 8,
            cache_size: *rng.pick(&[0usize, 8192, 1 << 20]),
        };
        let mut cfg = cfg;
        cfg.region_size = cfg.page_size as u64 * 64;
        let be = MonBackend::new(vec![]);
        let variant = rng.below(8);
        let fail_at = if rng.chance(1, 3) { Some(rng.range(20, 400)) } else { None };
        let scen = match variant {
            0 => "drop-db-before-write-commit",
            1 => "drop-db-before-write-abort",
            2 => "drop-db-before-write-drop",
            3 => "drop-db-thread-race",
            4 => "read-outlives-db",
            5 => "savepoint-outlives-db",
            6 => "readers-and-writer-threads",
            _ => "write-after-db-drop-nondurable",
        };
        let Ok(db) = open_with(&cfg, &be, None) else {
            out.trace(&format!("{scen}:create-failed"), false, &be, format!("\"n\":{n}"), true);
            continue;
        };
        let _ = catch(|| small_txn(&db, 1, true));
        let _ = catch(|| small_txn(&db, 2, rng.chance(1, 2)));
        if let Some(k) = fail_at {
            let c = be.lock().calls;
            be.lock().fail = if rng.chance(1, 2) { Fail::Once(c + k % 40) } else { Fail::From(c + k % 40) };
        }
        // the backend's own close() may report an error: it is still the one close it gets
        if rng.chance(1, 4) {
            be.lock().fail_close = true;
        }
        let r = catch(|| match variant {
            0 | 1 | 2 | 7 => {
                let txn = db.begin_write();
                drop(db);
                if let Ok(mut txn) = txn {
                    if variant == 7 {
                        let _ = txn.set_durability(redb::Durability::None);
                    }
                    let ins = (|| -> Result<(), String> {
                        let mut t = txn.open_table(tdef(1)).map_err(|e| err_string(&e))?;
                        for k in 0..20u64 {
                            t.insert(&k, value_for(k, 2, 600).as_slice()).map_err(|e| err_string(&e))?;
                        }
                        Ok(())
                    })();
                    let _ = ins;
                    match variant {
                        0 | 7 => {
                            let _ = txn.commit();
                        }
                        1 => {
                            let _ = txn.abort();
                        }
                        _ => drop(txn),
                    }
                }
            }
            3 => {
                let txn = db.begin_write();
                let spin = rng.below(2000);
                let t = std::thread::spawn(move || {
                    if let Ok(txn) = txn {
                        let r = (|| -> Result<(), String> {
                            let mut t = txn.open_table(tdef(1)).map_err(|e| err_string(&e))?;
                            for k in 0..10u64 {
                                t.insert(&k, value_for(k, 3, 100).as_slice()).map_err(|e| err_string(&e))?;
                            }
                            Ok(())
                        })();
                        let _ = r;
                        let _ = txn.commit();
                    }
                });
                for _ in 0..spin {
                    std::hint::spin_loop();
                }
                drop(db);
                let _ = t.join();
            }
            4 => {
                let rt = db.begin_read();
                drop(db);
                if let Ok(rt) = rt {
                    if let Ok(t) = rt.open_table(tdef(0)) {
                        let _ = t.range(..).map(drain);
                    }
                    drop(rt);
                }
            }
            5 => {
                let txn = db.begin_write();
                if let Ok(txn) = txn {
                    let sp = txn.ephemeral_savepoint();
                    let _ = txn.commit();
                    drop(db);
                    drop(sp);
                }
            }
            _ => {
                let db = std::sync::Arc::new(db);
                let mut hs = vec![];
                for i in 0..3u64 {
                    let db = db.clone();
                    hs.push(std::thread::spawn(move || {
                        for j in 0..5u64 {
                            if i == 0 {
                                let _ = small_txn(&db, 100 + j, j % 2 == 0);
                            } else if let Ok(rt) = db.begin_read() {
                                if let Ok(t) = rt.open_table(tdef(0)) {
                                    let _ = t.range(..).map(drain);
                                }
                            }
                        }
                    }));
                }
                drop(db);
                for h in hs {
                    let _ = h.join();
                }
            }
        });
        if let Err(p) = r {
            out.anomalies.push(format!("{scen}: panic: {p}"));
        }
        out.trace(
            &format!("{scen}:{}", if fail_at.is_some() { "fault" } else { "nofault" }),
            false,
            &be,
            format!("\"n\":{n},\"page_size\":{},\"cache_size\":{},\"fail\":\"{:?}\"", cfg.page_size, cfg.cache_size, be.lock().fail),
            true,
        );
    }
}

/// histories under an injected failure: the contract must hold on every such trace too
fn faulted_histories(rng: &mut Rng, seed: u64, out: &mut Out, n: usize, ops: usize) {
    for hi in 0..n {
        let mut hr = rng.fork(7000 + hi as u64);
        let h = gen_history(&mut hr, ops, true);
        // fault-free length of the op stream
        let be0 = MonBackend::new(vec![]);
        let mut r0 = Runner::new(h.cfg.clone(), be0.handle());
        r0.run(&h);
        let total = r0.be.lock().calls;
        for _ in 0..3 {
            let k = rng.below(total.max(1));
            let fail = if rng.chance(1, 2) { Fail::Once(k) } else { Fail::From(k) };
            let be = MonBackend::new(vec![]);
            be.lock().fail = fail;
            let mut r = Runner::new(h.cfg.clone(), be.handle());
            r.lenient = true;
            r.run(&h);
            let mut meta = hist_meta(seed, hi, &h);
            write!(meta, ",\"fail\":\"{fail:?}\",\"of\":{total}").unwrap();
            for (bi, b) in r.old_backends.iter().chain(std::iter::once(&r.be)).enumerate() {
                out.trace("hist-fault", false, b, format!("{meta},\"open_number\":{bi}"), true);
            }
        }
    }
}

/// F-C20-2 made deterministic with the H4 pause point `CB.read.checked`: a reader thread is held
/// between the latch check and the backend call of CheckedBackend::read while the Database is dropped.
struct ReadGate {
    thread: std::sync::Mutex<Option<std::thread::ThreadId>>,
    state: std::sync::Mutex<(bool, bool)>, // (reader reached the point, released)
    cv: std::sync::Condvar,
}

impl redb::verif::PauseController for ReadGate {
    fn at(&self, point: &'static str) {
        if point != "CB.read.checked" {
            return;
        }
        if *self.thread.lock().unwrap() != Some(std::thread::current().id()) {
            return;
        }
        let mut g = self.state.lock().unwrap();
        if g.0 {
            return; // only the first read of the designated thread is held
        }
        g.0 = true;
        self.cv.notify_all();
        while !g.1 {
            g = self.cv.wait(g).unwrap();
        }
    }
}

fn read_paused_across_close(out: &mut Out) {
    let cfg = Config { page_size: 512, region_size: 512 * 64, cache_size: 0 };
    let be = MonBackend::new(vec![]);
    let Ok(db) = open_with(&cfg, &be, None) else { return };
    for k in 0..40u64 {
        let _ = small_txn(&db, k, true);
    }
    let Ok(rt) = db.begin_read() else { return };
    let gate = std::sync::Arc::new(ReadGate {
        thread: std::sync::Mutex::new(None),
        state: std::sync::Mutex::new((false, false)),
        cv: std::sync::Condvar::new(),
    });
    redb::verif::set_pause_controller(Some(gate.clone()));
    let g2 = gate.clone();
    let t = std::thread::spawn(move || {
        *g2.thread.lock().unwrap() = Some(std::thread::current().id());
        let r = catch(|| {
            if let Ok(tab) = rt.open_table(tdef(0)) {
                for k in 0..40u64 {
                    if tab.get(&k).is_err() {
                        break;
                    }
                }
            }
        });
        // if the reader never reached the point, do not leave the main thread waiting
        let mut g = g2.state.lock().unwrap();
        g.0 = true;
        g2.cv.notify_all();
        drop(g);
        let _ = catch(move || drop(rt));
        r.is_ok()
    });
    {
        let mut g = gate.state.lock().unwrap();
        while !g.0 {
            g = gate.cv.wait(g).unwrap();
        }
    }
    // the reader is (at most) one step before backend.read(); close the database under it
    let _ = catch(move || drop(db));
    {
        let mut g = gate.state.lock().unwrap();
        g.1 = true;
        gate.cv.notify_all();
    }
    let _ = t.join();
    redb::verif::set_pause_controller(None);
    out.trace("read-paused-across-close", false, &be, "\"threads\":2,\"pause_point\":\"CB.read.checked\"".to_string(), true);
}

/// the same race without forcing it: reader threads spin on uncached reads while the Database is dropped
fn reads_racing_close(rng: &mut Rng, out: &mut Out, trials: usize) {
    for n in 0..trials {
        let cfg = Config { page_size: 512, region_size: 512 * 64, cache_size: 0 };
        let be = MonBackend::new(vec![]);
        let Ok(db) = open_with(&cfg, &be, None) else { continue };
        for k in 0..30u64 {
            let _ = small_txn(&db, k, true);
        }
        let mut hs = vec![];
        let stop = std::sync::Arc::new(std::sync::atomic::AtomicBool::new(false));
        for i in 0..6u64 {
            let Ok(rt) = db.begin_read() else { continue };
            let stop = stop.clone();
            hs.push(std::thread::spawn(move || {
                let _ = catch(|| {
                    if let Ok(tab) = rt.open_table(tdef(0)) {
                        let mut n = 0u64;
                        // until the database is gone (reads then fail) or main says stop; bounded anyway
                        while n < 50_000 && !stop.load(std::sync::atomic::Ordering::Relaxed) {
                            if tab.get(&((n * 7 + i) % 30)).is_err() {
                                break;
                            }
                            n += 1;
                        }
                    }
                });
                let _ = catch(move || drop(rt));
            }));
        }
        std::thread::sleep(std::time::Duration::from_micros(200 + rng.below(800)));
        let _ = catch(move || drop(db));
        stop.store(true, std::sync::atomic::Ordering::Relaxed);
        for h in hs {
            let _ = h.join();
        }
        out.trace("reads-racing-close", false, &be, format!("\"n\":{n},\"reader_threads\":6"), true);
    }
}

/// one close-timing run -> an H line (model vs latch-log stream, S2) and an HT line (timing oracle, S3)
fn emit_close(out: &mut Out, fam: &close::Family, cfg: &Config, s: &close::Sess, fault: Option<(close::Fault, &str)>, n: &mut usize) {
    let id = format!("close:{}#{}", fam.name, *n);
    *n += 1;
    let fdesc = match fault {
        Some((f, what)) => format!("{{\"in\":\"{what}\",\"act\":{},\"op_index\":{},\"kind\":\"{}\"}}", f.act, f.k, if f.permanent { "from" } else { "once" }),
        None => "null".into(),
    };
    let script: Vec<String> = fam.script.iter().map(|a| format!("\"{}\"", a.name())).collect();
    let fail_close = s.be.lock().fail_close;
    let meta = format!(
        "{{\"scenario\":\"close-timing:{}\",\"page_size\":{},\"cache_size\":{},\"fault\":{fdesc},\"backend_close_fails\":{fail_close},\"script\":[{}],\"steps\":{}}}",
        fam.name,
        cfg.page_size,
        cfg.cache_size,
        script.join(","),
        s.describe()
    );
    let (c, i) = s.h_line(&id);
    out.push(c, i, format!("{{\"scenario\":\"close-timing:{}\",\"fault\":{fdesc},\"backend_close_fails\":{fail_close},\"details\":\"next line\"}}", fam.name));
    let (c, i) = s.ht_line(&id);
    // distinct observations (events + counts, id stripped)
    let h = fnv(&c[c.find(' ').map(|x| x + 1 + id.len()).unwrap_or(0)..]);
    let failed: u64 = s.steps.iter().map(|st| st.nfailed).sum();
    if out.trace_hashes.insert(h) && (failed > 0 || fail_close || fam.name.contains('/') && !fam.name.ends_with("/none")) {
        out.nontrivial.insert(h);
    }
    out.push(c, i, meta);
    *out.scen.entry("close-timing".to_string()).or_default() += 1;
    *out.markers.entry("close_timing_runs").or_default() += 1;
    if failed > 0 {
        *out.markers.entry("close_timing_run_with_failed_backend_call").or_default() += 1;
    }
    if let Some((_, what)) = fault {
        *out.markers.entry(match what {
            "closing-step" => "close_timing_fault_aimed_at_closing_step",
            "earlier-commit" => "close_timing_fault_aimed_at_earlier_commit",
            "random-act" => "close_timing_fault_in_random_history",
            _ => "close_timing_fault_aimed_at_writer_ops",
        }).or_default() += 1;
    }
    // did a reader-side holder outlive the closing event?  (a Drop of the CheckedBackend in a later step)
    if let Some(ci) = s.steps.iter().position(|st| st.closes > 0) {
        if s.steps[ci + 1..].iter().any(|st| st.stream.contains('D')) {
            *out.markers.entry("close_timing_reader_outlived_the_close").or_default() += 1;
        }
        if s.steps[ci].api != "drop(db)" {
            *out.markers.entry("close_timing_closed_by_end_of_writer").or_default() += 1;
        }
    }
    for p in &s.panics {
        out.anomalies.push(format!("close-timing {}: {p}", fam.name));
    }
}

/// close-timing scenario families (harness/src/c20_close.rs): every reader population x every way the session
/// ends, fault-free and with a fault at the op indices of the closing step, of an earlier commit (latched
/// failure before the drop) and of the deferring writer's operations
fn close_timing(rng: &mut Rng, out: &mut Out, thorough: bool, seed: u64) {
    redb::verif::set_pause_controller(Some(std::sync::Arc::new(close::Marks)));
    let rs = close::reader_sets();
    let cl = close::closings();
    let mut n = 0usize;
    for (ri, r) in rs.iter().enumerate() {
        for (ci, c) in cl.iter().enumerate() {
            let si = ri * cl.len() + ci;
            let mut frng = rng.fork(9000 + si as u64);
            let ps = *frng.pick(&[512usize, 4096]);
            let cfg = Config { page_size: ps, region_size: ps as u64 * 64, cache_size: *frng.pick(&[0usize, 8192, 1 << 20]) };
            let fam = close::build_family(&mut frng, r, c);
            let s0 = close::run_script(&cfg, &fam.script, None, false);
            emit_close(out, &fam, &cfg, &s0, None, &mut n);
            let s0c = close::run_script(&cfg, &fam.script, None, true);
            emit_close(out, &fam, &cfg, &s0c, None, &mut n);
            let calls_of = |act: usize| -> u64 { s0.steps.iter().filter(|s| s.act == act).map(|s| s.ncalls).sum() };
            let mut targets: Vec<(usize, &str)> = vec![(fam.closing_act, "closing-step"), (fam.earlier_commit_act, "earlier-commit")];
            if let Some(w) = fam.writer_ops_act {
                targets.push((w, "writer-ops"));
            }
            for (act, what) in targets {
                let total = calls_of(act);
                for k in 0..total {
                    // thorough: every index in every family.  quick: the first 3 and the last 12 indices in every
                    // family (begin of the sequence; shutdown header flush and what precedes it), the others in the
                    // families whose number matches the index modulo 6 (every index is hit in several families)
                    let edge = k < 3 || k + 12 >= total;
                    let m = if what == "closing-step" { 6 } else { 12 };
                    if !thorough && !(what != "writer-ops" && edge) && (k + si as u64 + seed) % m != 0 {
                        continue;
                    }
                    for permanent in [false, true] {
                        if !thorough && !edge && (permanent != ((k / m) % 2 == 0)) {
                            continue;
                        }
                        let fail_close = frng.chance(1, 5);
                        let f = close::Fault { act, k, permanent };
                        let s = close::run_script(&cfg, &fam.script, Some(f), fail_close);
                        emit_close(out, &fam, &cfg, &s, Some((f, what)), &mut n);
                    }
                }
            }
        }
    }
    // random histories, fault-free and with faults at random op indices of random acts
    let n_random = if thorough { 1200 } else { 160 };
    for i in 0..n_random {
        let mut frng = rng.fork(20000 + i as u64);
        let ps = *frng.pick(&[512usize, 4096]);
        let cfg = Config { page_size: ps, region_size: ps as u64 * 64, cache_size: *frng.pick(&[0usize, 8192, 1 << 20]) };
        let len = 6 + frng.below(16) as usize;
        let fam = close::random_family(&mut frng, i, len);
        let s0 = close::run_script(&cfg, &fam.script, None, frng.chance(1, 4));
        emit_close(out, &fam, &cfg, &s0, None, &mut n);
        let per_act: Vec<(usize, u64)> = (0..fam.script.len())
            .map(|a| (a, s0.steps.iter().filter(|s| s.act == a).map(|s| s.ncalls).sum::<u64>()))
            .filter(|(_, c)| *c > 0)
            .collect();
        if per_act.is_empty() {
            continue;
        }
        for _ in 0..3 {
            let (act, total) = *frng.pick(&per_act);
            let f = close::Fault { act, k: frng.below(total), permanent: frng.chance(1, 2) };
            let s = close::run_script(&cfg, &fam.script, Some(f), frng.chance(1, 5));
            emit_close(out, &fam, &cfg, &s, Some((f, "random-act")), &mut n);
        }
    }
    redb::verif::set_pause_controller(None);
}

fn main() {
    silence_panics();
    let seed = seed_from_env();
    let thorough = tier_is_thorough();
    let mut rng = Rng::new(seed);
    let mut out = Out::new();

    let (n_layout, n_hist, n_ops, n_open, n_drop, n_fault) =
        if thorough { (6000, 160, 60, 1500, 400, 60) } else { (800, 26, 36, 260, 70, 10) };

    let mut lr = rng.fork(1);
    layout_cases(&mut lr, n_layout, &mut out);

    let mut images: Vec<(Config, Vec<u8>, bool)> = vec![];
    for hi in 0..n_hist {
        let mut hr = rng.fork(1000 + hi as u64);
        let h = gen_history(&mut hr, n_ops, true);
        run_history(seed, hi, &h, &mut out, &mut images);
    }
    let mut orng = rng.fork(2);
    failing_opens(&mut orng, &images, &mut out, n_open);
    let mut drng = rng.fork(3);
    drop_orders(&mut drng, &mut out, n_drop);
    let mut frng = rng.fork(4);
    faulted_histories(&mut frng, seed, &mut out, n_fault, n_ops);
    let mut crng = rng.fork(6);
    close_timing(&mut crng, &mut out, thorough, seed);
    read_paused_across_close(&mut out);
    let mut rrng = rng.fork(5);
    reads_racing_close(&mut rrng, &mut out, if thorough { 60 } else { 12 });

    let mut f = std::fs::File::create("cases.txt").unwrap();
    for l in &out.cases {
        writeln!(f, "{l}").unwrap();
    }
    let mut f = std::fs::File::create("impl.txt").unwrap();
    for l in &out.impls {
        writeln!(f, "{l}").unwrap();
    }
    let mut f = std::fs::File::create("meta.txt").unwrap();
    for l in &out.metas {
        writeln!(f, "{l}").unwrap();
    }
    let mut f = std::fs::File::create("stats.txt").unwrap();
    writeln!(f, "traces={} events={} distinct_traces={} distinct_nontrivial={}", out.n_traces, out.n_events, out.trace_hashes.len(), out.nontrivial.len()).unwrap();
    writeln!(f, "kinds={:?}", out.kinds).unwrap();
    writeln!(f, "scenarios={:?}", out.scen).unwrap();
    writeln!(f, "markers={:?}", out.markers).unwrap();
    let mut f = std::fs::File::create("anomalies.txt").unwrap();
    for a in &out.anomalies {
        writeln!(f, "{a}").unwrap();
    }
    println!(
        "cases={} traces={} events={} distinct_nontrivial={} anomalies={}",
        out.cases.len(),
        out.n_traces,
        out.n_events,
        out.nontrivial.len(),
        out.anomalies.len()
    );
}
