//! probe (temporary)
use redb::{Builder, Database, Durability, ReadableDatabase, ReadableTable, TableDefinition};
use rv_harness::backend::{Op, RecBackend};
use rv_harness::{catch, silence_panics};

const T: TableDefinition<u64, &[u8]> = TableDefinition::new("t");

fn open(data: Vec<u8>) -> (Result<Database, String>, RecBackend) {
    let b = RecBackend::with_data(data);
    let h = b.handle();
    let r = catch(|| Builder::new().create_with_backend(b).map_err(|e| format!("{e:?}")));
    let r = match r {
        Ok(Ok(d)) => Ok(d),
        Ok(Err(e)) => Err(e),
        Err(p) => Err(format!("PANIC {p}")),
    };
    (r, h)
}

fn dump(db: &Database) -> String {
    let r = db.begin_read().unwrap();
    match r.open_table(T) {
        Ok(t) => {
            let mut s = String::new();
            for e in t.iter().unwrap() {
                let (k, v) = e.unwrap();
                s += &format!("{}={} ", k.value(), v.value().len());
            }
            s
        }
        Err(e) => format!("notable {e:?}"),
    }
}

fn show(ops: &[Op]) {
    for o in ops {
        match o {
            Op::Write { off, data } => {
                if *off == 0 {
                    println!("  W hdr len={} god={:#x}", data.len(), data[9]);
                } else {
                    println!("  W {off} len={}", data.len());
                }
            }
            Op::SetLen(n) => println!("  SETLEN {n}"),
            Op::Sync => println!("  SYNC"),
            Op::Close => println!("  CLOSE"),
            _ => {}
        }
    }
}

fn main() {
    silence_panics();
    // 1. create, commit n, clean close
    let (db, h) = open(vec![]);
    let db = db.unwrap();
    {
        let mut w = db.begin_write().unwrap();
        w.set_durability(Durability::Immediate).unwrap();
        {
            let mut t = w.open_table(T).unwrap();
            t.insert(1, &[1u8; 10][..]).unwrap();
        }
        w.commit().unwrap();
    }
    drop(db);
    println!("create+commit+close:");
    show(&h.take_ops());
    let img0 = h.snapshot();
    // 2. reopen, commit A 1PC
    let (db, h) = open(img0.clone());
    let db = db.unwrap();
    println!("reopen:");
    show(&h.take_ops());
    let before_a = h.snapshot();
    {
        let w = db.begin_write().unwrap();
        {
            let mut t = w.open_table(T).unwrap();
            t.insert(2, &[2u8; 20][..]).unwrap();
        }
        w.commit().unwrap();
    }
    println!("commit A:");
    let ops_a = h.take_ops();
    show(&ops_a);
    let after_a = h.snapshot();
    std::mem::forget(db);
    // crash image 1: everything of A except the god byte
    let mut img1 = after_a.clone();
    img1[9] = before_a[9];
    println!("god before A {:#x} after A {:#x}", before_a[9], after_a[9]);
    let (db, h) = open(img1);
    let db = db.unwrap();
    println!("recovery 1 shows: {}", dump(&db));
    println!("recovery ops:");
    show(&h.take_ops());
    let before_b = h.snapshot();
    {
        let w = db.begin_write().unwrap();
        {
            let mut t = w.open_table(T).unwrap();
            t.insert(3, &[3u8; 30][..]).unwrap();
        }
        w.commit().unwrap();
    }
    println!("commit B:");
    show(&h.take_ops());
    let after_b = h.snapshot();
    println!("after B shows: {}", dump(&db));
    std::mem::forget(db);
    // crash image 2: only the god byte of B's window persisted
    let mut img2 = before_b.clone();
    img2[9] = after_b[9];
    println!("god before B {:#x} after B {:#x}", before_b[9], after_b[9]);
    let (db, _h) = open(img2);
    match db {
        Ok(db) => println!("recovery 2 shows: {}   (allowed: '1=10 ' or '1=10 3=30 ')", dump(&db)),
        Err(e) => println!("recovery 2 failed: {e}"),
    }
}
