//! C01 harness: commits are atomic and durable across crashes.
//!
//! usage: c01 <n_histories> <images_per_history> [only=<history index>]
//!
//! For every generated history (transactions against the REAL crate on a recording backend) it
//!  (a) S3 crash oracle: builds adversarial crash images of the recorded operation stream (drops,
//!      prefixes, byte tears of the header write, set_len applied or not), opens them with the real
//!      crate and requires: open succeeds, contents == exactly one commit point between the last
//!      acknowledged durable one and the last requested one, check_integrity does not fail.  Then the
//!      recovery run is crashed the same way (depth 2, 3 thorough) and the recovered database is
//!      driven further and crashed again.
//!  (b) S2 material: writes the operation stream cut into sync windows, each with the summary of its
//!      durable image (header, length, served slot and page ranges from redb's own walker, checksum
//!      bits from redb's XXH3) for the extracted Coq validator `window_okb`, and for sampled crash
//!      images the inputs/outputs of open for the differential test of the Coq `recover`.
//!
//! files written to the cwd: windows.txt, recover_cases.txt, recover_impl.txt, violations.json, stats.json
use redb::{
    Builder, Database, Durability, MultimapTableDefinition, MultimapTableHandle, ReadableDatabase,
    ReadableMultimapTable, ReadableTable, Savepoint, TableDefinition, TableHandle,
};
use rv_harness::backend::{Op, RecBackend};
use rv_harness::{Rng, catch, hex, seed_from_env, silence_panics, tier_is_thorough};
use std::collections::{BTreeMap, BTreeSet};
use std::fmt::Write as _;

const HDR: usize = 320;
const GOD: usize = 9;
const SLOT0: usize = 64;
const SLOT1: usize = 192;
const SLOT_LEN: usize = 128;
const CKS: usize = 112;

const TNAMES: [&str; 3] = ["t0", "t1", "t2"];
const MNAMES: [&str; 2] = ["m0", "m1"];

fn tdef(name: &'static str) -> TableDefinition<'static, u64, &'static [u8]> {
    TableDefinition::new(name)
}
fn mdef(name: &'static str) -> MultimapTableDefinition<'static, u64, &'static [u8]> {
    MultimapTableDefinition::new(name)
}

// ------------------------------------------------------------------------------------------ spec

#[derive(Clone, PartialEq, Eq, Default, Debug)]
struct Content {
    tables: BTreeMap<String, BTreeMap<u64, Vec<u8>>>,
    mm: BTreeMap<String, BTreeMap<u64, BTreeSet<Vec<u8>>>>,
}

#[derive(Clone, PartialEq, Eq, Default, Debug)]
struct Spec {
    c: Content,
    sps: BTreeSet<u64>,
}

/// canonical digest of "all tables + persistent savepoints"
fn digest_parts(
    tables: &BTreeMap<String, BTreeMap<u64, Vec<u8>>>,
    mm: &BTreeMap<String, BTreeMap<u64, BTreeSet<Vec<u8>>>>,
    sps: &BTreeSet<u64>,
) -> String {
    let mut buf: Vec<u8> = vec![];
    let mut summary = String::new();
    for (n, t) in tables {
        buf.extend(b"T");
        buf.extend(n.as_bytes());
        buf.push(0);
        for (k, v) in t {
            buf.extend(k.to_le_bytes());
            buf.extend((v.len() as u64).to_le_bytes());
            buf.extend(v);
        }
        write!(summary, "{}:{} ", n, t.len()).unwrap();
    }
    for (n, t) in mm {
        buf.extend(b"M");
        buf.extend(n.as_bytes());
        buf.push(0);
        let mut cnt = 0;
        for (k, vs) in t {
            buf.extend(k.to_le_bytes());
            buf.extend((vs.len() as u64).to_le_bytes());
            for v in vs {
                buf.extend((v.len() as u64).to_le_bytes());
                buf.extend(v);
                cnt += 1;
            }
        }
        write!(summary, "{}:{}/{} ", n, t.len(), cnt).unwrap();
    }
    buf.extend(b"S");
    for s in sps {
        buf.extend(s.to_le_bytes());
    }
    write!(summary, "sp:{:?}", sps.iter().collect::<Vec<_>>()).unwrap();
    format!("{:032x} {}", redb::verif::xxh3_128(&buf), summary)
}

impl Spec {
    fn digest(&self) -> String {
        digest_parts(&self.c.tables, &self.c.mm, &self.sps)
    }
}

/// dump of the real database: all tables, all multimap tables, persistent savepoints
fn dump(db: &Database) -> Result<String, String> {
    let r = catch(|| -> Result<String, String> {
        let rt = db.begin_read().map_err(|e| format!("begin_read: {e:?}"))?;
        let mut tables = BTreeMap::new();
        let mut names: Vec<String> = rt
            .list_tables()
            .map_err(|e| format!("list_tables: {e:?}"))?
            .map(|h| h.name().to_string())
            .collect();
        names.sort();
        for n in names {
            let Some(sn) = TNAMES.iter().find(|x| **x == n) else {
                return Err(format!("unknown table {n}"));
            };
            let t = rt.open_table(tdef(sn)).map_err(|e| format!("open_table {n}: {e:?}"))?;
            let mut m = BTreeMap::new();
            for e in t.iter().map_err(|e| format!("iter {n}: {e:?}"))? {
                let (k, v) = e.map_err(|e| format!("iter item {n}: {e:?}"))?;
                m.insert(k.value(), v.value().to_vec());
            }
            tables.insert(n, m);
        }
        let mut mm = BTreeMap::new();
        let mut names: Vec<String> = rt
            .list_multimap_tables()
            .map_err(|e| format!("list_multimap_tables: {e:?}"))?
            .map(|h| h.name().to_string())
            .collect();
        names.sort();
        for n in names {
            let Some(sn) = MNAMES.iter().find(|x| **x == n) else {
                return Err(format!("unknown multimap table {n}"));
            };
            let t = rt
                .open_multimap_table(mdef(sn))
                .map_err(|e| format!("open_multimap_table {n}: {e:?}"))?;
            let mut m: BTreeMap<u64, BTreeSet<Vec<u8>>> = BTreeMap::new();
            for e in t.iter().map_err(|e| format!("mm iter {n}: {e:?}"))? {
                let (k, vs) = e.map_err(|e| format!("mm iter item {n}: {e:?}"))?;
                let mut set = BTreeSet::new();
                for v in vs {
                    set.insert(v.map_err(|e| format!("mm value {n}: {e:?}"))?.value().to_vec());
                }
                m.insert(k.value(), set);
            }
            mm.insert(n, m);
        }
        drop(rt);
        let wt = db.begin_write().map_err(|e| format!("begin_write: {e:?}"))?;
        let sps: BTreeSet<u64> = wt
            .list_persistent_savepoints()
            .map_err(|e| format!("list_persistent_savepoints: {e:?}"))?
            .collect();
        wt.abort().map_err(|e| format!("abort: {e:?}"))?;
        Ok(digest_parts(&tables, &mm, &sps))
    });
    match r {
        Ok(x) => x,
        Err(p) => Err(format!("PANIC {p}")),
    }
}

// ------------------------------------------------------------------------------------------ config

#[derive(Clone, Copy, Debug)]
struct Cfg {
    page_size: usize,
    region_pages: u64,
    cache: usize,
}

impl Cfg {
    fn region_size(&self) -> u64 {
        self.region_pages * self.page_size as u64
    }
    fn max_value(&self) -> usize {
        // a value must fit into one page allocation inside one region
        (self.region_size() / 4) as usize
    }
    fn describe(&self) -> String {
        format!("page_size={} region_pages={} cache={}", self.page_size, self.region_pages, self.cache)
    }
}

fn open_db(cfg: &Cfg, backend: RecBackend) -> Result<Database, String> {
    let r = catch(|| {
        let mut b = Builder::new();
        b.verif_set_page_size(cfg.page_size);
        b.verif_set_region_size(cfg.region_size());
        b.set_cache_size(cfg.cache);
        b.create_with_backend(backend).map_err(|e| format!("{e:?}"))
    });
    match r {
        Ok(Ok(d)) => Ok(d),
        Ok(Err(e)) => Err(e),
        Err(p) => Err(format!("PANIC {p}")),
    }
}

// ------------------------------------------------------------------------------------------ histories

#[derive(Clone, Debug)]
enum TOp {
    Insert(usize, u64, usize, u8), // table, key, value len, fill
    Remove(usize, u64),
    MInsert(usize, u64, usize, u8),
    MRemove(usize, u64, usize, u8),
    MRemoveAll(usize, u64),
    DeleteTable(usize),
    DeleteMTable(usize),
    Bulk(usize, u64, u64, usize), // table, first key, count, value len
    BulkRemove(usize, u64, u64),
}

#[derive(Clone, Debug)]
enum SpAct {
    None,
    CreatePersistent,
    RestorePersistent(u64),
    DeletePersistent(u64),
    CreateEphemeral,
    RestoreEphemeral(usize),
}

#[derive(Clone, Debug)]
struct Txn {
    durable: bool,
    two_phase: bool,
    quick_repair: bool,
    sp: SpAct,
    ops: Vec<TOp>,
    abort: bool,
}

#[derive(Clone, Debug)]
enum Step {
    T(Txn),
    Reopen,
    Compact,
    DropEphemeral(usize),
}

fn value(len: usize, fill: u8, key: u64) -> Vec<u8> {
    let mut v = vec![fill; len];
    let kb = key.to_le_bytes();
    for (i, b) in v.iter_mut().enumerate().take(8) {
        *b ^= kb[i];
    }
    v
}

/// position marks into the recorded operation stream
#[derive(Clone, Debug, Default)]
struct Marks {
    /// (position in ops, commit point index): commit point requested when ops.len() == position
    requested: Vec<(usize, usize)>,
    /// (position, commit point index): acknowledged durable once ops.len() == position
    acked: Vec<(usize, usize)>,
}

impl Marks {
    fn lo(&self, k: usize) -> usize {
        self.acked.iter().filter(|(p, _)| *p <= k).map(|(_, c)| *c).max().unwrap_or(0)
    }
    fn hi(&self, k: usize) -> usize {
        self.requested.iter().filter(|(p, _)| *p < k).map(|(_, c)| *c).max().unwrap_or(0)
    }
}

/// one run of the real crate on one backend: from an initial image through open, steps, (clean close)
struct Run {
    cfg: Cfg,
    start_image: Vec<u8>,
    ops: Vec<Op>,
    /// position after which crash points are meaningful (creation / open completed)
    ready_pos: usize,
    cps: Vec<Spec>,
    cp_digests: Vec<String>,
    saved_all: BTreeMap<u64, Content>,
    marks: Marks,
    steps: Vec<String>,
    error: Option<String>,
    markers: BTreeSet<&'static str>,
    /// protocol-level segments of the operation stream (S2 against the extracted protocol model)
    segs: Vec<Seg>,
}

/// a protocol-level event and the part ops[from..to] of the recorded stream it produced.
/// kind: "create" | "open <p> <vq>" | "txn1" | "txn2" | "nd" | "abort" | "compact" | "close"
#[derive(Clone, Debug)]
struct Seg {
    kind: String,
    from: usize,
    to: usize,
}

struct Live {
    db: Option<Database>,
    handle: RecBackend,
    spec: Spec,
    /// captured contents of persistent savepoints (id -> content at creation)
    saved: BTreeMap<u64, Content>,
    ephemeral: Vec<Option<(Savepoint, Content, u64)>>,
    pending_nondurable: bool,
}

fn sync_ops(run: &mut Run, live: &Live) {
    run.ops.extend(live.handle.take_ops());
}

fn gen_txn(r: &mut Rng, cfg: &Cfg, live: &Live, force_plain: bool) -> Txn {
    let durable = force_plain || r.chance(2, 3);
    let mode = r.below(6);
    let two_phase = durable && mode == 0;
    let quick_repair = durable && mode == 1;
    let mut sp = SpAct::None;
    if durable && !force_plain && r.chance(1, 5) {
        let ids: Vec<u64> = live.spec.sps.iter().copied().filter(|i| live.saved.contains_key(i)).collect();
        let eph: Vec<usize> =
            live.ephemeral.iter().enumerate().filter(|(_, e)| e.is_some()).map(|(i, _)| i).collect();
        sp = match r.below(5) {
            0 | 1 => SpAct::CreatePersistent,
            2 if !ids.is_empty() => SpAct::RestorePersistent(*r.pick(&ids)),
            3 if !ids.is_empty() => SpAct::DeletePersistent(*r.pick(&ids)),
            4 if !eph.is_empty() => SpAct::RestoreEphemeral(*r.pick(&eph)),
            _ => SpAct::CreateEphemeral,
        };
    }
    let nops = r.range(1, 5);
    let mut ops = vec![];
    let small = [0usize, 1, 8, 40, 100, 300];
    for _ in 0..nops {
        let t = r.below(TNAMES.len() as u64) as usize;
        let m = r.below(MNAMES.len() as u64) as usize;
        let key = r.below(24);
        let len = if r.chance(1, 6) {
            r.range(cfg.page_size as u64 / 2, cfg.max_value() as u64) as usize
        } else {
            *r.pick(&small)
        };
        let fill = r.below(250) as u8;
        ops.push(match r.below(16) {
            0..=4 => TOp::Insert(t, key, len, fill),
            5 | 6 => TOp::Remove(t, key),
            7 | 8 => TOp::MInsert(m, key % 6, len.min(cfg.page_size / 4), fill % 5),
            9 => TOp::MRemove(m, key % 6, len.min(cfg.page_size / 4), fill % 5),
            10 => TOp::MRemoveAll(m, key % 6),
            11 => {
                if r.chance(1, 3) {
                    TOp::DeleteTable(t)
                } else {
                    TOp::Remove(t, key)
                }
            }
            12 => {
                if r.chance(1, 3) {
                    TOp::DeleteMTable(m)
                } else {
                    TOp::MRemoveAll(m, key % 6)
                }
            }
            13 => TOp::Bulk(t, 1000 + r.below(4) * 100, r.range(8, 60), r.range(64, cfg.max_value() as u64) as usize),
            14 => TOp::BulkRemove(t, 1000 + r.below(4) * 100, r.range(8, 100)),
            _ => TOp::Insert(t, key, len, fill),
        });
    }
    Txn { durable, two_phase, quick_repair, sp, ops, abort: !force_plain && r.chance(1, 12) }
}

fn apply_spec(c: &mut Content, op: &TOp) {
    match op {
        TOp::Insert(t, k, len, fill) => {
            c.tables.entry(TNAMES[*t].to_string()).or_default().insert(*k, value(*len, *fill, *k));
        }
        TOp::Remove(t, k) => {
            c.tables.entry(TNAMES[*t].to_string()).or_default().remove(k);
        }
        TOp::MInsert(m, k, len, fill) => {
            c.mm.entry(MNAMES[*m].to_string()).or_default().entry(*k).or_default().insert(value(*len, *fill, *k));
        }
        TOp::MRemove(m, k, len, fill) => {
            let t = c.mm.entry(MNAMES[*m].to_string()).or_default();
            if let Some(s) = t.get_mut(k) {
                s.remove(&value(*len, *fill, *k));
                if s.is_empty() {
                    t.remove(k);
                }
            }
        }
        TOp::MRemoveAll(m, k) => {
            c.mm.entry(MNAMES[*m].to_string()).or_default().remove(k);
        }
        TOp::DeleteTable(t) => {
            c.tables.remove(TNAMES[*t]);
        }
        TOp::DeleteMTable(m) => {
            c.mm.remove(MNAMES[*m]);
        }
        TOp::Bulk(t, first, count, len) => {
            let tb = c.tables.entry(TNAMES[*t].to_string()).or_default();
            for i in 0..*count {
                tb.insert(first + i, value(*len, (i % 200) as u8, first + i));
            }
        }
        TOp::BulkRemove(t, first, count) => {
            let tb = c.tables.entry(TNAMES[*t].to_string()).or_default();
            for i in 0..*count {
                tb.remove(&(first + i));
            }
        }
    }
}

fn apply_real(w: &redb::WriteTransaction, op: &TOp) -> Result<(), String> {
    let e = |x: &dyn std::fmt::Debug| format!("{x:?}");
    match op {
        TOp::Insert(t, k, len, fill) => {
            let mut tb = w.open_table(tdef(TNAMES[*t])).map_err(|x| e(&x))?;
            tb.insert(*k, value(*len, *fill, *k).as_slice()).map_err(|x| e(&x))?;
        }
        TOp::Remove(t, k) => {
            let mut tb = w.open_table(tdef(TNAMES[*t])).map_err(|x| e(&x))?;
            tb.remove(*k).map_err(|x| e(&x))?;
        }
        TOp::MInsert(m, k, len, fill) => {
            let mut tb = w.open_multimap_table(mdef(MNAMES[*m])).map_err(|x| e(&x))?;
            tb.insert(*k, value(*len, *fill, *k).as_slice()).map_err(|x| e(&x))?;
        }
        TOp::MRemove(m, k, len, fill) => {
            let mut tb = w.open_multimap_table(mdef(MNAMES[*m])).map_err(|x| e(&x))?;
            tb.remove(*k, value(*len, *fill, *k).as_slice()).map_err(|x| e(&x))?;
        }
        TOp::MRemoveAll(m, k) => {
            let mut tb = w.open_multimap_table(mdef(MNAMES[*m])).map_err(|x| e(&x))?;
            tb.remove_all(*k).map_err(|x| e(&x))?;
        }
        TOp::DeleteTable(t) => {
            w.delete_table(tdef(TNAMES[*t])).map_err(|x| e(&x))?;
        }
        TOp::DeleteMTable(m) => {
            w.delete_multimap_table(mdef(MNAMES[*m])).map_err(|x| e(&x))?;
        }
        TOp::Bulk(t, first, count, len) => {
            let mut tb = w.open_table(tdef(TNAMES[*t])).map_err(|x| e(&x))?;
            for i in 0..*count {
                tb.insert(first + i, value(*len, (i % 200) as u8, first + i).as_slice()).map_err(|x| e(&x))?;
            }
        }
        TOp::BulkRemove(t, first, count) => {
            let mut tb = w.open_table(tdef(TNAMES[*t])).map_err(|x| e(&x))?;
            for i in 0..*count {
                tb.remove(first + i).map_err(|x| e(&x))?;
            }
        }
    }
    Ok(())
}

/// run one transaction on the real crate and on the spec; records marks
fn run_txn(run: &mut Run, live: &mut Live, t: &Txn) -> Result<(), String> {
    let e = |x: &dyn std::fmt::Debug| format!("{x:?}");
    sync_ops(run, live);
    let seg_from = run.ops.len();
    let db = live.db.as_ref().unwrap();
    let mut w = db.begin_write().map_err(|x| e(&x))?;
    if !t.durable {
        w.set_durability(Durability::None).map_err(|x| e(&x))?;
        run.markers.insert("nondurable");
    }
    if t.two_phase {
        w.set_two_phase_commit(true);
        run.markers.insert("2pc");
    }
    if t.quick_repair {
        w.set_quick_repair(true);
        run.markers.insert("quick-repair");
    }
    let mut spec = live.spec.clone();
    let mut new_saved: Option<(u64, Content)> = None;
    let mut new_eph: Option<(Savepoint, Content, u64)> = None;
    match &t.sp {
        SpAct::None => {}
        SpAct::CreatePersistent => {
            let id = w.persistent_savepoint().map_err(|x| e(&x))?;
            spec.sps.insert(id);
            new_saved = Some((id, live.spec.c.clone()));
            run.markers.insert("savepoint-create");
        }
        SpAct::RestorePersistent(id) => {
            let sp = w.get_persistent_savepoint(*id).map_err(|x| e(&x))?;
            w.restore_savepoint(&sp).map_err(|x| e(&x))?;
            spec.c = live.saved.get(id).ok_or("spec lost savepoint")?.clone();
            spec.sps.retain(|x| x <= id);
            run.markers.insert("savepoint-restore");
        }
        SpAct::DeletePersistent(id) => {
            let existed = w.delete_persistent_savepoint(*id).map_err(|x| e(&x))?;
            if !existed {
                return Err(format!("delete_persistent_savepoint({id}) returned false"));
            }
            spec.sps.remove(id);
            run.markers.insert("savepoint-delete");
        }
        SpAct::CreateEphemeral => {
            let sp = w.ephemeral_savepoint().map_err(|x| e(&x))?;
            // its id orders it among the persistent ones
            let next_id = spec.sps.iter().max().map_or(0, |x| x + 1);
            new_eph = Some((sp, live.spec.c.clone(), next_id));
        }
        SpAct::RestoreEphemeral(i) => {
            if let Some((sp, c, _)) = live.ephemeral[*i].as_ref() {
                match w.restore_savepoint(sp) {
                    Ok(()) => {
                        spec.c = c.clone();
                        // persistent savepoints created after it are deleted: ask the real txn
                        let remaining: BTreeSet<u64> =
                            w.list_persistent_savepoints().map_err(|x| e(&x))?.collect();
                        // they can only be a subset of what the spec had
                        if !remaining.is_subset(&spec.sps) {
                            return Err("restore_savepoint invented savepoints".into());
                        }
                        spec.sps = remaining;
                        run.markers.insert("savepoint-restore-ephemeral");
                    }
                    Err(redb::SavepointError::InvalidSavepoint) => {}
                    Err(x) => return Err(e(&x)),
                }
            }
        }
    }
    for op in &t.ops {
        apply_real(&w, op)?;
        apply_spec(&mut spec.c, op);
        match op {
            TOp::Bulk(..) => {
                run.markers.insert("bulk-insert");
            }
            TOp::BulkRemove(..) => {
                run.markers.insert("bulk-remove");
            }
            TOp::MInsert(..) => {
                run.markers.insert("multimap");
            }
            TOp::DeleteTable(..) | TOp::DeleteMTable(..) => {
                run.markers.insert("delete-table");
            }
            _ => {}
        }
    }
    if t.abort {
        w.abort().map_err(|x| e(&x))?;
        sync_ops(run, live);
        run.segs.push(Seg { kind: "abort".into(), from: seg_from, to: run.ops.len() });
        run.markers.insert("abort");
        return Ok(());
    }
    sync_ops(run, live);
    let idx = run.cps.len();
    run.cp_digests.push(spec.digest());
    run.cps.push(spec.clone());
    run.marks.requested.push((run.ops.len(), idx));
    w.commit().map_err(|x| e(&x))?;
    sync_ops(run, live);
    let kind = if !t.durable {
        "nd"
    } else if t.two_phase || t.quick_repair {
        "txn2"
    } else {
        "txn1"
    };
    run.segs.push(Seg { kind: kind.into(), from: seg_from, to: run.ops.len() });
    if t.durable {
        run.marks.acked.push((run.ops.len(), idx));
        live.pending_nondurable = false;
    } else {
        live.pending_nondurable = true;
    }
    live.spec = spec;
    if let Some((id, c)) = new_saved {
        run.saved_all.insert(id, c.clone());
        live.saved.insert(id, c);
    }
    if let Some(x) = new_eph {
        live.ephemeral.push(Some(x));
    }
    // invalidate ephemeral savepoints on the spec side lazily: redb reports InvalidSavepoint
    Ok(())
}

fn live_check(run: &mut Run, live: &Live, what: &str) -> Result<(), String> {
    let d = dump(live.db.as_ref().unwrap())?;
    let s = live.spec.digest();
    if d != s {
        return Err(format!("live database differs from the specification after {what}: real={d} spec={s}"));
    }
    let _ = run;
    Ok(())
}

fn do_step(run: &mut Run, live: &mut Live, step: &Step) -> Result<(), String> {
    match step {
        Step::T(t) => {
            run_txn(run, live, t)?;
            live_check(run, live, "commit")?;
        }
        Step::Reopen => {
            for e in live.ephemeral.iter_mut() {
                *e = None;
            }
            sync_ops(run, live);
            let seg_from = run.ops.len();
            let db = live.db.take().unwrap();
            drop(db);
            sync_ops(run, live);
            run.segs.push(Seg { kind: "close".into(), from: seg_from, to: run.ops.len() });
            // a clean close persists everything committed so far
            let last = run.cps.len() - 1;
            run.marks.acked.push((run.ops.len(), last));
            live.pending_nondurable = false;
            let backend = live.handle.handle();
            let closed_hdr: Vec<u8> = live.handle.0.lock().unwrap().data.iter().take(HDR).copied().collect();
            let seg_from = run.ops.len();
            let db = open_db(&run.cfg, backend)?;
            let kind = open_seg_kind(&closed_hdr, &db);
            live.db = Some(db);
            sync_ops(run, live);
            run.segs.push(Seg { kind, from: seg_from, to: run.ops.len() });
            run.markers.insert("clean-reopen");
            live_check(run, live, "reopen")?;
        }
        Step::Compact => {
            for e in live.ephemeral.iter_mut() {
                *e = None;
            }
            sync_ops(run, live);
            let seg_from = run.ops.len();
            let db = live.db.as_mut().unwrap();
            let res = catch(|| db.compact());
            sync_ops(run, live);
            run.segs.push(Seg { kind: "compact".into(), from: seg_from, to: run.ops.len() });
            match res {
                Ok(Ok(_)) => {
                    run.markers.insert("compact");
                    // compaction commits durably; content is unchanged
                    sync_ops(run, live);
                    let last = run.cps.len() - 1;
                    run.marks.acked.push((run.ops.len(), last));
                    live.pending_nondurable = false;
                }
                Ok(Err(redb::CompactionError::PersistentSavepointExists))
                | Ok(Err(redb::CompactionError::EphemeralSavepointExists)) => {}
                Ok(Err(x)) => return Err(format!("compact: {x:?}")),
                Err(p) => return Err(format!("compact PANIC {p}")),
            }
            sync_ops(run, live);
            live_check(run, live, "compact")?;
        }
        Step::DropEphemeral(i) => {
            if *i < live.ephemeral.len() {
                live.ephemeral[*i] = None;
            }
        }
    }
    Ok(())
}

fn gen_step(r: &mut Rng, cfg: &Cfg, live: &Live) -> Step {
    match r.below(14) {
        0 => Step::Reopen,
        1 => Step::Compact,
        2 if !live.ephemeral.is_empty() => Step::DropEphemeral(r.below(live.ephemeral.len() as u64) as usize),
        _ => Step::T(gen_txn(r, cfg, live, false)),
    }
}

/// Opens `image` with the real crate on a recording backend and runs `n_steps` generated steps.
/// `base` is the specification of the contents the image is expected to show (None: fresh database).
fn run_history(
    r: &mut Rng,
    cfg: Cfg,
    image: Vec<u8>,
    base: Option<(Spec, BTreeMap<u64, Content>)>,
    n_steps: usize,
    final_close: bool,
) -> Run {
    let backend = RecBackend::with_data(image.clone());
    let handle = backend.handle();
    let mut run = Run {
        cfg,
        start_image: image,
        ops: vec![],
        ready_pos: 0,
        cps: vec![],
        cp_digests: vec![],
        saved_all: BTreeMap::new(),
        marks: Marks::default(),
        steps: vec![],
        error: None,
        markers: BTreeSet::new(),
        segs: vec![],
    };
    let db = match open_db(&cfg, backend) {
        Ok(db) => db,
        Err(e) => {
            run.ops = handle.take_ops();
            run.error = Some(format!("open failed: {e}"));
            return run;
        }
    };
    let (spec, saved) = base.unwrap_or_default();
    let mut live = Live { db: Some(db), handle, spec: spec.clone(), saved, ephemeral: vec![], pending_nondurable: false };
    sync_ops(&mut run, &live);
    run.ready_pos = run.ops.len();
    let kind = if run.start_image.len() >= HDR {
        open_seg_kind(&run.start_image[..HDR], live.db.as_ref().unwrap())
    } else {
        "create".to_string()
    };
    run.segs.push(Seg { kind, from: 0, to: run.ready_pos });
    run.cp_digests.push(spec.digest());
    run.cps.push(spec);
    run.marks.requested.push((0, 0));
    run.marks.acked.push((0, 0));
    for i in 0..n_steps {
        let step = if i == 0 { Step::T(gen_txn(r, &cfg, &live, true)) } else { gen_step(r, &cfg, &live) };
        run.steps.push(format!("{step:?}"));
        let res = match catch(|| do_step(&mut run, &mut live, &step)) {
            Ok(x) => x,
            Err(p) => Err(format!("PANIC {p}")),
        };
        if let Err(e) = res {
            run.error = Some(format!("step {i} {step:?}: {e}"));
            sync_ops(&mut run, &live);
            // leave the database alone: the recorded stream up to here is still valid material
            live.handle.0.lock().unwrap().record = false;
            if let Some(db) = live.db.take() {
                let eph = std::mem::take(&mut live.ephemeral);
                let _ = catch(move || {
                    drop(eph);
                    drop(db);
                });
            }
            return run;
        }
    }
    live.ephemeral.clear();
    let db = live.db.take().unwrap();
    if final_close {
        sync_ops(&mut run, &live);
        let seg_from = run.ops.len();
        drop(db);
        sync_ops(&mut run, &live);
        run.segs.push(Seg { kind: "close".into(), from: seg_from, to: run.ops.len() });
        let last = run.cps.len() - 1;
        run.marks.acked.push((run.ops.len(), last));
        run.markers.insert("final-close");
    } else {
        // process "dies": nothing more reaches the backend
        live.handle.0.lock().unwrap().record = false;
        drop(db);
    }
    run
}

// ------------------------------------------------------------------------------------------ crash images

#[derive(Clone, Debug, PartialEq, Eq)]
enum Fate {
    Drop,
    Full,
    /// apply only these byte ranges (relative to the write) of a write
    Part(Vec<(usize, usize)>),
}

#[derive(Clone, Debug)]
struct Choice {
    kind: &'static str,
    /// crash after ops[..k] were issued
    k: usize,
    /// fate of every pending op (ops[sync_pos..k])
    fates: Vec<Fate>,
}

fn apply_fates(durable: &[u8], pending: &[Op], fates: &[Fate]) -> Vec<u8> {
    let mut img = durable.to_vec();
    for (op, f) in pending.iter().zip(fates) {
        match (op, f) {
            (_, Fate::Drop) => {}
            (Op::SetLen(n), _) => img.resize(*n as usize, 0),
            (Op::Write { off, data }, f) => {
                let off = *off as usize;
                let ranges = match f {
                    Fate::Full => vec![(0, data.len())],
                    Fate::Part(r) => r.clone(),
                    Fate::Drop => vec![],
                };
                for (a, b) in ranges {
                    for i in a..b.min(data.len()) {
                        if off + i < img.len() {
                            img[off + i] = data[i];
                        }
                    }
                }
            }
            _ => {}
        }
    }
    img
}

/// positions (exclusive ends) at which the 320-byte header write is torn
const HDR_CUTS: [usize; 17] = [9, 10, 12, 24, 28, 32, 64, 65, 72, 104, 168, 176, 184, 192, 200, 296, 304];

fn is_hdr(op: &Op) -> bool {
    matches!(op, Op::Write { off: 0, data } if data.len() == HDR)
}

/// adversarial choices for the window that is open at position k (pending = ops[s..k])
fn choices_for(r: &mut Rng, durable: &[u8], pending: &[Op], k: usize, budget: usize, rot: usize) -> Vec<Choice> {
    let n = pending.len();
    let mut out: Vec<Choice> = vec![];
    let all = |f: Fate| vec![f; n];
    let hdr_idx: Vec<usize> = (0..n).filter(|i| is_hdr(&pending[*i])).collect();
    let setlen_idx: Vec<usize> = (0..n).filter(|i| matches!(pending[*i], Op::SetLen(_))).collect();
    out.push(Choice { kind: "all-applied", k, fates: all(Fate::Full) });
    out.push(Choice { kind: "none-applied", k, fates: all(Fate::Drop) });
    if let Some(&h) = hdr_idx.last() {
        // only the god byte
        let mut f = all(Fate::Drop);
        f[h] = Fate::Part(vec![(GOD, GOD + 1)]);
        out.push(Choice { kind: "god-byte-only", k, fates: f });
        // header without data
        let mut f = all(Fate::Drop);
        for &h in &hdr_idx {
            f[h] = Fate::Full;
        }
        out.push(Choice { kind: "header-without-data", k, fates: f });
        // data without header
        let mut f = all(Fate::Full);
        for &h in &hdr_idx {
            f[h] = Fate::Drop;
        }
        out.push(Choice { kind: "data-without-header", k, fates: f });
        // everything but the god byte
        let mut f = all(Fate::Full);
        f[h] = Fate::Part(vec![(0, GOD), (GOD + 1, HDR)]);
        out.push(Choice { kind: "all-but-god-byte", k, fates: f });
        // tears of the header at field boundaries, with all / none of the data
        for &cut in &HDR_CUTS {
            for (data_fate, tag) in [(Fate::Full, "data"), (Fate::Drop, "nodata")] {
                let mut f = all(data_fate.clone());
                f[h] = Fate::Part(vec![(0, cut)]);
                out.push(Choice {
                    kind: if tag == "data" { "header-prefix-torn+data" } else { "header-prefix-torn" },
                    k,
                    fates: f,
                });
                let mut f = all(data_fate);
                f[h] = Fate::Part(vec![(cut, HDR)]);
                out.push(Choice {
                    kind: if tag == "data" { "header-suffix-torn+data" } else { "header-suffix-torn" },
                    k,
                    fates: f,
                });
            }
        }
        // tears inside the slot this header write changes: only its transaction id (+ optionally the
        // checksum) new over the old roots; only its roots new under the old transaction id
        if let (Op::Write { data, .. }, true) = (&pending[h], durable.len() >= HDR) {
            for base in [SLOT0, SLOT1] {
                if data[base..base + SLOT_LEN] != durable[base..base + SLOT_LEN] {
                    for (kind, ranges) in [
                        ("slot-txid-torn", vec![(base + 104, base + CKS)]),
                        ("slot-txid+checksum-torn", vec![(base + 104, base + SLOT_LEN)]),
                        ("slot-roots-torn", vec![(base, base + 104)]),
                    ] {
                        let mut f = all(Fate::Drop);
                        f[h] = Fate::Part(ranges.clone());
                        out.push(Choice { kind, k, fates: f });
                        let mut f = all(Fate::Drop);
                        let mut rg = ranges.clone();
                        rg.push((GOD, GOD + 1));
                        f[h] = Fate::Part(rg);
                        out.push(Choice { kind, k, fates: f });
                    }
                }
            }
        }
        // god byte + slot bytes but not the checksum, and the reverse
        let mut f = all(Fate::Full);
        f[h] = Fate::Part(vec![(GOD, GOD + 1), (SLOT0 + CKS, SLOT0 + SLOT_LEN), (SLOT1 + CKS, SLOT1 + SLOT_LEN)]);
        out.push(Choice { kind: "god+checksums-only", k, fates: f });
    }
    // each single write dropped, each single write alone
    for i in 0..n {
        let mut f = all(Fate::Full);
        f[i] = Fate::Drop;
        out.push(Choice { kind: "single-dropped", k, fates: f });
        if !is_hdr(&pending[i]) {
            if let Op::Write { data, .. } = &pending[i] {
                let mut f = all(Fate::Full);
                f[i] = Fate::Part(vec![(0, data.len() / 2)]);
                out.push(Choice { kind: "page-torn", k, fates: f });
            }
        }
    }
    // every prefix
    for j in 1..n {
        let mut f = all(Fate::Drop);
        for x in f.iter_mut().take(j) {
            *x = Fate::Full;
        }
        out.push(Choice { kind: "prefix", k, fates: f });
    }
    // set_len dropped / alone
    for &s in &setlen_idx {
        let mut f = all(Fate::Full);
        f[s] = Fate::Drop;
        out.push(Choice { kind: "setlen-dropped", k, fates: f });
        let mut f = all(Fate::Drop);
        f[s] = Fate::Full;
        out.push(Choice { kind: "setlen-only", k, fates: f });
    }
    // random subsets with random tears
    for _ in 0..4 {
        let f: Vec<Fate> = (0..n)
            .map(|i| match r.below(4) {
                0 => Fate::Drop,
                1 => {
                    if let Op::Write { data, .. } = &pending[i] {
                        let a = r.below(data.len() as u64 + 1) as usize;
                        let b = r.below(data.len() as u64 + 1) as usize;
                        Fate::Part(vec![(a.min(b), a.max(b))])
                    } else {
                        Fate::Full
                    }
                }
                _ => Fate::Full,
            })
            .collect();
        out.push(Choice { kind: "random-subset", k, fates: f });
    }
    // dedupe identical fates, then sample down to the budget keeping one of each kind first
    let mut seen: Vec<Vec<Fate>> = vec![];
    out.retain(|c| {
        if seen.contains(&c.fates) {
            false
        } else {
            seen.push(c.fates.clone());
            true
        }
    });
    if out.len() > budget {
        const PRIORITY: [&str; 10] = [
            "god-byte-only",
            "all-but-god-byte",
            "slot-txid-torn",
            "header-without-data",
            "data-without-header",
            "slot-txid+checksum-torn",
            "all-applied",
            "setlen-dropped",
            "slot-roots-torn",
            "setlen-only",
        ];
        let mut kept: Vec<Choice> = vec![];
        let mut kinds: BTreeSet<&'static str> = BTreeSet::new();
        let mut rest: Vec<Choice> = vec![];
        // shuffle deterministically
        let mut idx: Vec<usize> = (0..out.len()).collect();
        for i in (1..idx.len()).rev() {
            let j = r.below(i as u64 + 1) as usize;
            idx.swap(i, j);
        }
        // the classic adversarial images first (rotating over the crash points of a history so that a
        // small per-point budget still covers all of them), then one of each other kind, then the rest
        // a pending set_len is rare and decisive: its two fates always come first
        for p in ["setlen-only", "setlen-dropped"] {
            if let Some(c) = out.iter().find(|c| c.kind == p) {
                if kept.len() < budget && kinds.insert(p) {
                    kept.push(c.clone());
                }
            }
        }
        for i in 0..PRIORITY.len() {
            let p = PRIORITY[(rot + i) % PRIORITY.len()];
            if let Some(c) = out.iter().find(|c| c.kind == p) {
                if kept.len() < budget && kinds.insert(p) {
                    kept.push(c.clone());
                }
            }
        }
        for i in idx {
            let c = out[i].clone();
            if kept.iter().any(|x| x.fates == c.fates) {
                continue;
            }
            if kinds.insert(c.kind) && kept.len() < budget {
                kept.push(c);
            } else {
                rest.push(c);
            }
        }
        while kept.len() < budget && !rest.is_empty() {
            kept.push(rest.pop().unwrap());
        }
        out = kept;
    }
    out
}

/// the durable image and the index of the first pending op at crash point k
fn durable_at(run: &Run, k: usize) -> (Vec<u8>, usize) {
    let mut img = run.start_image.clone();
    let mut durable = img.clone();
    let mut s = 0;
    for (i, op) in run.ops[..k].iter().enumerate() {
        match op {
            Op::Write { off, data } => {
                let off = *off as usize;
                if off + data.len() <= img.len() {
                    img[off..off + data.len()].copy_from_slice(data);
                }
            }
            Op::SetLen(n) => img.resize(*n as usize, 0),
            Op::Sync => {
                durable = img.clone();
                s = i + 1;
            }
            _ => {}
        }
    }
    (durable, s)
}

// ------------------------------------------------------------------------------------------ oracle

#[derive(Clone, Debug)]
struct Violation {
    key: String,
    what: String,
    replay: String,
}

struct Stats {
    histories: u64,
    images: u64,
    images_by_kind: BTreeMap<String, u64>,
    outcome_old: u64,
    outcome_new: u64,
    outcome_mid: u64,
    recovery_images: u64,
    continuation_images: u64,
    windows: u64,
    protocol_segments: u64,
    recover_cases: u64,
    nontrivial: BTreeSet<String>,
    markers: BTreeMap<String, u64>,
    configs: BTreeMap<String, u64>,
    samples: Vec<String>,
    integrity_false: u64,
    run_errors: Vec<String>,
}

struct Out {
    /// S2 against the extracted protocol model: segments of the real stream with their protocol-level kind
    protocol: String,
    windows: String,
    recover_cases: String,
    recover_impl: String,
    violations: Vec<Violation>,
    stats: Stats,
}

struct Opened {
    digest: String,
    recovery_ops: Vec<Op>,
    served: (Option<[u8; 32]>, Option<[u8; 32]>),
    ver: [Option<bool>; 2],
    integrity: Result<bool, String>,
    after_image: Vec<u8>,
}

fn slot_roots(hdr: &[u8], slot: usize) -> (Option<[u8; 32]>, Option<[u8; 32]>) {
    let base = if slot == 0 { SLOT0 } else { SLOT1 };
    let s = &hdr[base..base + SLOT_LEN];
    let u = if s[1] != 0 { Some(s[8..40].try_into().unwrap()) } else { None };
    let y = if s[2] != 0 { Some(s[40..72].try_into().unwrap()) } else { None };
    (u, y)
}

fn slot_cks_real(hdr: &[u8], slot: usize) -> [u8; 16] {
    let base = if slot == 0 { SLOT0 } else { SLOT1 };
    redb::verif::xxh3_128(&hdr[base..base + CKS]).to_le_bytes()
}

fn slot_valid(hdr: &[u8], slot: usize) -> bool {
    let base = if slot == 0 { SLOT0 } else { SLOT1 };
    slot_cks_real(hdr, slot) == hdr[base + CKS..base + SLOT_LEN]
}

/// open a crash image with the real crate; dump; integrity; close cleanly
fn open_and_dump(cfg: &Cfg, image: &[u8], want_ver: bool, keep: bool) -> Result<(Opened, Option<(Database, RecBackend)>), String> {
    let backend = RecBackend::with_data(image.to_vec());
    let handle = backend.handle();
    let mut db = open_db(cfg, backend)?;
    let recovery_ops = handle.take_ops();
    let digest = dump(&db).map_err(|e| format!("dump after open: {e}"))?;
    let served = catch(|| db.verif_c01_served()).map_err(|p| format!("PANIC {p}"))?.map_err(|e| format!("{e:?}"))?;
    let mut ver = [None, None];
    if want_ver {
        for slot in 0..2 {
            let (u, y) = slot_roots(image, slot);
            ver[slot] = match catch(|| db.verif_c01_walk(u, y)) {
                Ok(Ok((v, _))) => Some(v),
                _ => Some(false),
            };
        }
    }
    if keep {
        let o = Opened { digest, recovery_ops, served: (served.0, served.1), ver, integrity: Ok(true), after_image: vec![] };
        return Ok((o, Some((db, handle))));
    }
    let integrity = match catch(|| db.check_integrity()) {
        Ok(Ok(b)) => Ok(b),
        Ok(Err(e)) => Err(format!("{e:?}")),
        Err(p) => Err(format!("PANIC {p}")),
    };
    let digest2 = dump(&db).map_err(|e| format!("dump after check_integrity: {e}"))?;
    if digest2 != digest {
        return Err(format!("contents changed by check_integrity: {digest} -> {digest2}"));
    }
    handle.0.lock().unwrap().record = false;
    drop(db);
    let after_image = handle.snapshot();
    Ok((Opened { digest, recovery_ops, served: (served.0, served.1), ver, integrity, after_image }, None))
}

fn describe_choice(pending: &[Op], c: &Choice) -> String {
    let mut s = format!("kind={} k={} pending=[", c.kind, c.k);
    for (op, f) in pending.iter().zip(&c.fates) {
        let o = match op {
            Op::Write { off, data } => format!("W@{}+{}", off, data.len()),
            Op::SetLen(n) => format!("L{n}"),
            Op::Sync => "S".into(),
            _ => "?".into(),
        };
        let f = match f {
            Fate::Drop => "drop".to_string(),
            Fate::Full => "full".to_string(),
            Fate::Part(r) => format!("part{r:?}"),
        };
        write!(s, "{o}:{f} ").unwrap();
    }
    s.push(']');
    s
}

fn classify(run: &Run, digest: &str, lo: usize, hi: usize) -> Result<usize, String> {
    // latest matching commit point in [lo, hi]
    for c in (lo..=hi).rev() {
        if run.cp_digests[c] == digest {
            return Ok(c);
        }
    }
    for (c, s) in run.cp_digests.iter().enumerate() {
        if s == digest {
            return Err(if c < lo {
                format!("older-than-acked: shows commit point {c}, allowed {lo}..={hi}")
            } else {
                format!("newer-than-requested: shows commit point {c}, allowed {lo}..={hi}")
            });
        }
    }
    Err(format!("no-commit-point: contents {digest} equal no commit point (allowed {lo}..={hi})"))
}

struct Ctx<'a> {
    seed: u64,
    hist: usize,
    out: &'a mut Out,
    thorough: bool,
    /// digests of commit points that were requested in an earlier epoch and rolled back by a recovery
    lost: Vec<String>,
    /// remaining budget of crash images of recovery runs / of continuation runs for this history
    rec_budget: usize,
    cont_budget: usize,
    directed_conts: usize,
    window_cap: u64,
    recover_cap: u64,
}

fn violation(cx: &mut Ctx, key: &str, what: String, replay: String) {
    cx.out.violations.push(Violation {
        key: key.to_string(),
        what,
        replay: format!("seed={} history={} {}", cx.seed, cx.hist, replay),
    });
}

/// record the inputs and the real outcome of one open for the differential test of `recover`
fn recover_case(out: &mut Out, cfg: &Cfg, image: &[u8], res: &Result<&Opened, String>) {
    if image.len() < HDR {
        return;
    }
    let hdr = &image[..HDR];
    let (v0, v1, real) = match res {
        Ok(o) => {
            let r0 = slot_roots(hdr, 0);
            let r1 = slot_roots(hdr, 1);
            let eq = |a: &Option<[u8; 32]>, b: &Option<[u8; 32]>| match (a, b) {
                (None, None) => true,
                (Some(x), Some(y)) => x[..24] == y[..24],
                _ => false,
            };
            let m0 = eq(&o.served.0, &r0.0) && eq(&o.served.1, &r0.1);
            let m1 = eq(&o.served.0, &r1.0) && eq(&o.served.1, &r1.1);
            let real = match (m0, m1) {
                (true, true) => "S*",
                (true, false) => "S0",
                (false, true) => "S1",
                (false, false) => "S?",
            };
            (o.ver[0].unwrap_or(false), o.ver[1].unwrap_or(false), real.to_string())
        }
        Err(_) => return, // without an open database the walker is not available; S3 reports the failure
    };
    writeln!(
        out.recover_cases,
        "R {} {} {} {} {} {} {}",
        cfg.page_size,
        image.len(),
        hex(hdr),
        hex(&slot_cks_real(hdr, 0)),
        hex(&slot_cks_real(hdr, 1)),
        v0 as u8,
        v1 as u8
    )
    .unwrap();
    writeln!(out.recover_impl, "{real}").unwrap();
    out.stats.recover_cases += 1;
}

/// crash oracle on one run; `depth` counts how many crashes lie behind `run.start_image`
fn crash_oracle(cx: &mut Ctx, r: &mut Rng, run: &Run, budget: usize, depth: usize, lineage: &str) {
    if run.ops.len() <= run.ready_pos {
        return;
    }
    // crash points: after every op inside sampled windows; always the points right before each Sync
    let sync_positions: Vec<usize> =
        (run.ready_pos..run.ops.len()).filter(|i| matches!(run.ops[*i], Op::Sync)).collect();
    let mut points: Vec<usize> = vec![];
    for &s in &sync_positions {
        points.push(s); // all ops of the window issued, sync not completed
    }
    if *points.last().unwrap_or(&0) != run.ops.len() {
        points.push(run.ops.len());
    }
    // a few mid-window points
    for _ in 0..(points.len() / 3 + 1) {
        points.push(r.range(run.ready_pos as u64, run.ops.len() as u64) as usize);
    }
    points.sort();
    points.dedup();
    let per_point = (budget / points.len().max(1)).max(3);
    let mut used = 0usize;
    // visit the points in a deterministic shuffled order so that a small budget still spreads
    let mut order: Vec<usize> = (0..points.len()).collect();
    for i in (1..order.len()).rev() {
        let j = r.below(i as u64 + 1) as usize;
        order.swap(i, j);
    }
    for pi in order {
        if used >= budget {
            break;
        }
        let k = points[pi];
        let (durable, s) = durable_at(run, k);
        let pending: Vec<Op> = run.ops[s..k].iter().filter(|o| !matches!(o, Op::Close)).cloned().collect();
        let lo = run.marks.lo(k);
        let hi = run.marks.hi(k).max(lo);
        // after a recovery the classic images (god byte only, ...) come first at every crash point
        let choices = choices_for(r, &durable, &pending, k, per_point, if depth > 0 { 0 } else { pi * per_point });
        for c in choices {
            if used >= budget {
                break;
            }
            used += 1;
            let image = apply_fates(&durable, &pending, &c.fates);
            cx.out.stats.images += 1;
            if depth > 0 {
                cx.out.stats.continuation_images += 1;
            }
            *cx.out.stats.images_by_kind.entry(c.kind.to_string()).or_default() += 1;
            let desc = format!("{} depth={} cfg=[{}] {}", lineage, depth, run.cfg.describe(), describe_choice(&pending, &c));
            let want_ver = cx.out.stats.recover_cases < cx.recover_cap && r.chance(1, 2);
            let res = open_and_dump(&run.cfg, &image, want_ver, false);
            match res {
                Err(e) => {
                    violation(cx, "c01-open-failed", format!("opening the crash image failed: {e}"), desc);
                }
                Ok((o, _)) => {
                    if want_ver {
                        recover_case(cx.out, &run.cfg, &image, &Ok(&o));
                    }
                    emit_open_protocol(cx.out, &format!("h{}:{}:open@{}#{}", cx.hist, depth, k, used), &image, &o);
                    match &o.integrity {
                        Ok(true) => {}
                        Ok(false) => cx.out.stats.integrity_false += 1,
                        Err(e) => violation(cx, "c01-integrity-error", format!("check_integrity after recovery failed: {e}"), desc.clone()),
                    }
                    match classify(run, &o.digest, lo, hi) {
                        Ok(cp) => {
                            if cp == lo && hi > lo {
                                cx.out.stats.outcome_old += 1;
                            } else if cp == hi {
                                cx.out.stats.outcome_new += 1;
                            } else {
                                cx.out.stats.outcome_mid += 1;
                            }
                            if pending.iter().any(|o| matches!(o, Op::Write { .. } | Op::SetLen(_))) {
                                cx.out.stats.nontrivial.insert(format!("{}|{}|{}|{}", cx.hist, lineage, k, describe_choice(&pending, &c)));
                            }
                            if cx.out.stats.samples.len() < 6 && hi > lo {
                                cx.out.stats.samples.push(format!("{desc} => commit point {cp} (allowed {lo}..={hi})"));
                            }
                            // depth 2: crash the recovery run itself
                            let max_depth = if cx.thorough { 3 } else { 2 };
                            let txid_tear = c.kind.starts_with("slot-txid");
                            if !o.recovery_ops.is_empty() && cx.rec_budget > 0 && (txid_tear || r.chance(1, if cx.thorough { 2 } else { 4 })) {
                                if cx.out.stats.windows < cx.window_cap {
                                    let tag = format!("h{}:rec@{}", cx.hist, k);
                                    if let Err(e) = emit_windows(cx.out, &run.cfg, &tag, &image, &o.recovery_ops, 0) {
                                        violation(cx, "c01-durable-image-unreadable", format!("a durable image inside a recovery run could not be opened/walked: {e}"), desc.clone());
                                    }
                                }
                                recovery_crash(cx, r, run, &image, &o.recovery_ops, lo, hi, &desc, 1, max_depth);
                            }
                            // continuation: drive the recovered database further and crash again.
                            // Directed: always after "everything but the god byte" (a complete commit that
                            // recovery may have to roll back), otherwise sampled.
                            let directed = ((c.kind == "all-but-god-byte" && cp < hi) || txid_tear) && cx.directed_conts > 0;
                            if depth == 0 && cx.cont_budget > 0 && (directed || r.chance(1, if cx.thorough { 6 } else { 12 })) {
                                if directed {
                                    cx.directed_conts -= 1;
                                }
                                let mut lost = cx.lost.clone();
                                for x in (cp + 1)..=hi {
                                    let d = run.cp_digests[x].clone();
                                    if d != run.cp_digests[cp] {
                                        lost.push(d);
                                    }
                                }
                                let saved_lost = std::mem::replace(&mut cx.lost, lost);
                                let base = run.cps[cp].clone();
                                let saved = saved_for(run, cp);
                                let mut r2 = r.fork(k as u64);
                                let cont = run_history(&mut r2, run.cfg, image.clone(), Some((base, saved)), 3, false);
                                if let Some(e) = &cont.error {
                                    violation(cx, "c01-continuation-failed", format!("after recovery the database misbehaved: {e}"), desc.clone());
                                } else {
                                    let lin = format!("{lineage}>cont[{}]", describe_choice(&pending, &c));
                                    let b = cx.cont_budget.min(if cx.thorough { 60 } else { 30 });
                                    cx.cont_budget -= b;
                                    crash_oracle(cx, &mut r2, &cont, b, depth + 1, &lin);
                                    emit_protocol(cx.out, &format!("h{}:cont@{}", cx.hist, k), &cont);
                                    if cx.out.stats.windows < cx.window_cap {
                                        let tag = format!("h{}:cont@{}", cx.hist, k);
                                        if let Err(e) = emit_windows(cx.out, &run.cfg, &tag, &cont.start_image, &cont.ops, 0) {
                                            violation(cx, "c01-durable-image-unreadable", format!("a durable image of a post-recovery run could not be opened/walked: {e}"), desc.clone());
                                        }
                                    }
                                }
                                cx.lost = saved_lost;
                            }
                        }
                        Err(why) => {
                            let key = if cx.lost.iter().any(|d| *d == o.digest) {
                                "c01-resurrected-rolled-back-commit"
                            } else if why.starts_with("older") {
                                "c01-older-than-acked"
                            } else if why.starts_with("newer") {
                                "c01-newer-than-requested"
                            } else {
                                "c01-no-commit-point"
                            };
                            let extra = if key == "c01-resurrected-rolled-back-commit" {
                                " -- the contents are those of a commit that an earlier recovery had rolled back"
                            } else {
                                ""
                            };
                            violation(cx, key, format!("recovered contents violate the property: {why}{extra}"), desc);
                        }
                    }
                }
            }
        }
    }
}

/// Exhaustive single-page loss on commit windows: for sync windows that carry a header write and at most
/// `MAX_PAGES` page writes, EVERY image "all of the window persisted except one page write" is opened (the
/// header is on disk, so recovery's Merkle walk alone decides; losing any single page of the new commit must
/// make it fall back). Windows are visited in a seed-dependent order until `budget` images are spent; a
/// window is either covered completely or not at all.
fn single_page_loss_pass(cx: &mut Ctx, r: &mut Rng, run: &Run, budget: usize) {
    const MAX_PAGES: usize = 40;
    if run.ops.len() <= run.ready_pos {
        return;
    }
    let mut windows: Vec<usize> = (run.ready_pos..run.ops.len()).filter(|i| matches!(run.ops[*i], Op::Sync)).collect();
    for i in (1..windows.len()).rev() {
        let j = r.below(i as u64 + 1) as usize;
        windows.swap(i, j);
    }
    let mut left = budget;
    for k in windows {
        let (durable, s) = durable_at(run, k);
        let pending: Vec<Op> = run.ops[s..k].iter().filter(|o| !matches!(o, Op::Close)).cloned().collect();
        let page_idx: Vec<usize> =
            (0..pending.len()).filter(|i| matches!(pending[*i], Op::Write { .. }) && !is_hdr(&pending[*i])).collect();
        if !pending.iter().any(is_hdr) || page_idx.is_empty() || page_idx.len() > MAX_PAGES || page_idx.len() > left {
            continue;
        }
        left -= page_idx.len();
        let lo = run.marks.lo(k);
        let hi = run.marks.hi(k).max(lo);
        for &i in &page_idx {
            let mut fates = vec![Fate::Full; pending.len()];
            fates[i] = Fate::Drop;
            let c = Choice { kind: "one-page-lost", k, fates };
            let image = apply_fates(&durable, &pending, &c.fates);
            cx.out.stats.images += 1;
            *cx.out.stats.images_by_kind.entry(c.kind.to_string()).or_default() += 1;
            let desc = format!("main depth=0 cfg=[{}] {}", run.cfg.describe(), describe_choice(&pending, &c));
            match open_and_dump(&run.cfg, &image, false, false) {
                Err(e) => violation(cx, "c01-open-failed", format!("opening the crash image failed: {e}"), desc),
                Ok((o, _)) => {
                    emit_open_protocol(cx.out, &format!("h{}:1p:open@{}#{}", cx.hist, k, i), &image, &o);
                    if let Err(e) = &o.integrity {
                        violation(cx, "c01-integrity-error", format!("check_integrity after recovery failed: {e}"), desc.clone());
                    }
                    match classify(run, &o.digest, lo, hi) {
                        Ok(cp) => {
                            if cp == lo && hi > lo {
                                cx.out.stats.outcome_old += 1;
                            } else if cp == hi {
                                cx.out.stats.outcome_new += 1;
                            } else {
                                cx.out.stats.outcome_mid += 1;
                            }
                            cx.out.stats.nontrivial.insert(format!("{}|1p|{}|{}", cx.hist, k, i));
                        }
                        Err(why) => {
                            let key = if why.starts_with("older") {
                                "c01-older-than-acked"
                            } else if why.starts_with("newer") {
                                "c01-newer-than-requested"
                            } else {
                                "c01-no-commit-point"
                            };
                            violation(cx, key, format!("recovered contents violate the property: {why}"), desc);
                        }
                    }
                }
            }
        }
    }
}

/// the contents captured by persistent savepoints, as far as the harness knows them for commit point cp
fn saved_for(run: &Run, cp: usize) -> BTreeMap<u64, Content> {
    // savepoint ids are unique within one run, so the captured contents of the ids alive at cp are known
    run.saved_all.iter().filter(|(id, _)| run.cps[cp].sps.contains(id)).map(|(id, c)| (*id, c.clone())).collect()
}

/// crash the recovery run that `image` triggered, recursively up to max_depth
#[allow(clippy::too_many_arguments)]
fn recovery_crash(
    cx: &mut Ctx,
    r: &mut Rng,
    run: &Run,
    image: &[u8],
    rec_ops: &[Op],
    lo: usize,
    hi: usize,
    desc: &str,
    level: usize,
    max_depth: usize,
) {
    let rrun = Run {
        cfg: run.cfg,
        start_image: image.to_vec(),
        ops: rec_ops.to_vec(),
        ready_pos: 0,
        cps: vec![],
        cp_digests: vec![],
        saved_all: BTreeMap::new(),
        marks: Marks::default(),
        steps: vec![],
        error: None,
        markers: BTreeSet::new(),
        segs: vec![],
    };
    let n = rrun.ops.len();
    let mut points: Vec<usize> = (0..n).filter(|i| matches!(rrun.ops[*i], Op::Sync)).collect();
    points.push(n);
    points.dedup();
    for k in points {
        let (durable, s) = durable_at(&rrun, k);
        let pending: Vec<Op> = rrun.ops[s..k].to_vec();
        if pending.is_empty() {
            continue;
        }
        for c in choices_for(r, &durable, &pending, k, if cx.thorough { 8 } else { 4 }, level) {
            if cx.rec_budget == 0 {
                return;
            }
            cx.rec_budget -= 1;
            let img2 = apply_fates(&durable, &pending, &c.fates);
            cx.out.stats.images += 1;
            cx.out.stats.recovery_images += 1;
            *cx.out.stats.images_by_kind.entry(format!("recovery:{}", c.kind)).or_default() += 1;
            let d2 = format!("{desc} >> recovery-crash level={level} {}", describe_choice(&pending, &c));
            let want_ver = cx.out.stats.recover_cases < cx.recover_cap;
            match open_and_dump(&run.cfg, &img2, want_ver, false) {
                Err(e) => violation(cx, "c01-open-failed-after-recovery-crash", format!("opening failed after a crash during recovery: {e}"), d2),
                Ok((o, _)) => {
                    if want_ver {
                        recover_case(cx.out, &run.cfg, &img2, &Ok(&o));
                    }
                    emit_open_protocol(cx.out, &format!("h{}:rec{}:open@{}", cx.hist, level, k), &img2, &o);
                    if let Err(e) = &o.integrity {
                        violation(cx, "c01-integrity-error", format!("check_integrity failed: {e}"), d2.clone());
                    }
                    match classify(run, &o.digest, lo, hi) {
                        Ok(_) => {
                            cx.out.stats.nontrivial.insert(format!("{}|{}", cx.hist, d2));
                            if level < max_depth - 1 && !o.recovery_ops.is_empty() && r.chance(1, 3) {
                                recovery_crash(cx, r, run, &img2, &o.recovery_ops, lo, hi, &d2, level + 1, max_depth);
                            }
                        }
                        Err(why) => {
                            let key = if cx.lost.iter().any(|d| *d == o.digest) {
                                "c01-resurrected-rolled-back-commit"
                            } else {
                                "c01-recovery-crash-wrong-contents"
                            };
                            violation(cx, key, format!("after a crash during recovery: {why}"), d2);
                        }
                    }
                }
            }
        }
    }
}

// ------------------------------------------------------------------------------------------ S2 protocol

/// index of the slot whose roots the opened database serves (the primary when both slots carry them)
fn served_slot(hdr: &[u8], served: &(Option<[u8; 32]>, Option<[u8; 32]>)) -> Option<usize> {
    let r0 = slot_roots(hdr, 0);
    let r1 = slot_roots(hdr, 1);
    let eq = |a: &Option<[u8; 32]>, b: &Option<[u8; 32]>| match (a, b) {
        (None, None) => true,
        (Some(x), Some(y)) => x[..24] == y[..24],
        _ => false,
    };
    let m0 = eq(&served.0, &r0.0) && eq(&served.1, &r0.1);
    let m1 = eq(&served.0, &r1.0) && eq(&served.1, &r1.1);
    match (m0, m1) {
        (true, true) => Some((hdr[GOD] & 1) as usize),
        (true, false) => Some(0),
        (false, true) => Some(1),
        (false, false) => None,
    }
}

/// "open <p> <vq>": which slot of the opened image the real crate serves, and whether the other slot's
/// checksum is valid -- the abstract inputs of the protocol model's recovery run
fn open_seg_kind_served(hdr: &[u8], served: &(Option<[u8; 32]>, Option<[u8; 32]>)) -> String {
    let r0 = slot_roots(hdr, 0);
    let r1 = slot_roots(hdr, 1);
    if r0.0.map(|x| x[..24].to_vec()) == r1.0.map(|x| x[..24].to_vec()) && r0.1.map(|x| x[..24].to_vec()) == r1.1.map(|x| x[..24].to_vec()) {
        // both slots name the same trees (e.g. after a repair commit): the real crate cannot tell which one it
        // serves; the driver resolves the index with the model's slot selection (both commits verify)
        return format!("open * {} {}", slot_valid(hdr, 0) as u8, slot_valid(hdr, 1) as u8);
    }
    match served_slot(hdr, served) {
        Some(p) => format!("open {} {}", p, slot_valid(hdr, 1 - p) as u8),
        None => "open ? 0".to_string(),
    }
}

fn open_seg_kind(hdr: &[u8], db: &Database) -> String {
    match catch(|| db.verif_c01_served()) {
        Ok(Ok(s)) => open_seg_kind_served(hdr, &(s.0, s.1)),
        _ => "open ? 0".to_string(),
    }
}

fn write_proto_ops(out: &mut String, ops: &[Op]) {
    for op in ops {
        match op {
            Op::Write { off: 0, data } if data.len() == HDR => writeln!(out, "O H {}", hex(data)).unwrap(),
            Op::Write { off, data } => writeln!(out, "O W {} {}", off, data.len()).unwrap(),
            Op::SetLen(n) => writeln!(out, "O L {n}").unwrap(),
            Op::Sync => writeln!(out, "O S").unwrap(),
            _ => {}
        }
    }
}

/// the recorded stream of a run as protocol-level segments:
///   P <tag> <header hex of the image the first segment starts from> <its length>
///   G <kind>   O ...   E        per segment; operations outside every segment form "gap" segments
fn emit_protocol(out: &mut Out, tag: &str, run: &Run) {
    let Some(first) = run.segs.first() else { return };
    let start = if first.kind == "create" { first.to } else { first.from };
    let (img, _) = durable_at(run, start);
    if img.len() < HDR {
        return;
    }
    writeln!(out.protocol, "P {tag} {} {}", hex(&img[..HDR]), img.len()).unwrap();
    let mut pos = start;
    for seg in &run.segs {
        if seg.kind == "create" {
            continue;
        }
        if seg.from > pos {
            writeln!(out.protocol, "G gap").unwrap();
            write_proto_ops(&mut out.protocol, &run.ops[pos..seg.from]);
            writeln!(out.protocol, "E").unwrap();
        }
        writeln!(out.protocol, "G {}", seg.kind).unwrap();
        write_proto_ops(&mut out.protocol, &run.ops[seg.from..seg.to]);
        writeln!(out.protocol, "E").unwrap();
        pos = seg.to;
    }
    if run.error.is_none() && run.ops.len() > pos {
        writeln!(out.protocol, "G gap").unwrap();
        write_proto_ops(&mut out.protocol, &run.ops[pos..]);
        writeln!(out.protocol, "E").unwrap();
    }
    out.stats.protocol_segments += run.segs.len() as u64;
}

/// the recovery run of one opened crash image as a one-segment protocol trace
fn emit_open_protocol(out: &mut Out, tag: &str, image: &[u8], o: &Opened) {
    if image.len() < HDR {
        return;
    }
    writeln!(out.protocol, "P {tag} {} {}", hex(&image[..HDR]), image.len()).unwrap();
    writeln!(out.protocol, "G {}", open_seg_kind_served(&image[..HDR], &o.served)).unwrap();
    write_proto_ops(&mut out.protocol, &o.recovery_ops);
    writeln!(out.protocol, "E").unwrap();
    out.stats.protocol_segments += 1;
}

// ------------------------------------------------------------------------------------------ S2 windows

fn page_ranges(hdr: &[u8], pages: &[(u32, u32, u8)]) -> Vec<(u64, u64)> {
    let ps = u32::from_le_bytes(hdr[12..16].try_into().unwrap());
    let rhp = u32::from_le_bytes(hdr[16..20].try_into().unwrap()) as u64;
    let rmp = u32::from_le_bytes(hdr[20..24].try_into().unwrap()) as u64;
    let region_size = (rhp + rmp) * ps as u64;
    let mut v: Vec<(u64, u64)> = pages
        .iter()
        .map(|(r, i, o)| {
            let (a, b) = redb::verif::page_number_address_range(*r, *i, *o, ps as u64, region_size, rhp * ps as u64, ps);
            (a, b - a)
        })
        .collect();
    v.sort();
    v.dedup();
    v
}

fn fmt_ranges(v: &[(u64, u64)]) -> String {
    if v.is_empty() {
        return "-".into();
    }
    v.iter().map(|(a, l)| format!("{a}:{l}")).collect::<Vec<_>>().join(",")
}

/// summary of a durable image for the validator, from the real crate
fn summarize(cfg: &Cfg, image: &[u8], need_rq: bool) -> Result<String, String> {
    let hdr = &image[..HDR];
    let (o, kept) = open_and_dump(cfg, image, false, true)?;
    let (db, handle) = kept.unwrap();
    handle.0.lock().unwrap().record = false;
    let r0 = slot_roots(hdr, 0);
    let r1 = slot_roots(hdr, 1);
    let eq = |a: &Option<[u8; 32]>, b: &Option<[u8; 32]>| match (a, b) {
        (None, None) => true,
        (Some(x), Some(y)) => x[..24] == y[..24],
        _ => false,
    };
    let m0 = eq(&o.served.0, &r0.0) && eq(&o.served.1, &r0.1);
    let m1 = eq(&o.served.0, &r1.0) && eq(&o.served.1, &r1.1);
    let primary = (hdr[GOD] & 1) as usize;
    let ambiguous = m0 && m1;
    let p = match (m0, m1) {
        (true, true) => primary,
        (true, false) => 0,
        (false, true) => 1,
        (false, false) => return Err("served roots equal neither slot".into()),
    };
    let rp_roots = if p == 0 { r0 } else { r1 };
    let (vp, pages) = db.verif_c01_walk(rp_roots.0, rp_roots.1).map_err(|e| format!("{e:?}"))?;
    if !vp {
        return Err("served slot does not verify".into());
    }
    let rp = page_ranges(hdr, &pages);
    let q = 1 - p;
    let vq = slot_valid(hdr, q);
    let rq = if need_rq && vq {
        let rq_roots = if q == 0 { r0 } else { r1 };
        match catch(|| db.verif_c01_walk(rq_roots.0, rq_roots.1)) {
            Ok(Ok((true, pages))) => Some(page_ranges(hdr, &pages)),
            _ => None,
        }
    } else {
        None
    };
    drop(db);
    let vpv = slot_valid(hdr, p);
    // when both slots carry the served roots the real crate cannot tell which one it serves; the
    // validator driver then resolves p with the model's `recover` (both commits verify)
    let vq = if ambiguous { slot_valid(hdr, 0) && slot_valid(hdr, 1) } else { vq };
    let vpv = if ambiguous { slot_valid(hdr, 0) || slot_valid(hdr, 1) } else { vpv };
    Ok(format!(
        "D {} {} {} {} {} P{} Q{} {} {}",
        hex(hdr),
        image.len(),
        if ambiguous { "*".to_string() } else { p.to_string() },
        vq as u8,
        vpv as u8,
        fmt_ranges(&rp),
        match rq {
            Some(v) => format!("={}", fmt_ranges(&v)),
            None => "?".into(),
        },
        hex(&slot_cks_real(hdr, 0)),
        hex(&slot_cks_real(hdr, 1)),
    ))
}

/// cut ops[from..] into sync windows and write them with the summaries of their durable images
fn emit_windows(out: &mut Out, cfg: &Cfg, tag: &str, start_image: &[u8], ops: &[Op], from: usize) -> Result<(), String> {
    let mut img = start_image.to_vec();
    let mut window: Vec<&Op> = vec![];
    let mut durable = img.clone();
    let mut started = false;
    writeln!(out.windows, "T {tag} {}", cfg.page_size).unwrap();
    for (i, op) in ops.iter().enumerate() {
        let in_scope = i >= from;
        if in_scope && !started {
            started = true;
            durable = img.clone();
            window.clear();
        }
        match op {
            Op::Write { off, data } => {
                let o = *off as usize;
                if o + data.len() <= img.len() {
                    img[o..o + data.len()].copy_from_slice(data);
                }
                if in_scope {
                    window.push(op);
                }
            }
            Op::SetLen(n) => {
                img.resize(*n as usize, 0);
                if in_scope {
                    window.push(op);
                }
            }
            Op::Sync => {
                if in_scope {
                    if !window.is_empty() {
                        emit_one(out, cfg, &durable, &window)?;
                    }
                    window.clear();
                    durable = img.clone();
                }
            }
            _ => {}
        }
    }
    if started && !window.is_empty() {
        emit_one(out, cfg, &durable, &window)?;
    }
    Ok(())
}

fn emit_one(out: &mut Out, cfg: &Cfg, durable: &[u8], window: &[&Op]) -> Result<(), String> {
    // W's god byte / slot Q decide whether the validator needs Q's ranges
    let first_hdr = window.iter().find_map(|o| match o {
        Op::Write { off: 0, data } if data.len() == HDR => Some(data.clone()),
        _ => None,
    });
    let need_rq = first_hdr.as_ref().is_some_and(|h| h[GOD] & 4 != 0);
    let d = summarize(cfg, durable, need_rq)?;
    // vnew: the slot that the header writes put where D's non-served slot is has a valid checksum
    let fields: Vec<&str> = d.split(' ').collect();
    // vnew: every slot the header writes carry has a valid checksum or is D's own slot, byte for byte
    let vnew = first_hdr.as_ref().map_or(true, |h| {
        (0..2).all(|k| {
            let b = if k == 0 { SLOT0 } else { SLOT1 };
            slot_valid(h, k) || h[b..b + SLOT_LEN] == durable[b..b + SLOT_LEN]
        })
    });
    let n = fields.len();
    writeln!(out.windows, "{} {} {} {}", fields[..n - 2].join(" "), vnew as u8, fields[n - 2], fields[n - 1]).unwrap();
    for op in window {
        match op {
            Op::Write { off: 0, data } if data.len() == HDR => writeln!(out.windows, "O H {}", hex(data)).unwrap(),
            Op::Write { off, data } => writeln!(out.windows, "O W {} {}", off, data.len()).unwrap(),
            Op::SetLen(n) => writeln!(out.windows, "O L {n}").unwrap(),
            _ => {}
        }
    }
    writeln!(out.windows, "E").unwrap();
    out.stats.windows += 1;
    Ok(())
}

// ------------------------------------------------------------------------------------------ reproducer

/// `c01 repro-resurrect`: minimal reproducer of the candidate finding "a commit that a recovery rolled
/// back is served after a later crash" (default configuration). Exit code 1 when the anomaly shows.
fn repro_resurrect() -> i32 {
    const T: TableDefinition<u64, &[u8]> = TableDefinition::new("t");
    let open = |data: Vec<u8>| -> (Database, RecBackend) {
        let b = RecBackend::with_data(data);
        let h = b.handle();
        (Builder::new().create_with_backend(b).expect("open"), h)
    };
    let show = |db: &Database| -> String {
        let r = db.begin_read().unwrap();
        match r.open_table(T) {
            Ok(t) => t.iter().unwrap().map(|e| { let (k, v) = e.unwrap(); format!("{}={}", k.value(), v.value().len()) }).collect::<Vec<_>>().join(" "),
            Err(e) => format!("<{e:?}>"),
        }
    };
    let put = |db: &Database, k: u64, n: usize| {
        let w = db.begin_write().unwrap();
        w.open_table(T).unwrap().insert(k, vec![k as u8; n].as_slice()).unwrap();
        w.commit().unwrap();
    };
    // 1. create, commit n = {1}, clean close (the close commit is a quick-repair commit: god byte P|2PC)
    let (db, h) = open(vec![]);
    put(&db, 1, 10);
    drop(db);
    // 2. reopen, 1PC commit A = {1,2}; crash: everything of A persisted except the god byte
    let (db, h) = open(h.snapshot());
    let before_a = h.snapshot();
    put(&db, 2, 20);
    let mut img1 = h.snapshot();
    h.0.lock().unwrap().record = false;
    drop(db);
    img1[GOD] = before_a[GOD];
    // 3. reopen: the 2PC-flagged primary is trusted, A is rolled back but stays in the secondary slot
    let (db, h) = open(img1);
    let after_recovery_1 = show(&db);
    let before_b = h.snapshot();
    // 4. 1PC commit B = {1,3}; crash: only the god byte of B's header write persisted
    put(&db, 3, 30);
    let after_b = h.snapshot();
    h.0.lock().unwrap().record = false;
    drop(db);
    let mut img2 = before_b.clone();
    img2[GOD] = after_b[GOD];
    let (db, h) = open(img2);
    let after_recovery_2 = show(&db);
    h.0.lock().unwrap().record = false;
    drop(db);
    println!("after recovery 1: [{after_recovery_1}]   (commit A = [1=10 2=20] was rolled back)");
    println!("after recovery 2: [{after_recovery_2}]   (allowed: [1=10] or [1=10 3=30])");
    if after_recovery_1 == "1=10" && (after_recovery_2 == "1=10" || after_recovery_2 == "1=10 3=30") {
        println!("OK: no anomaly");
        0
    } else {
        println!("ANOMALY: the rolled-back commit A is served after the second crash");
        1
    }
}

// ------------------------------------------------------------------------------------------ main

fn json_str(s: &str) -> String {
    let mut o = String::from("\"");
    for ch in s.chars() {
        match ch {
            '"' => o.push_str("\\\""),
            '\\' => o.push_str("\\\\"),
            '\n' => o.push_str("\\n"),
            c if (c as u32) < 0x20 => write!(o, "\\u{:04x}", c as u32).unwrap(),
            c => o.push(c),
        }
    }
    o.push('"');
    o
}

fn new_out() -> Out {
    Out {
        protocol: String::new(),
        windows: String::new(),
        recover_cases: String::new(),
        recover_impl: String::new(),
        violations: vec![],
        stats: Stats {
            histories: 0,
            images: 0,
            images_by_kind: BTreeMap::new(),
            outcome_old: 0,
            outcome_new: 0,
            outcome_mid: 0,
            recovery_images: 0,
            continuation_images: 0,
            windows: 0,
            protocol_segments: 0,
            recover_cases: 0,
            nontrivial: BTreeSet::new(),
            markers: BTreeMap::new(),
            configs: BTreeMap::new(),
            samples: vec![],
            integrity_false: 0,
            run_errors: vec![],
        },
    }
}

/// everything for one history; deterministic in (seed, h, budget, tier)
fn process_history(seed: u64, h: usize, mut r: Rng, budget: usize, thorough: bool) -> Out {
    let mut out = new_out();
    let page_size = *r.pick(&[512usize, 512, 1024, 2048, 4096]);
    let region_pages = *r.pick(&[16u64, 32, 64]);
    let cache = match r.below(3) {
        0 => 0,
        1 => page_size * r.range(2, 8) as usize,
        _ => 64 << 20,
    };
    let cfg = Cfg { page_size, region_pages, cache };
    *out.stats
        .configs
        .entry(format!(
            "ps={} rp={} cache={}",
            page_size,
            region_pages,
            if cache == 0 { "0" } else if cache < (1 << 20) { "tiny" } else { "large" }
        ))
        .or_default() += 1;
    let n_steps = r.range(8, 16) as usize;
    let final_close = r.chance(1, 2);
    let run = run_history(&mut r, cfg, vec![], None, n_steps, final_close);
    out.stats.histories += 1;
    for m in &run.markers {
        *out.stats.markers.entry(m.to_string()).or_default() += 1;
    }
    // growth / shrink markers from the stream
    let mut last_len = 0u64;
    for (i, op) in run.ops.iter().enumerate() {
        if let Op::SetLen(n) = op {
            if i >= run.ready_pos {
                let m = if *n > last_len { "file-grow" } else { "file-shrink" };
                *out.stats.markers.entry(m.to_string()).or_default() += 1;
            }
            last_len = *n;
        }
    }
    let mut cx = Ctx {
        seed,
        hist: h,
        out: &mut out,
        thorough,
        lost: vec![],
        rec_budget: budget / 2,
        cont_budget: budget,
        directed_conts: 3,
        window_cap: if thorough { 400 } else { 120 },
        recover_cap: if thorough { 400 } else { 120 },
    };
    if let Some(e) = &run.error {
        let steps = run.steps.join(" ; ");
        violation(
            &mut cx,
            "c01-history-failed",
            format!("the real crate failed or disagreed with the specification without any crash: {e}"),
            format!("cfg=[{}] steps=[{steps}]", cfg.describe()),
        );
        cx.out.stats.run_errors.push(e.clone());
    }
    crash_oracle(&mut cx, &mut r, &run, budget, 0, "main");
    let mut r1 = r.fork(0x1b);
    single_page_loss_pass(&mut cx, &mut r1, &run, budget);
    emit_protocol(&mut out, &format!("h{h}"), &run);
    // S2 material: the whole stream after creation, cut into windows
    if let Err(e) = emit_windows(&mut out, &cfg, &format!("h{h}"), &run.start_image, &run.ops, run.ready_pos) {
        out.stats.run_errors.push(format!("history {h}: summarising a durable image failed: {e}"));
        out.violations.push(Violation {
            key: "c01-durable-image-unreadable".into(),
            what: format!("a durable image of the recorded stream could not be opened/walked by the real crate: {e}"),
            replay: format!("seed={seed} history={h} cfg=[{}]", cfg.describe()),
        });
    }
    out
}

fn merge(a: &mut Out, b: Out) {
    a.protocol.push_str(&b.protocol);
    a.windows.push_str(&b.windows);
    a.recover_cases.push_str(&b.recover_cases);
    a.recover_impl.push_str(&b.recover_impl);
    a.violations.extend(b.violations);
    let (s, t) = (&mut a.stats, b.stats);
    s.histories += t.histories;
    s.images += t.images;
    s.outcome_old += t.outcome_old;
    s.outcome_new += t.outcome_new;
    s.outcome_mid += t.outcome_mid;
    s.recovery_images += t.recovery_images;
    s.continuation_images += t.continuation_images;
    s.windows += t.windows;
    s.protocol_segments += t.protocol_segments;
    s.recover_cases += t.recover_cases;
    s.integrity_false += t.integrity_false;
    s.nontrivial.extend(t.nontrivial);
    for (k, v) in t.images_by_kind {
        *s.images_by_kind.entry(k).or_default() += v;
    }
    for (k, v) in t.markers {
        *s.markers.entry(k).or_default() += v;
    }
    for (k, v) in t.configs {
        *s.configs.entry(k).or_default() += v;
    }
    for x in t.samples {
        if s.samples.len() < 8 {
            s.samples.push(x);
        }
    }
    s.run_errors.extend(t.run_errors);
}

fn main() {
    if std::env::var("C01_TRACE").is_err() {
        silence_panics();
    }
    let args: Vec<String> = std::env::args().collect();
    if args.get(1).map(String::as_str) == Some("repro-resurrect") {
        std::process::exit(repro_resurrect());
    }
    let n_hist: usize = args.get(1).map(|s| s.parse().unwrap()).unwrap_or(10);
    let budget: usize = args.get(2).map(|s| s.parse().unwrap()).unwrap_or(60);
    let only: Option<usize> = args.iter().find_map(|a| a.strip_prefix("only=").map(|x| x.parse().unwrap()));
    let threads: usize = args
        .iter()
        .find_map(|a| a.strip_prefix("threads=").map(|x| x.parse().unwrap()))
        .unwrap_or_else(|| std::thread::available_parallelism().map(|n| n.get()).unwrap_or(4).min(12));
    let seed = seed_from_env();
    let thorough = tier_is_thorough();
    let mut master = Rng::new(seed);
    let jobs: Vec<(usize, Rng)> = (0..n_hist).map(|h| (h, master.fork(h as u64))).filter(|(h, _)| only.is_none_or(|o| o == *h)).collect();
    // histories are independent: run them on a pool, merge in history order (deterministic output)
    let next = std::sync::atomic::AtomicUsize::new(0);
    let results: std::sync::Mutex<Vec<Option<Out>>> = std::sync::Mutex::new((0..jobs.len()).map(|_| None).collect());
    std::thread::scope(|sc| {
        for _ in 0..threads.min(jobs.len()).max(1) {
            sc.spawn(|| {
                loop {
                    let i = next.fetch_add(1, std::sync::atomic::Ordering::SeqCst);
                    if i >= jobs.len() {
                        break;
                    }
                    let (h, r) = jobs[i].clone();
                    let o = match catch(|| process_history(seed, h, r, budget, thorough)) {
                        Ok(o) => o,
                        Err(p) => {
                            let mut o = new_out();
                            o.violations.push(Violation {
                                key: "c01-harness-panic".into(),
                                what: format!("the harness (or the real crate outside a guarded call) panicked: {p}"),
                                replay: format!("seed={seed} history={h}"),
                            });
                            o
                        }
                    };
                    results.lock().unwrap()[i] = Some(o);
                }
            });
        }
    });
    let mut out = new_out();
    for o in results.into_inner().unwrap().into_iter().flatten() {
        merge(&mut out, o);
    }
    std::fs::write("windows.txt", &out.windows).unwrap();
    std::fs::write("protocol.txt", &out.protocol).unwrap();
    std::fs::write("recover_cases.txt", &out.recover_cases).unwrap();
    std::fs::write("recover_impl.txt", &out.recover_impl).unwrap();
    let mut v = String::from("[\n");
    for (i, x) in out.violations.iter().enumerate() {
        write!(v, "{}{{\"key\":{},\"what\":{},\"replay\":{}}}", if i > 0 { ",\n" } else { "" }, json_str(&x.key), json_str(&x.what), json_str(&x.replay)).unwrap();
    }
    v.push_str("\n]\n");
    std::fs::write("violations.json", v).unwrap();
    let s = &out.stats;
    let mut j = String::from("{");
    write!(j, "\"histories\":{},\"images\":{},\"recovery_images\":{},\"continuation_images\":{},\"windows\":{},\"protocol_segments\":{},\"recover_cases\":{},", s.histories, s.images, s.recovery_images, s.continuation_images, s.windows, s.protocol_segments, s.recover_cases).unwrap();
    write!(j, "\"outcome_old\":{},\"outcome_new\":{},\"outcome_mid\":{},\"integrity_false\":{},\"distinct_nontrivial\":{},", s.outcome_old, s.outcome_new, s.outcome_mid, s.integrity_false, s.nontrivial.len()).unwrap();
    let map = |m: &BTreeMap<String, u64>| format!("{{{}}}", m.iter().map(|(k, v)| format!("{}:{}", json_str(k), v)).collect::<Vec<_>>().join(","));
    write!(j, "\"images_by_kind\":{},\"markers\":{},\"configs\":{},", map(&s.images_by_kind), map(&s.markers), map(&s.configs)).unwrap();
    write!(j, "\"samples\":[{}],", s.samples.iter().map(|x| json_str(x)).collect::<Vec<_>>().join(",")).unwrap();
    write!(j, "\"run_errors\":[{}]", s.run_errors.iter().map(|x| json_str(x)).collect::<Vec<_>>().join(",")).unwrap();
    j.push('}');
    std::fs::write("stats.json", j).unwrap();
    println!(
        "histories={} images={} windows={} recover_cases={} violations={} distinct_nontrivial={}",
        s.histories,
        s.images,
        s.windows,
        s.recover_cases,
        out.violations.len(),
        s.nontrivial.len()
    );
}
