//! C16 -- One write transaction may be used from many threads.
//!
//! 2-4 logical threads share ONE WriteTransaction. Each works on its own tables (normal and multimap):
//! open, insert/remove streams, close; another thread calls ephemeral_savepoint() and drops Savepoints.
//! The scheduler (rv_harness::conc) forces the interleaving at the H4 pause points inside open_table's
//! set_dirty and inside ephemeral_savepoint / Savepoint::drop. A grant that needs the transaction's
//! `tables` mutex is only given when `verif_tables_locked()` says it is free (the step model's guard), so
//! nothing ever blocks on an OS mutex and the run is a function of the seed.
//! Afterwards the transaction is committed (durable / non-durable) or aborted and the oracle checks:
//! per-table contents = that table's own stream, no page in two tables (H3 reach), tracking never off
//! while a savepoint is valid (H3 snapshot), every savepoint taken is restorable to exactly the state it
//! captured, page accounting (allocated = reachable + pending-free) and check_integrity.
//!
//!
//! History dimension (kinds cgapr-*, hist-*): whole transactions run before the shared one (tables 1..9, never
//! touched by the threads; durable and non-durable), the older savepoint (handle 900) is taken before any of
//! them, and read transactions are begun after chosen ones and stay live across the shared transaction's commit.
//! Right after the commit (readers and savepoints still live) the page accounting is evaluated (allocated =
//! reachable + pending-free, DATA_ALLOCATED names allocated pages only) and every reader must still see its snapshot.
//! Persistent savepoints (kinds psp-*, savepoint handles 500..899 = persistent_savepoint() calls): several threads
//! call persistent_savepoint() on the shared transaction; after the commit the ids must be distinct, and after a
//! reopen a new persistent savepoint must get an id nobody holds, and every listed savepoint must restore the state
//! it captured.
//!
//! output: cases.txt (log for the Coq model Conc/Shared.v), impl.txt (what the implementation did), oracle.txt

use redb::{Builder, Database, Durability, MultimapTable, MultimapTableDefinition, ReadableDatabase, ReadableMultimapTable,
           ReadableTable, ReadableTableMetadata, Savepoint, Table, TableDefinition, WriteTransaction};
use rv_harness::conc::{ConcBackend, Controller, Event, MemFile};
use rv_harness::{seed_from_env, tier_is_thorough, Rng};
use std::cell::RefCell;
use std::collections::{BTreeMap, BTreeSet};
use std::io::Write as _;
use std::sync::{Arc, Mutex};

/// while the commit runs on a worker: the sections of durable_commit and its epilogue
pub const COMMIT_ALPHABET: &[&str] = &[
    "T.oldest_live_read", "X.durable_commit.horizon", "T.oldest_savepoint", "M.commit.begin", "U.clear", "M.commit.publish",
    "T.clear_pending_nd", "T.invalidate_savepoints", "X.epilogue.horizon", "U.extend", "M.nd.publish", "T.reserve_id", "T.register_nd",
    "T.end_write", "T.dealloc_savepoint", "T.dealloc_read",
];

pub const ALPHABET: &[&str] = &[
    "X.set_dirty", "X.set_dirty.stored", "T.any_savepoint", "X.esp", "X.esp.locked", "T.register_read", "T.alloc_savepoint",
    "X.esp.unlocked", "M.get_data_root", "M.get_version", "T.dealloc_savepoint", "T.dealloc_read",
    // persistent_savepoint: before / inside its system_tables section
    "X.psp.system", "X.psp.system.locked",
];

/// contention families (kinds ctn-*): the points before and inside the freed_pages sections of the table operations and
/// inside the tables / system_tables sections of the non-dirtying holders, in addition to ALPHABET
pub const CTN_EXTRA: &[&str] = &[
    "F.merge", "F.get_mut", "F.get_mut.locked", "F.mmvalue_drop", "F.mmvalue_drop.locked", "F.mmremove", "F.mmremove.locked",
    "F.drain", "F.drain.locked", "F.delete_table", "F.delete_table.locked", "X.list_tables.locked", "X.stats.tables", "X.stats.system",
    "X.inner_open", "X.sysread.locked",
];
/// kinds ctn-read-*: additionally every backend read (cache size 0: every page access)
pub const READ_POINT: &str = "CB.read.checked";

fn alphabet_of(sc: &Scenario) -> Vec<&'static str> {
    let mut v: Vec<&'static str> = ALPHABET.to_vec();
    if sc.contend {
        v.extend_from_slice(CTN_EXTRA);
    }
    if sc.park_reads {
        v.push(READ_POINT);
    }
    v
}

fn tname(tb: u64) -> String {
    format!("t{tb}")
}

thread_local! {
    // table handles live on the worker thread that opened them (a handle borrows the shared transaction)
    static TABLES: RefCell<BTreeMap<u64, Table<'static, u64, u64>>> = const { RefCell::new(BTreeMap::new()) };
    static MTABLES: RefCell<BTreeMap<u64, MultimapTable<'static, u64, u64>>> = const { RefCell::new(BTreeMap::new()) };
}

#[derive(Clone, Copy, Debug, PartialEq, Eq)]
enum OpKind {
    Insert,
    Remove,
    PopFirst,
    PopLast,
    /// retain(|k, _| !(a <= k < b))
    RetainOut,
    /// get_mut(a), then AccessGuardMut::insert(b) if the key is there
    GetMut,
    /// entry(a).and_modify(|g| g.insert(b))
    EntryModify,
    /// entry(a).or_insert(b)
    EntryOrInsert,
    /// extract_if(|k, _| a <= k < b), every entry read
    ExtractRange,
    MmInsert,
    MmRemove,
    MmRemoveAll,
}

impl OpKind {
    const ALL: [OpKind; 12] = [OpKind::Insert, OpKind::Remove, OpKind::PopFirst, OpKind::PopLast, OpKind::RetainOut, OpKind::GetMut,
                               OpKind::EntryModify, OpKind::EntryOrInsert, OpKind::ExtractRange, OpKind::MmInsert, OpKind::MmRemove, OpKind::MmRemoveAll];
    fn code(self) -> usize {
        OpKind::ALL.iter().position(|k| *k == self).unwrap()
    }
    fn is_mm(self) -> bool {
        matches!(self, OpKind::MmInsert | OpKind::MmRemove | OpKind::MmRemoveAll)
    }
    fn name(self) -> &'static str {
        ["insert", "remove", "pop_first", "pop_last", "retain", "get_mut", "entry.and_modify", "entry.or_insert", "extract_if", "multimap insert", "multimap remove", "multimap remove_all"][self.code()]
    }
}

/// calls that take the `tables` (and / or `system_tables`) mutex of the transaction WITHOUT making it dirty
#[derive(Clone, Copy, Debug, PartialEq, Eq)]
enum HoldKind {
    ListTables,
    ListMultimap,
    Stats,
    /// open_table with the wrong type (TableTypeMismatch / TableIsMultimap): fails under the tables mutex
    FailOpen,
    /// list_persistent_savepoints(): the system_tables mutex only
    ListPsp,
}

impl HoldKind {
    const ALL: [HoldKind; 5] = [HoldKind::ListTables, HoldKind::ListMultimap, HoldKind::Stats, HoldKind::FailOpen, HoldKind::ListPsp];
    fn code(self) -> usize {
        HoldKind::ALL.iter().position(|k| *k == self).unwrap() + 1
    }
    fn name(self) -> &'static str {
        ["list_tables", "list_multimap_tables", "stats", "open_table of the wrong type", "list_persistent_savepoints"][self.code() - 1]
    }
}

#[derive(Clone, Debug, PartialEq, Eq)]
enum Call {
    Open(u64),
    Put(u64, u64, u64),
    Del(u64, u64),
    Close(u64),
    Savepoint(u64),
    DropSavepoint(u64),
    /// a table operation of the contention families: (kind, table, a, b)
    Op(OpKind, u64, u64, u64),
    Hold(HoldKind, u64),
    /// delete_table / delete_multimap_table of a table nobody has open
    Delete(u64),
}

/// tables with id >= 100 are multimap tables
fn is_mm(tb: u64) -> bool {
    tb >= 100
}

/// savepoint handles 500..899 are created with persistent_savepoint() (the model sees the ephemeral_savepoint()
/// it starts with: the suffix that persists the record has no pause point of the alphabet)
fn is_persistent(h: u64) -> bool {
    (500..900).contains(&h)
}

impl Call {
    fn text(&self) -> String {
        match self {
            Call::Open(t) => format!("O{t}"),
            Call::Put(t, k, v) => format!("P{t}.{k}.{v}"),
            Call::Del(t, k) => format!("D{t}.{k}"),
            Call::Close(t) => format!("C{t}"),
            Call::Savepoint(h) => format!("S{h}"),
            Call::DropSavepoint(h) => format!("R{h}"),
            Call::Op(k, t, a, b) => format!("M{}.{t}.{a}.{b}", k.code()),
            Call::Hold(k, t) => format!("H{}.{t}", k.code()),
            Call::Delete(t) => format!("L{t}"),
        }
    }
    fn needs_mutex_at_entry(&self) -> bool {
        matches!(self, Call::Open(_) | Call::Close(_) | Call::Delete(_)) || matches!(self, Call::Hold(k, _) if *k != HoldKind::ListPsp)
    }
    fn describe(&self) -> String {
        match self {
            Call::Op(k, t, a, b) => format!("{}({a}, {b}) on table {t}", k.name()),
            Call::Hold(k, _) => format!("{}()", k.name()),
            Call::Delete(t) => format!("delete_table({t})"),
            Call::Savepoint(h) if is_persistent(*h) => "persistent_savepoint()".into(),
            Call::Savepoint(_) => "ephemeral_savepoint()".into(),
            c => c.text(),
        }
    }
}

struct Shared {
    /// the one write transaction, leaked for the duration of the threads' phase so that handles can borrow it
    tx: *const WriteTransaction,
    savepoints: Mutex<BTreeMap<u64, Savepoint>>,
    /// handle -> id returned by persistent_savepoint()
    persistent: Mutex<BTreeMap<u64, u64>>,
}
unsafe impl Send for Shared {}
unsafe impl Sync for Shared {}

impl Shared {
    fn tx(&self) -> &'static WriteTransaction {
        unsafe { &*self.tx }
    }
}

fn job(sh: Arc<Shared>, call: Call) -> Box<dyn FnOnce() -> String + Send> {
    Box::new(move || match call {
        Call::Open(tb) => {
            if is_mm(tb) {
                let def: MultimapTableDefinition<u64, u64> = MultimapTableDefinition::new(Box::leak(tname(tb).into_boxed_str()));
                match sh.tx().open_multimap_table(def) {
                    Ok(t) => {
                        MTABLES.with(|m| m.borrow_mut().insert(tb, t));
                        "ok".into()
                    }
                    Err(e) => format!("ERR({e})"),
                }
            } else {
                let def: TableDefinition<u64, u64> = TableDefinition::new(Box::leak(tname(tb).into_boxed_str()));
                match sh.tx().open_table(def) {
                    Ok(t) => {
                        TABLES.with(|m| m.borrow_mut().insert(tb, t));
                        "ok".into()
                    }
                    Err(e) => format!("ERR({e})"),
                }
            }
        }
        Call::Put(tb, k, v) => {
            if is_mm(tb) {
                MTABLES.with(|m| match m.borrow_mut().get_mut(&tb) {
                    Some(t) => t.insert(k, v).map(|_| "ok".to_string()).unwrap_or_else(|e| format!("ERR({e})")),
                    None => "ERR(not open)".into(),
                })
            } else {
                TABLES.with(|m| match m.borrow_mut().get_mut(&tb) {
                    Some(t) => t.insert(k, v).map(|_| "ok".to_string()).unwrap_or_else(|e| format!("ERR({e})")),
                    None => "ERR(not open)".into(),
                })
            }
        }
        Call::Del(tb, k) => {
            if is_mm(tb) {
                MTABLES.with(|m| match m.borrow_mut().get_mut(&tb) {
                    Some(t) => t.remove_all(k).map(|_| "ok".to_string()).unwrap_or_else(|e| format!("ERR({e})")),
                    None => "ERR(not open)".into(),
                })
            } else {
                TABLES.with(|m| match m.borrow_mut().get_mut(&tb) {
                    Some(t) => t.remove(k).map(|_| "ok".to_string()).unwrap_or_else(|e| format!("ERR({e})")),
                    None => "ERR(not open)".into(),
                })
            }
        }
        Call::Close(tb) => {
            let a = TABLES.with(|m| m.borrow_mut().remove(&tb)).is_some();
            let b = MTABLES.with(|m| m.borrow_mut().remove(&tb)).is_some();
            if a || b { "ok".into() } else { "ERR(not open)".into() }
        }
        Call::Savepoint(h) if is_persistent(h) => match sh.tx().persistent_savepoint() {
            Ok(id) => {
                sh.persistent.lock().unwrap().insert(h, id);
                "ok".into()
            }
            Err(redb::SavepointError::InvalidSavepoint) => "dirty".into(),
            Err(e) => format!("ERR({e})"),
        },
        Call::Savepoint(h) => match sh.tx().ephemeral_savepoint() {
            Ok(sp) => {
                sh.savepoints.lock().unwrap().insert(h, sp);
                "ok".into()
            }
            Err(redb::SavepointError::InvalidSavepoint) => "dirty".into(),
            Err(e) => format!("ERR({e})"),
        },
        Call::DropSavepoint(h) => {
            let sp = sh.savepoints.lock().unwrap().remove(&h);
            match sp {
                Some(sp) => {
                    drop(sp);
                    "ok".into()
                }
                None => "ERR(no savepoint)".into(),
            }
        }
        Call::Op(kind, tb, a, b) if kind.is_mm() => MTABLES.with(|m| match m.borrow_mut().get_mut(&tb) {
            Some(t) => {
                let r: Result<(), redb::StorageError> = match kind {
                    OpKind::MmInsert => t.insert(a, b).map(|_| ()),
                    OpKind::MmRemove => t.remove(a, b).map(|_| ()),
                    _ => t.remove_all(a).map(|v| drop(v)),
                };
                r.map(|()| "ok".to_string()).unwrap_or_else(|e| format!("ERR({e})"))
            }
            None => "ERR(not open)".into(),
        }),
        Call::Op(kind, tb, a, b) => TABLES.with(|m| match m.borrow_mut().get_mut(&tb) {
            Some(t) => {
                let r: Result<(), redb::StorageError> = (|| {
                    match kind {
                        OpKind::Insert => drop(t.insert(a, b)?),
                        OpKind::Remove => drop(t.remove(a)?),
                        OpKind::PopFirst => drop(t.pop_first()?),
                        OpKind::PopLast => drop(t.pop_last()?),
                        OpKind::RetainOut => t.retain(|k, _| !(a <= k && k < b))?,
                        OpKind::GetMut => {
                            if let Some(mut g) = t.get_mut(a)? {
                                g.insert(b)?;
                            }
                        }
                        OpKind::EntryModify => drop(t.entry(a)?.and_modify(|g| g.insert(b))?),
                        OpKind::EntryOrInsert => drop(t.entry(a)?.or_insert(b)?),
                        _ => {
                            let mut it = t.extract_if(|k, _| a <= k && k < b)?;
                            for e in it.by_ref() {
                                e?;
                            }
                            it.close()?;
                        }
                    }
                    Ok(())
                })();
                r.map(|()| "ok".to_string()).unwrap_or_else(|e| format!("ERR({e})"))
            }
            None => "ERR(not open)".into(),
        }),
        Call::Hold(kind, tb) => match kind {
            HoldKind::ListTables => sh.tx().list_tables().map(|it| { let _ = it.count(); "ok".to_string() }).unwrap_or_else(|e| format!("ERR({e})")),
            HoldKind::ListMultimap => sh.tx().list_multimap_tables().map(|it| { let _ = it.count(); "ok".to_string() }).unwrap_or_else(|e| format!("ERR({e})")),
            HoldKind::Stats => sh.tx().stats().map(|_| "ok".to_string()).unwrap_or_else(|e| format!("ERR({e})")),
            HoldKind::ListPsp => sh.tx().list_persistent_savepoints().map(|it| { let _ = it.count(); "ok".to_string() }).unwrap_or_else(|e| format!("ERR({e})")),
            HoldKind::FailOpen => {
                // the table exists with the other kind: the open must fail, inside the tables section, without dirtying
                let name: &'static str = Box::leak(tname(tb).into_boxed_str());
                let failed = if is_mm(tb) {
                    sh.tx().open_table(TableDefinition::<u64, u64>::new(name)).is_err()
                } else {
                    sh.tx().open_multimap_table(MultimapTableDefinition::<u64, u64>::new(name)).is_err()
                };
                if failed { "ok".into() } else { "ERR(an open_table of the wrong type succeeded)".into() }
            }
        },
        Call::Delete(tb) => {
            let name: &'static str = Box::leak(tname(tb).into_boxed_str());
            let r = if is_mm(tb) {
                sh.tx().delete_multimap_table(MultimapTableDefinition::<u64, u64>::new(name))
            } else {
                sh.tx().delete_table(TableDefinition::<u64, u64>::new(name))
            };
            match r {
                Ok(true) => "ok".into(),
                Ok(false) => "ERR(no such table)".into(),
                Err(e) => format!("ERR({e})"),
            }
        }
    })
}

type Spec = BTreeMap<u64, BTreeMap<u64, u64>>;
type MSpec = BTreeMap<u64, BTreeMap<u64, BTreeSet<u64>>>;

/// one whole transaction of the history before the shared one (main thread): puts / deletes on tables 1..9
#[derive(Clone, Default)]
struct PTx {
    ops: Vec<(u64, u64, Option<u64>)>,
    nondurable: bool,
}

#[derive(Clone, Default)]
struct Scenario {
    id: usize,
    kind: String,
    nthreads: usize,
    progs: Vec<Vec<Call>>,
    /// savepoint (handle 900) taken by an earlier transaction and still valid
    pre_savepoint: bool,
    end: u8, // 0 durable commit, 1 non-durable commit, 2 abort
    cache: usize,
    sched_seed: u64,
    /// directed window: stop thread `a` after `k` grants, then let thread `b` run one call, then random
    window: Option<(usize, usize, usize)>,
    /// run the durable commit on a worker, stop it after this many grants and drop a savepoint there
    commit_gap: Option<usize>,
    /// whole transactions before the shared one
    prelude: Vec<PTx>,
    /// the older savepoint (handle 900) is taken before prelude[pre_at] (>= prelude.len(): right before the shared transaction)
    pre_at: usize,
    /// read transactions begun after this many prelude transactions, live until after the shared transaction ended
    readers: Vec<usize>,
    /// thread `a` gets `k` grants and then nothing until every other thread has finished its program
    park: Option<(usize, usize)>,
    /// inside the commit gap: the dropping thread gets `d` grants (entering the call included), then the committer `k`
    /// more, then the drop is finished (None: the whole drop runs at once)
    drop_split: Option<(usize, usize)>,
    /// contention families: the pause points before / inside the freed_pages sections and inside the tables / system_tables
    /// sections of the non-dirtying holders are stop points too, and a grant is also given to a thread whose next step
    /// needs a mutex that a stopped thread holds (the thread must then BLOCK until the holder has left the section)
    contend: bool,
    /// additionally every backend read is a stop point (cache size 0: every page access)
    park_reads: bool,
    /// every table the programs name exists before the shared transaction, with this many rows (the catalog is then
    /// changed by delete_table and by the commit's flush only: page counts do not depend on the schedule)
    all_exist: Option<u64>,
    /// the parked thread's grants are counted from the entry of this call of its program (it runs alone up to there)
    park_call: usize,
}

fn open_db(file: &Arc<MemFile>, cache: usize) -> Database {
    let mut b = Builder::new();
    b.verif_set_page_size(512);
    b.set_cache_size(cache);
    b.create_with_backend(ConcBackend { file: file.clone(), ctl: None }).expect("create")
}

fn read_all(db: &Database, tables: &BTreeSet<u64>) -> Result<(Spec, MSpec), String> {
    let rt = db.begin_read().map_err(|e| format!("begin_read: {e}"))?;
    read_all_rt(&rt, tables)
}

fn read_all_rt(rt: &redb::ReadTransaction, tables: &BTreeSet<u64>) -> Result<(Spec, MSpec), String> {
    let (mut s, mut m) = (Spec::new(), MSpec::new());
    for tb in tables {
        if is_mm(*tb) {
            let def: MultimapTableDefinition<u64, u64> = MultimapTableDefinition::new(Box::leak(tname(*tb).into_boxed_str()));
            match rt.open_multimap_table(def) {
                Ok(t) => {
                    let mut mm = BTreeMap::new();
                    for e in t.iter().map_err(|e| format!("{e}"))? {
                        let (k, vals) = e.map_err(|e| format!("{e}"))?;
                        let mut set = BTreeSet::new();
                        for v in vals {
                            set.insert(v.map_err(|e| format!("{e}"))?.value());
                        }
                        mm.insert(k.value(), set);
                    }
                    m.insert(*tb, mm);
                }
                Err(redb::TableError::TableDoesNotExist(_)) => {}
                Err(e) => return Err(format!("open {tb}: {e}")),
            }
        } else {
            let def: TableDefinition<u64, u64> = TableDefinition::new(Box::leak(tname(*tb).into_boxed_str()));
            match rt.open_table(def) {
                Ok(t) => {
                    let mut mp = BTreeMap::new();
                    for e in t.iter().map_err(|e| format!("{e}"))? {
                        let (k, v) = e.map_err(|e| format!("{e}"))?;
                        mp.insert(k.value(), v.value());
                    }
                    if t.len().map_err(|e| format!("{e}"))? != mp.len() as u64 {
                        return Err(format!("len of table {tb} disagrees with its scan"));
                    }
                    s.insert(*tb, mp);
                }
                Err(redb::TableError::TableDoesNotExist(_)) => {}
                Err(e) => return Err(format!("open {tb}: {e}")),
            }
        }
    }
    Ok((s, m))
}

/// C06's ownership equation (design.d/HOOKS.md): with no live write transaction every allocated order-0 page is
/// owned exactly once by: the latest roots' trees, the pending-free records, the in-memory freed records
fn accounting(db: &Database) -> Result<(), String> {
    let snap = db.verif_snapshot();
    let latest = snap.mem.latest().clone();
    let reach = db.verif_reach(latest.data_root, latest.system_root).map_err(|e| format!("reach: {e}"))?;
    let mut owned: BTreeMap<(u32, u32), &'static str> = BTreeMap::new();
    let mut add = |p: &redb::verif::VPage, who: &'static str| -> Result<(), String> {
        for i in p.order0_range() {
            if let Some(prev) = owned.insert((p.region, i), who) {
                return Err(format!("page {}/{i} is owned twice: {prev} and {who}", p.region));
            }
        }
        Ok(())
    };
    for p in &reach.data_pages {
        add(p, "data tree")?;
    }
    for p in &reach.system_pages {
        add(p, "system tree")?;
    }
    for l in reach.data_freed.iter().chain(reach.system_freed.iter()) {
        for p in &l.pages {
            add(p, "pending-free record")?;
        }
    }
    for (_, pages) in &snap.mem.unpersisted.data_freed {
        for p in pages {
            add(p, "in-memory freed record")?;
        }
    }
    let alloc: BTreeSet<(u32, u32)> = snap.mem.allocated_order0().into_iter().collect();
    for l in &reach.data_allocated {
        for p in &l.pages {
            for i in p.order0_range() {
                if !alloc.contains(&(p.region, i)) {
                    return Err(format!("DATA_ALLOCATED record of transaction {} names page {}/{i}, which is not allocated", l.transaction_id, p.region));
                }
            }
        }
    }
    let owned_set: BTreeSet<(u32, u32)> = owned.keys().copied().collect();
    let leaked: Vec<_> = alloc.difference(&owned_set).take(5).collect();
    let dangling: Vec<_> = owned_set.difference(&alloc).take(5).collect();
    if !leaked.is_empty() {
        return Err(format!("{} allocated pages have no owner (leak), e.g. {leaked:?}", alloc.difference(&owned_set).count()));
    }
    if !dangling.is_empty() {
        return Err(format!("owned pages are not allocated, e.g. {dangling:?}"));
    }
    Ok(())
}

/// what the history before the shared transaction left behind
#[derive(Default)]
struct Hist {
    /// tables 1..9 as of now / as of the older savepoint (handle 900)
    pspec: Spec,
    pspec_at_pre: Spec,
    tables: BTreeSet<u64>,
    file: Option<Arc<MemFile>>,
    /// (begun after this many prelude transactions, the reader, tables 1..9 as it must see them)
    readers: Vec<(usize, redb::ReadTransaction, Spec)>,
}

struct Outcome {
    log: Vec<String>,
    results: Vec<String>,
    tracking: String,
    dirty: bool,
    violations: Vec<(String, String)>,
    interleaved: bool,
    digests: Vec<String>,
    /// commit-gap scenarios: the committer's initial state + the grant log (input of the CommitGap model), and what the
    /// implementation's tracker and the two system tables look like right after the commit
    cg_case: Option<String>,
    cg_impl: Option<String>,
    /// length of the transaction's freed-pages list when the threads' phase is over (contention families: the model's s_freed)
    freed_len: Option<usize>,
    /// grants after which the thread blocked on a mutex a stopped thread held
    blocked_grants: usize,
}

/// an order-0 page unit as one number (the CommitGap model's page ids)
fn unit(region: u32, i: u32) -> u64 {
    (u64::from(region) << 32) | u64::from(i)
}

fn units(pages: &[redb::verif::VPage]) -> Vec<u64> {
    let mut v = vec![];
    for p in pages {
        for i in p.order0_range() {
            v.push(unit(p.region, i));
        }
    }
    v
}

fn join_u(v: &[u64]) -> String {
    v.iter().map(|x| x.to_string()).collect::<Vec<_>>().join(".")
}

fn table_text(t: &BTreeMap<u64, Vec<u64>>) -> String {
    t.iter().map(|(k, v)| format!("{k}:{}", join_u(v))).collect::<Vec<_>>().join(";")
}

fn tracker_text(t: &redb::verif::VTracker) -> String {
    format!(
        "live={}|valid={}|pending={}",
        t.live_read_transactions.iter().map(|(a, b)| format!("{a}:{b}")).collect::<Vec<_>>().join(","),
        t.valid_savepoints.iter().map(|(a, b)| format!("{a}:{b}")).collect::<Vec<_>>().join(","),
        t.pending_non_durable_commits.iter().map(|(a, b)| format!("{a}:{b}")).collect::<Vec<_>>().join(",")
    )
}

/// DATA_FREED / DATA_ALLOCATED as the committed roots + the in-memory records of non-durable commits have them
fn system_tables_of(reach: &redb::verif::VReach, mem: &redb::verif::VMem) -> (BTreeMap<u64, Vec<u64>>, BTreeMap<u64, Vec<u64>>) {
    let (mut freed, mut alloc): (BTreeMap<u64, Vec<u64>>, BTreeMap<u64, Vec<u64>>) = (BTreeMap::new(), BTreeMap::new());
    for l in &reach.data_freed {
        freed.entry(l.transaction_id).or_default().extend(units(&l.pages));
    }
    for (t, pages) in &mem.unpersisted.data_freed {
        if !pages.is_empty() {
            freed.entry(*t).or_default().extend(units(pages));
        }
    }
    for l in &reach.data_allocated {
        alloc.entry(l.transaction_id).or_default().extend(units(&l.pages));
    }
    for (t, pages) in &mem.unpersisted.allocations {
        if !pages.is_empty() {
            alloc.entry(*t).or_default().extend(units(pages));
        }
    }
    (freed, alloc)
}

/// the state the committer of the shared transaction starts from (input of the model Conc/CommitGap.v)
fn cg_initial_state(tx: &WriteTransaction) -> Result<String, String> {
    let snap = tx.verif_snapshot();
    let latest = snap.db.mem.latest().clone();
    let reach = rv_harness::catch(|| tx.verif_reach(latest.data_root, latest.system_root)).map_err(|p| format!("reach panicked: {p}"))?.map_err(|e| format!("reach: {e}"))?;
    let (freed, alloc) = system_tables_of(&reach, &snap.db.mem);
    let allocated: Vec<u64> = snap.db.mem.allocated_order0().into_iter().map(|(r, i)| unit(r, i)).collect();
    let own_alloc = if format!("{:?}", snap.page_tracker.state) == "Track" { units(&snap.page_tracker.pages) } else { vec![] };
    Ok(format!(
        "txid={}|last={}|{}|freed={}|alloc={}|allocated={}|ownfreed={}|ownalloc={}",
        snap.transaction_id,
        latest.transaction_id,
        tracker_text(&snap.db.tracker),
        table_text(&freed),
        table_text(&alloc),
        join_u(&allocated),
        join_u(&units(&snap.data_freed_pages)),
        join_u(&own_alloc)
    ))
}

/// what is observable right after the commit: published id, tracker, keys of the two system tables
fn cg_final_state(db: &Database) -> Result<String, String> {
    let snap = db.verif_snapshot();
    let latest = snap.mem.latest().clone();
    let reach = rv_harness::catch(|| db.verif_reach(latest.data_root, latest.system_root)).map_err(|p| format!("reach panicked: {p}"))?.map_err(|e| format!("reach: {e}"))?;
    let (freed, alloc) = system_tables_of(&reach, &snap.mem);
    Ok(format!(
        "last={}|{}|freed={}|alloc={}",
        latest.transaction_id,
        tracker_text(&snap.tracker),
        freed.keys().map(|k| k.to_string()).collect::<Vec<_>>().join(","),
        alloc.keys().map(|k| k.to_string()).collect::<Vec<_>>().join(",")
    ))
}

/// every table a program names (opened, deleted, opened with the wrong type)
fn tables_of(sc: &Scenario) -> BTreeSet<u64> {
    sc.progs.iter().flatten().filter_map(|c| match c {
        Call::Open(t) | Call::Delete(t) | Call::Hold(HoldKind::FailOpen, t) => Some(*t),
        _ => None,
    }).collect()
}

struct Setup {
    file: Arc<MemFile>,
    db: Database,
    all_tables: BTreeSet<u64>,
    spec: Spec,
    mspec: MSpec,
    pre_sp: Option<Savepoint>,
    hist: Hist,
}

/// the database before the shared transaction: seeded tables, then the history (a function of the scenario only: the
/// reference run of the contention families builds the identical image a second time)
fn setup(sc: &Scenario) -> Setup {
    let file = MemFile::new();
    let db = open_db(&file, sc.cache);
    let all_tables = tables_of(sc);
    // seed: every second table exists already with some rows (contention families: every table, with more rows)
    let mut spec = Spec::new();
    let mut mspec = MSpec::new();
    {
        let tx = db.begin_write().unwrap();
        for tb in &all_tables {
            if tb % 2 == 0 || sc.all_exist.is_some() {
                let rows = sc.all_exist.map(|n| n + 37 * (tb % 5)).unwrap_or(40);
                if is_mm(*tb) {
                    let def: MultimapTableDefinition<u64, u64> = MultimapTableDefinition::new(Box::leak(tname(*tb).into_boxed_str()));
                    let mut t = tx.open_multimap_table(def).unwrap();
                    for k in 0..6 {
                        t.insert(k, k + 1).unwrap();
                        mspec.entry(*tb).or_default().entry(k).or_default().insert(k + 1);
                    }
                    if sc.all_exist.is_some() {
                        // keys 0 and 3 hold enough values to live in their own subtrees
                        for k in [0u64, 3] {
                            for v in 0..rows / 2 {
                                t.insert(k, 100 + v).unwrap();
                                mspec.entry(*tb).or_default().entry(k).or_default().insert(100 + v);
                            }
                        }
                    }
                } else {
                    let def: TableDefinition<u64, u64> = TableDefinition::new(Box::leak(tname(*tb).into_boxed_str()));
                    let mut t = tx.open_table(def).unwrap();
                    for k in 0..rows {
                        t.insert(k, 1000 + k).unwrap();
                        spec.entry(*tb).or_default().insert(k, 1000 + k);
                    }
                }
            }
        }
        tx.commit().unwrap();
    }
    // ---------------- the history before the shared transaction (main thread)
    let mut pre_sp: Option<Savepoint> = None;
    let mut hist = Hist { file: Some(file.clone()), ..Default::default() };
    for i in 0..=sc.prelude.len() {
        if sc.readers.contains(&i) {
            hist.readers.push((i, db.begin_read().unwrap(), hist.pspec.clone()));
        }
        if sc.pre_savepoint && pre_sp.is_none() && sc.pre_at.min(sc.prelude.len()) == i {
            let tx = db.begin_write().unwrap();
            pre_sp = Some(tx.ephemeral_savepoint().unwrap());
            tx.commit().unwrap();
            hist.pspec_at_pre = hist.pspec.clone();
        }
        let Some(ptx) = sc.prelude.get(i) else { break };
        let mut tx = db.begin_write().unwrap();
        if ptx.nondurable {
            tx.set_durability(Durability::None).unwrap();
        }
        {
            let mut open: BTreeMap<u64, Table<u64, u64>> = BTreeMap::new();
            for (tb, k, v) in &ptx.ops {
                if !open.contains_key(tb) {
                    let def: TableDefinition<u64, u64> = TableDefinition::new(Box::leak(tname(*tb).into_boxed_str()));
                    open.insert(*tb, tx.open_table(def).unwrap());
                }
                let t = open.get_mut(tb).unwrap();
                match v {
                    Some(v) => {
                        t.insert(k, v).unwrap();
                        hist.pspec.entry(*tb).or_default().insert(*k, *v);
                    }
                    None => {
                        t.remove(k).unwrap();
                        hist.pspec.entry(*tb).or_default().remove(k);
                    }
                }
            }
        }
        tx.commit().unwrap();
    }
    hist.tables = hist.pspec.keys().copied().collect();
    Setup { file, db, all_tables, spec, mspec, pre_sp, hist }
}

// ------------------------------------------------------------------------------------------------------------------
// contention families: telling a thread that BLOCKS on a mutex from one that is still running

/// the OS threads behind the logical threads (workers are named lt<i>)
pub struct OsThreads {
    tids: Vec<u32>,
}

impl OsThreads {
    fn find(n: usize) -> OsThreads {
        for _ in 0..200 {
            let mut tids = vec![0u32; n];
            if let Ok(rd) = std::fs::read_dir("/proc/self/task") {
                for e in rd.flatten() {
                    let comm = std::fs::read_to_string(e.path().join("comm")).unwrap_or_default();
                    if let Some(i) = comm.trim().strip_prefix("lt").and_then(|x| x.parse::<usize>().ok()) {
                        if i < n {
                            tids[i] = e.file_name().to_string_lossy().parse().unwrap_or(0);
                        }
                    }
                }
            }
            if tids.iter().all(|t| *t != 0) {
                return OsThreads { tids };
            }
            std::thread::sleep(std::time::Duration::from_millis(5));
        }
        panic!("the worker threads lt0..lt{} are not visible under /proc/self/task", n - 1);
    }

    /// (scheduler state of the thread, voluntary + involuntary context switches so far)
    fn sample(&self, t: usize) -> Option<(char, u64)> {
        let st = std::fs::read_to_string(format!("/proc/self/task/{}/status", self.tids[t])).ok()?;
        let mut state = None;
        let mut sw = 0u64;
        for l in st.lines() {
            if let Some(r) = l.strip_prefix("State:") {
                state = r.trim().chars().next();
            } else if let Some(r) = l.strip_prefix("voluntary_ctxt_switches:").or_else(|| l.strip_prefix("nonvoluntary_ctxt_switches:")) {
                sw += r.trim().parse::<u64>().unwrap_or(0);
            }
        }
        state.map(|s| (s, sw))
    }
}

enum Granted {
    Ev(Event),
    /// the thread sleeps inside redb (on a mutex): it has reported nothing and has been asleep, without ever being
    /// switched in, over several consecutive looks
    Blocked,
}

/// waits until thread `t` reports an event or is seen blocked. A worker reports (under its slot's mutex) BEFORE it goes to
/// sleep at a pause point or after its call, so a sleeping thread without a report sleeps somewhere else: on a mutex.
/// Time only paces the polling; what is decided is the state of the thread.
fn watch(ctl: &Arc<Controller>, os: &OsThreads, t: usize) -> Granted {
    let begun = std::time::Instant::now();
    let mut prev: Option<u64> = None;
    let mut stable = 0;
    loop {
        if let Some(e) = ctl.poll_event(t) {
            return Granted::Ev(e);
        }
        let el = begun.elapsed();
        if el < std::time::Duration::from_micros(400) {
            std::thread::yield_now();
            continue;
        }
        std::thread::sleep(std::time::Duration::from_micros(400));
        match os.sample(t) {
            Some(('S', sw)) => {
                if prev == Some(sw) {
                    stable += 1;
                } else {
                    prev = Some(sw);
                    stable = 1;
                }
                if stable >= 4 {
                    return match ctl.poll_event(t) {
                        Some(e) => Granted::Ev(e),
                        None => Granted::Blocked,
                    };
                }
            }
            _ => {
                prev = None;
                stable = 0;
            }
        }
        if el > rv_harness::conc::HANG_TIMEOUT {
            return Granted::Ev(Event::Hung);
        }
    }
}

fn grant_watch(ctl: &Arc<Controller>, os: &OsThreads, t: usize) -> Granted {
    ctl.grant(t);
    watch(ctl, os, t)
}

/// a thread that blocked earlier: its next event if it got the mutex meanwhile, None if it still sleeps
fn wait_pending(ctl: &Arc<Controller>, os: &OsThreads, t: usize) -> Option<Event> {
    match watch(ctl, os, t) {
        Granted::Ev(e) => Some(e),
        Granted::Blocked => None,
    }
}

/// the effect of a table operation on the specification of its table, as the model's effect (1 put a b, 2 delete a, 3 delete
/// the keys in [a, b), 0 none)
fn effect_of(kind: OpKind, tb: u64, a: u64, b: u64, spec: &Spec, mspec: &MSpec) -> (u8, u64, u64) {
    let empty = BTreeMap::new();
    let m = spec.get(&tb).unwrap_or(&empty);
    match kind {
        OpKind::Insert => (1, a, b),
        OpKind::Remove => (2, a, 0),
        OpKind::PopFirst => m.keys().next().map(|k| (2, *k, 0)).unwrap_or((0, 0, 0)),
        OpKind::PopLast => m.keys().next_back().map(|k| (2, *k, 0)).unwrap_or((0, 0, 0)),
        OpKind::RetainOut | OpKind::ExtractRange => (3, a, b),
        OpKind::GetMut | OpKind::EntryModify => if m.contains_key(&a) { (1, a, b) } else { (0, 0, 0) },
        OpKind::EntryOrInsert => if m.contains_key(&a) { (0, 0, 0) } else { (1, a, b) },
        OpKind::MmInsert => (1, a, b),
        OpKind::MmRemove => if mspec.get(&tb).and_then(|m| m.get(&a)).map(|s| s.len() == 1 && s.contains(&b)).unwrap_or(false) { (2, a, 0) } else { (0, 0, 0) },
        OpKind::MmRemoveAll => (2, a, 0),
    }
}

fn apply_op(kind: OpKind, tb: u64, a: u64, b: u64, spec: &mut Spec, mspec: &mut MSpec) {
    if kind.is_mm() {
        let m = mspec.entry(tb).or_default();
        match kind {
            OpKind::MmInsert => {
                m.entry(a).or_default().insert(b);
            }
            OpKind::MmRemove => {
                if let Some(s) = m.get_mut(&a) {
                    s.remove(&b);
                    if s.is_empty() {
                        m.remove(&a);
                    }
                }
            }
            _ => {
                m.remove(&a);
            }
        }
        return;
    }
    let (e, x, y) = effect_of(kind, tb, a, b, spec, mspec);
    let m = spec.entry(tb).or_default();
    match e {
        1 => {
            m.insert(x, y);
        }
        2 => {
            m.remove(&x);
        }
        3 => m.retain(|k, _| !(x <= *k && *k < y)),
        _ => {}
    }
}

/// the threads' phase: calls in progress, the specification of each table (its own stream), and what the savepoint
/// eligibility oracle needs
struct Phase {
    in_call: Vec<Option<Call>>,
    at: Vec<Option<String>>,
    /// the call in progress as the log names it
    label_text: Vec<String>,
    spec: Spec,
    mspec: MSpec,
    absent: BTreeSet<u64>,
    /// grants that ran the section storing the dirty flag (it starts at X.set_dirty, under the tables mutex):
    /// (log index, thread, did the call succeed)
    stores: Vec<(usize, usize, Option<bool>)>,
    /// log index of the grant that ran the dirty check of the savepoint call in progress (it starts at X.esp.locked)
    check_idx: Vec<Option<usize>>,
    /// finished savepoint calls: (thread, call, result, log index of its dirty check, when it returned the dirty flag had
    /// not been stored and no call that stores it -- open / delete of a table -- was in progress on another thread)
    sp_done: Vec<(usize, Call, String, usize, bool)>,
    hung: bool,
}

impl Phase {
    /// thread `t` was granted the step `label` (log entry `idx`) and reported `e`
    fn on_event(&mut self, t: usize, label: &str, idx: usize, e: Event, out: &mut Outcome) {
        if label == "@X.set_dirty" {
            self.stores.push((idx, t, None));
        }
        if label == "@X.esp.locked" {
            self.check_idx[t] = Some(idx);
        }
        match e {
            Event::At(p) => self.at[t] = Some(p),
            Event::Done(r) => {
                let c = self.in_call[t].take().unwrap();
                self.at[t] = None;
                if r.starts_with("PANIC") || r.starts_with("ERR") {
                    out.violations.push(("c16-call-failed".into(), format!("thread {t} {}: {r}", c.describe())));
                }
                out.results.push(format!("{t}:{}={r}", self.label_text[t]));
                for s in self.stores.iter_mut().filter(|s| s.1 == t && s.2.is_none()) {
                    s.2 = Some(r == "ok");
                }
                if let Call::Savepoint(h) = &c {
                    if r == "dirty" {
                        self.absent.insert(*h);
                    }
                    // a request that is turned away before it reaches its dirty check was decided by this very grant
                    let ci = self.check_idx[t].take().unwrap_or(idx);
                    let dirtier_active = (0..self.in_call.len()).any(|u| u != t && matches!(self.in_call[u], Some(Call::Open(_) | Call::Delete(_))));
                    self.sp_done.push((t, c.clone(), r.clone(), ci, self.stores.is_empty() && !dirtier_active));
                }
                // the specification of each table: its own stream
                match (&c, r.as_str()) {
                    (Call::Put(tb, k, v), "ok") => {
                        if is_mm(*tb) {
                            self.mspec.entry(*tb).or_default().entry(*k).or_default().insert(*v);
                        } else {
                            self.spec.entry(*tb).or_default().insert(*k, *v);
                        }
                    }
                    (Call::Del(tb, k), "ok") => {
                        if is_mm(*tb) {
                            if let Some(m) = self.mspec.get_mut(tb) {
                                m.remove(k);
                            }
                        } else if let Some(m) = self.spec.get_mut(tb) {
                            m.remove(k);
                        }
                    }
                    (Call::Open(tb), "ok") => {
                        if is_mm(*tb) {
                            self.mspec.entry(*tb).or_default();
                        } else {
                            self.spec.entry(*tb).or_default();
                        }
                    }
                    (Call::Op(kind, tb, a, b), "ok") => apply_op(*kind, *tb, *a, *b, &mut self.spec, &mut self.mspec),
                    (Call::Delete(tb), "ok") => {
                        self.spec.remove(tb);
                        self.mspec.remove(tb);
                    }
                    _ => {}
                }
            }
            Event::Blocked => {}
            Event::Hung => {
                out.violations.push(("c16-hung".into(), format!("thread {t} ({label}): no event after a grant the step model allows")));
                self.hung = true;
            }
        }
    }

    /// savepoint eligibility is a function of the transaction's dirtiness only. The dirty flag is stored and checked under
    /// the tables mutex. A request that returns InvalidSavepoint while the flag has never been stored and no call that
    /// stores it (open / delete of a table) is even in progress on another thread was refused on a CLEAN transaction; a
    /// request whose check ran after the store of a call that succeeded must be refused.
    fn eligibility(&self, out: &mut Outcome) {
        for (t, c, r, ci, clean_at_return) in &self.sp_done {
            if r == "dirty" && *clean_at_return {
                out.violations.push(("c16-savepoint-eligibility".into(), format!(
                    "thread {t}: {} was refused with InvalidSavepoint (log entry {ci}) on a CLEAN transaction: up to then no table had been opened, renamed or deleted, no such call was in progress on another thread, and no savepoint had been restored{}",
                    c.describe(),
                    if self.stores.is_empty() { " -- the transaction stayed clean to its end".to_string() } else { format!(" (the dirty flag is first stored at log entry {})", self.stores[0].0) })));
            }
            let before: Vec<&(usize, usize, Option<bool>)> = self.stores.iter().filter(|s| s.0 < *ci).collect();
            if before.iter().any(|s| s.2 == Some(true)) && r == "ok" {
                out.violations.push(("c16-savepoint-eligibility".into(), format!(
                    "thread {t}: {} succeeded (dirty check at log entry {ci}) although a table had been opened or deleted before it (dirty flag stored at log entry {})",
                    c.describe(), before[0].0)));
            }
        }
    }
}

/// what the reference run (the same programs, one thread after the other, on an identical image) gives
pub struct RefOut {
    /// every call in the form the log names it: table operations with their effect on the table's contents and the
    /// sizes of their freed_pages sections (m<r> = pages replaced through the scratch list and merged, b<n> = pages pushed
    /// under the mutex)
    calls: Vec<Vec<String>>,
    /// committed pages of each table before the shared transaction (0: the catalog)
    committed: BTreeMap<u64, usize>,
    rows: BTreeMap<u64, usize>,
    freed_len: Option<usize>,
    contents: Result<(Spec, MSpec), String>,
    allocated: usize,
    table_pages: BTreeMap<String, usize>,
}

fn table_id(name: &str) -> Option<u64> {
    name.strip_prefix('t').and_then(|x| x.parse().ok())
}

/// (allocated order-0 pages, pages of each table and of the catalog) of the latest committed state
fn page_counts(db: &Database) -> Result<(usize, BTreeMap<String, usize>), String> {
    let snap = db.verif_snapshot();
    let latest = snap.mem.latest().clone();
    let reach = rv_harness::catch(|| db.verif_reach(latest.data_root, None)).map_err(|p| format!("reach panicked: {p}"))?.map_err(|e| format!("reach: {e}"))?;
    let mut m = BTreeMap::new();
    m.insert("catalog".to_string(), reach.data_master_pages.iter().map(|p| p.order0_range().len()).sum());
    for t in &reach.data_tables {
        m.insert(t.name.clone(), t.pages.iter().map(|p| p.order0_range().len()).sum());
    }
    Ok((snap.mem.allocated_order0().len(), m))
}

const PRE_POINTS: &[&str] = &["F.merge", "F.get_mut", "F.mmvalue_drop", "F.mmremove", "F.drain", "F.delete_table"];

fn reference(sc: &Scenario, ctl: &Arc<Controller>) -> Result<RefOut, String> {
    let Setup { db, mut spec, mut mspec, mut pre_sp, hist, .. } = setup(sc);
    let mut committed = BTreeMap::new();
    let mut rows = BTreeMap::new();
    {
        let snap = db.verif_snapshot();
        let reach = db.verif_reach(snap.mem.latest().data_root, None).map_err(|e| format!("reach: {e}"))?;
        committed.insert(0u64, reach.data_master_pages.len());
        for t in &reach.data_tables {
            if let Some(id) = table_id(&t.name) {
                committed.insert(id, t.pages.len());
                rows.insert(id, spec.get(&id).map(|m| m.len()).unwrap_or(0));
            }
        }
    }
    let tx = db.begin_write().map_err(|e| format!("begin_write: {e}"))?;
    let txp: *const WriteTransaction = Box::into_raw(Box::new(tx));
    let sh = Arc::new(Shared { tx: txp, savepoints: Mutex::new(BTreeMap::new()), persistent: Mutex::new(BTreeMap::new()) });
    if let Some(sp) = pre_sp.take() {
        sh.savepoints.lock().unwrap().insert(900, sp);
    }
    let mut alpha: Vec<&str> = ALPHABET.to_vec();
    alpha.extend_from_slice(CTN_EXTRA);
    ctl.set_blocking(&alpha);
    let mut calls: Vec<Vec<String>> = vec![];
    let mut absent: BTreeSet<u64> = BTreeSet::new();
    let mut failed: Option<String> = None;
    'outer: for prog in &sc.progs {
        let mut texts = vec![];
        for call in prog {
            if let Call::DropSavepoint(h) = call {
                if absent.contains(h) {
                    texts.push(call.text());
                    continue;
                }
            }
            let len0 = sh.tx().verif_locks().3;
            // delete_table keeps the tables mutex: what it frees is told apart from the catalog pages it replaces by the
            // table's own committed pages
            let own_committed: usize = if let Call::Delete(tb) = call {
                let snap = sh.tx().verif_snapshot();
                let fresh: BTreeSet<(u32, u32, u8)> = snap.allocated_since_commit.iter().map(|p| (p.region, p.index, p.order)).collect();
                let reach = sh.tx().verif_reach_current().map_err(|e| format!("reach: {e}"))?;
                reach.data_tables.iter().find(|t| t.name == tname(*tb)).map(|t| t.pages.iter().filter(|p| !fresh.contains(&(p.region, p.index, p.order))).count()).unwrap_or(0)
            } else {
                0
            };
            ctl.submit(0, job(sh.clone(), call.clone()));
            let mut secs: Vec<(char, usize)> = vec![];
            let mut open: Option<char> = None;
            let mut last = len0;
            let mut saw_merge = false;
            let res;
            loop {
                match ctl.step(0) {
                    Event::At(p) => {
                        if PRE_POINTS.contains(&p.as_str()) {
                            saw_merge |= p == "F.merge";
                            if let (Some(l), Some(l0)) = (sh.tx().verif_locks().3, last) {
                                if let Some(k) = open.take() {
                                    secs.push((k, l - l0));
                                }
                                last = Some(l);
                            }
                            if open.is_none() {
                                open = Some(if p == "F.merge" { 'm' } else { 'b' });
                            }
                        }
                    }
                    Event::Done(r) => {
                        res = r;
                        break;
                    }
                    e => {
                        failed = Some(format!("reference run: {} gave {e:?}", call.describe()));
                        break 'outer;
                    }
                }
            }
            let lend = sh.tx().verif_locks().3;
            if let (Some(l), Some(l0)) = (lend, last) {
                if let Some(k) = open.take() {
                    secs.push((k, l - l0));
                }
            }
            if res.starts_with("ERR") || res.starts_with("PANIC") {
                failed = Some(format!("reference run: {} gave {res}", call.describe()));
                break 'outer;
            }
            let secs_text = |secs: &Vec<(char, usize)>| if secs.is_empty() { "-".to_string() } else { secs.iter().map(|(k, n)| format!("{k}{n}")).collect::<Vec<_>>().join("_") };
            match call {
                Call::Op(kind, tb, a, b) => {
                    let (e, x, y) = effect_of(*kind, *tb, *a, *b, &spec, &mspec);
                    apply_op(*kind, *tb, *a, *b, &mut spec, &mut mspec);
                    texts.push(format!("X{tb}.{e}.{x}.{y}.{}", secs_text(&secs)));
                }
                Call::Delete(tb) => {
                    spec.remove(tb);
                    mspec.remove(tb);
                    let total = match (lend, len0) { (Some(l), Some(l0)) => l - l0, _ => 0 };
                    let own = own_committed.min(total);
                    texts.push(format!("L{tb}.{}.{own}", if saw_merge { total - own } else { 0 }));
                }
                Call::Hold(k, _) => texts.push(format!("H{}", k.code())),
                Call::Savepoint(h) => {
                    if res == "dirty" {
                        absent.insert(*h);
                    }
                    texts.push(call.text());
                }
                Call::Put(tb, k, v) => {
                    if is_mm(*tb) {
                        mspec.entry(*tb).or_default().entry(*k).or_default().insert(*v);
                    } else {
                        spec.entry(*tb).or_default().insert(*k, *v);
                    }
                    texts.push(call.text());
                }
                Call::Del(tb, k) => {
                    if is_mm(*tb) {
                        if let Some(m) = mspec.get_mut(tb) {
                            m.remove(k);
                        }
                    } else if let Some(m) = spec.get_mut(tb) {
                        m.remove(k);
                    }
                    texts.push(call.text());
                }
                _ => texts.push(call.text()),
            }
        }
        calls.push(texts);
    }
    let freed_len = sh.tx().verif_locks().3;
    let mut tx = unsafe { *Box::from_raw(txp as *mut WriteTransaction) };
    if let Some(f) = failed {
        let _ = tx.abort();
        return Err(f);
    }
    let ended: Result<(), String> = rv_harness::catch(|| match sc.end {
        0 => tx.commit().map_err(|e| format!("commit: {e}")),
        1 => {
            tx.set_durability(Durability::None).map_err(|e| format!("{e}"))?;
            tx.commit().map_err(|e| format!("commit: {e}"))
        }
        _ => tx.abort().map_err(|e| format!("abort: {e}")),
    })
    .unwrap_or_else(|p| Err(format!("panic: {p}")));
    ended.map_err(|e| format!("reference run: {e}"))?;
    let all: BTreeSet<u64> = tables_of(sc);
    let contents = read_all(&db, &all);
    let (allocated, table_pages) = page_counts(&db)?;
    sh.savepoints.lock().unwrap().clear();
    drop(hist);
    Ok(RefOut { calls, committed, rows, freed_len, contents, allocated, table_pages })
}

fn execute(sc: &Scenario, ctl: &Arc<Controller>, os: &OsThreads, reference: Option<&RefOut>) -> Outcome {
    let mut out = Outcome { log: vec![], results: vec![], tracking: String::new(), dirty: false, violations: vec![], interleaved: false, digests: vec![], cg_case: None, cg_impl: None, freed_len: None, blocked_grants: 0 };
    let Setup { file, db, all_tables, spec, mspec, mut pre_sp, hist } = setup(sc);
    let _ = &file;
    let base_spec = spec.clone();
    let base_mspec = mspec.clone();
    let tx = db.begin_write().unwrap();
    let txp: *const WriteTransaction = Box::into_raw(Box::new(tx));
    let sh = Arc::new(Shared { tx: txp, savepoints: Mutex::new(BTreeMap::new()), persistent: Mutex::new(BTreeMap::new()) });
    if let Some(sp) = pre_sp.take() {
        sh.savepoints.lock().unwrap().insert(900, sp);
    }
    // ---------------- the threads' phase
    let n = sc.nthreads;
    let mut pc = vec![0usize; n];
    let mut ph = Phase { in_call: vec![None; n], at: vec![None; n], label_text: vec![String::new(); n], spec, mspec, absent: BTreeSet::new(),
                         stores: vec![], check_idx: vec![None; n], sp_done: vec![], hung: false };
    let mut rng = Rng::new(sc.sched_seed);
    let mut last: Option<usize> = None;
    let mut window = sc.window;
    let mut grants_of_a = 0usize;
    // threads that were granted a step which needs a mutex a stopped thread holds: they sleep inside redb until it is released
    let mut pending: Vec<Option<String>> = vec![None; n];
    loop {
        let (locked, flags) = if sc.contend {
            let (t, f, s, _) = sh.tx().verif_locks();
            (t, format!("{}{}{}", u8::from(t), match f { Some(true) => '1', Some(false) => '0', None => '?' }, u8::from(s)))
        } else {
            let t = sh.tx().verif_tables_locked();
            (t, format!("{}", u8::from(t)))
        };
        let syslocked = !sc.contend && sh.tx().verif_locks().2;
        // a Savepoint that was refused (dirty transaction) leaves nothing to drop: such drops are not calls at all
        for t in 0..n {
            while ph.in_call[t].is_none() && pc[t] < sc.progs[t].len() {
                match &sc.progs[t][pc[t]] {
                    Call::DropSavepoint(h) if ph.absent.contains(h) => pc[t] += 1,
                    _ => break,
                }
            }
        }
        // who can be granted now (the step model's enabledness; contention families: a step that needs a held mutex may be
        // granted too -- the thread must block --, but while a thread is blocked only threads inside a call run on, so that
        // one thread at a time waits for a mutex and the order in which waiters get it is not left to the OS)
        let mut enabled = vec![];
        for t in 0..n {
            if pending[t].is_some() {
                continue;
            }
            let runnable = match (&ph.in_call[t], &ph.at[t]) {
                (None, _) => pc[t] < sc.progs[t].len() && (sc.contend || !(locked && sc.progs[t][pc[t]].needs_mutex_at_entry())),
                (Some(_), Some(p)) => sc.contend || !((locked && p == "X.esp") || (syslocked && p == "X.psp.system")),
                (Some(_), None) => true,
            };
            if runnable {
                enabled.push(t);
            }
        }
        if pending.iter().any(|p| p.is_some()) {
            let mid: Vec<usize> = enabled.iter().copied().filter(|t| ph.in_call[*t].is_some()).collect();
            if !mid.is_empty() {
                enabled = mid;
            }
        }
        if enabled.is_empty() {
            if pending.iter().any(|p| p.is_some()) {
                let who: Vec<String> = (0..n).filter(|t| pending[*t].is_some()).map(|t| format!("thread {t} in {}", ph.in_call[t].as_ref().map(|c| c.describe()).unwrap_or_default())).collect();
                out.violations.push(("c16-deadlock".into(), format!("{} blocked on a mutex of the shared transaction and no other thread can run", who.join(", "))));
                ph.hung = true;
            } else if (0..n).any(|t| ph.in_call[t].is_some() || pc[t] < sc.progs[t].len()) {
                out.violations.push(("c16-deadlock".into(), "no thread can be granted although work remains (tables mutex held by nobody who can run)".into()));
            }
            break;
        }
        // choose
        let others_done = |a: usize, in_call: &Vec<Option<Call>>, pc: &Vec<usize>| (0..n).all(|t| t == a || (in_call[t].is_none() && pc[t] >= sc.progs[t].len()));
        let t = match window {
            _ if sc.park.is_some() => {
                let (a, k) = sc.park.unwrap();
                let rest: Vec<usize> = enabled.iter().copied().filter(|t| *t != a).collect();
                // the call a is in (or None between calls); the parked thread runs alone up to the call it is stopped in
                let cur_call = if ph.in_call[a].is_some() { Some(pc[a] - 1) } else { None };
                let before_target = match cur_call { Some(c) => c < sc.park_call, None => pc[a] < sc.park_call };
                if before_target && enabled.contains(&a) {
                    a
                } else if (grants_of_a < k || others_done(a, &ph.in_call, &pc) || rest.is_empty()) && enabled.contains(&a) {
                    grants_of_a += 1;
                    a
                } else if rest.is_empty() {
                    *rng.pick(&enabled)
                } else if let Some(l) = last.filter(|l| rest.contains(l) && ph.in_call[*l].is_some()) {
                    // the others run their calls one after the other (whole calls, random order)
                    l
                } else {
                    *rng.pick(&rest)
                }
            }
            Some((a, k, b)) => {
                if grants_of_a < k && enabled.contains(&a) {
                    a
                } else if enabled.contains(&b) && (ph.in_call[b].is_some() || pc[b] < sc.progs[b].len()) && grants_of_a >= k {
                    // b runs one whole call (or as far as it can), then the window is over
                    if ph.in_call[b].is_none() && pc[b] > 0 && last == Some(b) {
                        window = None;
                        *rng.pick(&enabled)
                    } else {
                        b
                    }
                } else {
                    window = None;
                    *rng.pick(&enabled)
                }
            }
            None => {
                // mostly continue the same thread a little, to get both long and short runs
                if let Some(l) = last {
                    if enabled.contains(&l) && rng.chance(1, 3) { l } else { *rng.pick(&enabled) }
                } else {
                    *rng.pick(&enabled)
                }
            }
        };
        if let Some((a, _, _)) = window {
            if t == a {
                grants_of_a += 1;
            }
        }
        if let Some(l) = last {
            if l != t && ph.in_call[l].is_some() {
                out.interleaved = true;
            }
        }
        last = Some(t);
        let label;
        if ph.in_call[t].is_none() {
            let call = sc.progs[t][pc[t]].clone();
            // contention families: the model's form of the call (its effect on the table's contents and the sizes of its
            // freed_pages sections) was measured by the reference run
            let text = reference.map(|r| r.calls[t][pc[t]].clone()).unwrap_or_else(|| call.text());
            pc[t] += 1;
            label = format!("E{text}");
            ctl.submit(t, job(sh.clone(), call.clone()));
            ph.in_call[t] = Some(call);
            ph.label_text[t] = text;
            ph.at[t] = None;
        } else {
            label = format!("@{}", ph.at[t].clone().unwrap());
        }
        // somebody else is inside a call (stopped at a pause point, possibly inside a lock-protected section)?
        let watch = sc.contend && (0..n).any(|u| u != t && ph.in_call[u].is_some());
        let granted = if watch { grant_watch(ctl, os, t) } else { Granted::Ev(ctl.step(t)) };
        match granted {
            Granted::Blocked => {
                out.log.push(format!("{t}:{label}:B"));
                out.blocked_grants += 1;
                pending[t] = Some(label);
            }
            Granted::Ev(e) => {
                out.log.push(format!("{t}:{label}:{flags}"));
                let idx = out.log.len() - 1;
                ph.on_event(t, &label, idx, e, &mut out);
            }
        }
        // whoever slept on a mutex and got it now has run on to its next stop
        for u in 0..n {
            if ph.hung {
                break;
            }
            if let Some(l) = pending[u].clone() {
                if let Some(e) = wait_pending(ctl, os, u) {
                    pending[u] = None;
                    out.log.push(format!("{u}:{l}:W"));
                    let idx = out.log.len() - 1;
                    ph.on_event(u, &l, idx, e, &mut out);
                }
            }
        }
        if ph.hung {
            break;
        }
    }
    if ph.hung {
        return out;
    }
    ph.eligibility(&mut out);
    let Phase { spec, mspec, .. } = ph;
    out.freed_len = sh.tx().verif_locks().3;
    // ---------------- state of the shared transaction before it ends (H3)
    let snap = sh.tx().verif_snapshot();
    out.tracking = format!("{:?}", snap.page_tracker.state);
    out.dirty = snap.dirty;
    let valid = snap.db.tracker.valid_savepoints.len();
    if valid > 0 && format!("{:?}", snap.page_tracker.state) != "Track" {
        out.violations.push((
            "c16-savepoint-untracked".into(),
            format!("{valid} savepoint(s) valid while the transaction's allocation tracking is {:?}: a restore could not free this transaction's pages", snap.page_tracker.state),
        ));
    }
    // ---------------- end of the transaction (main thread; all handles were closed by the programs)
    let mut tx = unsafe { *Box::from_raw(txp as *mut WriteTransaction) };
    if let Some(g) = sc.commit_gap {
        // the durable commit runs on worker 0 and is stopped between two of its lock-protected sections; a
        // Savepoint is dropped on worker 1 right there (the window the epilogue's horizon clamp exists for).
        // Every grant and the event it ended with is logged: the extracted CommitGap model replays them one by one.
        let initial = cg_initial_state(&tx);
        let victim: Option<(u64, (u64, u64))> = sh.savepoints.lock().unwrap().iter().next().map(|(h, sp)| {
            let r = sp.verif_record();
            (*h, (r.id, r.transaction_id))
        });
        ctl.set_blocking(COMMIT_ALPHABET);
        ctl.submit(0, Box::new(move || match tx.commit() {
            Ok(()) => "ok".into(),
            Err(e) => format!("ERR({e})"),
        }));
        let mut grants: Vec<String> = vec![];
        let mut done: Option<String> = None;
        let mut dropped: Option<String> = None;
        let mut drop_started = false;
        // one grant to thread t; false = stop (hung)
        let step = |t: usize, grants: &mut Vec<String>, done: &mut Option<String>, dropped: &mut Option<String>, out: &mut Outcome| -> bool {
            match ctl.step(t) {
                Event::At(p) => grants.push(format!("{t}>{p}")),
                Event::Done(r) => {
                    grants.push(format!("{t}>done"));
                    if t == 0 { *done = Some(r) } else { *dropped = Some(r) }
                }
                e => {
                    out.violations.push(("c16-hung".into(), format!("inside the commit gap, thread {t}: {e:?}")));
                    return false;
                }
            }
            true
        };
        for _ in 0..g {
            if done.is_some() {
                break;
            }
            if !step(0, &mut grants, &mut done, &mut dropped, &mut out) {
                return out;
            }
        }
        if let (Some((h, _)), None) = (victim, &done) {
            ctl.submit(1, job(sh.clone(), Call::DropSavepoint(h)));
            drop_started = true;
            let (d, k) = sc.drop_split.unwrap_or((usize::MAX, 0));
            let mut given = 0usize;
            while dropped.is_none() && given < d {
                if !step(1, &mut grants, &mut done, &mut dropped, &mut out) {
                    return out;
                }
                given += 1;
            }
            for _ in 0..k {
                if done.is_some() || dropped.is_some() {
                    break;
                }
                if !step(0, &mut grants, &mut done, &mut dropped, &mut out) {
                    return out;
                }
            }
            while dropped.is_none() {
                if !step(1, &mut grants, &mut done, &mut dropped, &mut out) {
                    return out;
                }
            }
            if dropped.as_deref() != Some("ok") {
                out.violations.push(("c16-call-failed".into(), format!("Savepoint drop inside the commit: {dropped:?}")));
            }
            out.results.push(format!("1:R{h}@commit-gap{g}=ok"));
        }
        while done.is_none() {
            if !step(0, &mut grants, &mut done, &mut dropped, &mut out) {
                return out;
            }
        }
        ctl.set_blocking(ALPHABET);
        if done.as_deref() != Some("ok") {
            out.violations.push(("c16-end-failed".into(), format!("commit: {done:?}")));
            return out;
        }
        match (initial, cg_final_state(&db)) {
            (Ok(i), Ok(f)) => {
                let drop_text = match (victim, drop_started) {
                    (Some((_, (id, t))), true) => format!("{id}:{t}"),
                    _ => String::new(),
                };
                out.cg_case = Some(format!("{i}|drop={drop_text}|grants={}", grants.join(" ")));
                out.cg_impl = Some(f);
            }
            (Err(e), _) | (_, Err(e)) => out.violations.push(("c16-snapshot-failed".into(), format!("commit gap: {e}"))),
        }
        return finish_checks(sc, db, sh, out, all_tables, spec, mspec, base_spec, base_mspec, hist, reference);
    }
    let ended: Result<(), String> = rv_harness::catch(|| match sc.end {
        0 => tx.commit().map_err(|e| format!("commit: {e}")),
        1 => {
            tx.set_durability(Durability::None).map_err(|e| format!("{e}"))?;
            tx.commit().map_err(|e| format!("commit: {e}"))
        }
        _ => tx.abort().map_err(|e| format!("abort: {e}")),
    })
    .unwrap_or_else(|p| Err(format!("panic: {p}")));
    if let Err(e) = ended {
        out.violations.push(("c16-end-failed".into(), e));
        return out;
    }
    finish_checks(sc, db, sh, out, all_tables, spec, mspec, base_spec, base_mspec, hist, reference)
}

/// Persistent savepoints created by the threads of the shared transaction: distinct ids, listed (or, after an abort,
/// gone), and after a reopen a new persistent savepoint gets an id nobody holds (C07's `c07_savepoint_ids_fresh` on
/// the implementation) and every listed savepoint restores what it captured. Leaves the reopened database in `slot`.
fn persistent_checks(sc: &Scenario, slot: &mut Option<Database>, file: &Arc<MemFile>, pids: &BTreeMap<u64, u64>, with_hist: &BTreeSet<u64>,
                     captured_ok: &dyn Fn(&Database, &str, bool) -> Result<(), String>) -> Result<(), (String, String)> {
    let un = |e: String| ("c16-savepoint-unusable".to_string(), e);
    let ids: Vec<u64> = pids.values().copied().collect();
    let mut sorted = ids.clone();
    sorted.sort_unstable();
    sorted.dedup();
    if sorted.len() != ids.len() {
        return Err(("c16-savepoint-id-reused".into(), format!("the persistent_savepoint() calls on the shared transaction returned ids {ids:?} (by handle {:?}): not distinct", pids.keys().collect::<Vec<_>>())));
    }
    let expect: Vec<u64> = if sc.end == 2 { vec![] } else { sorted.clone() };
    let list = |db: &Database| -> Result<Vec<u64>, (String, String)> {
        let tx = db.begin_write().map_err(|e| un(format!("begin_write: {e}")))?;
        let mut l: Vec<u64> = tx.list_persistent_savepoints().map_err(|e| un(format!("list_persistent_savepoints: {e}")))?.collect();
        tx.abort().map_err(|e| un(format!("abort: {e}")))?;
        l.sort_unstable();
        Ok(l)
    };
    let endname = ["commit", "non-durable commit", "abort"][sc.end as usize];
    let l = list(slot.as_ref().unwrap())?;
    if l != expect {
        return Err(("c16-savepoint-lost".into(), format!("after the {endname} list_persistent_savepoints() = {l:?}, the calls on the shared transaction returned {sorted:?}")));
    }
    let tr = slot.as_ref().unwrap().verif_snapshot().tracker;
    for id in &expect {
        if !tr.persistent_savepoints.contains(id) || !tr.valid_savepoints.iter().any(|(i, _)| i == id) {
            return Err(("c16-savepoint-lost".into(), format!("persistent savepoint {id} is not registered with the tracker after the {endname}: valid {:?} persistent {:?}", tr.valid_savepoints, tr.persistent_savepoints)));
        }
    }
    // ---- close and reopen
    drop(slot.take());
    *slot = Some(open_db(file, sc.cache));
    let db = slot.as_ref().unwrap();
    let l = list(db)?;
    if l != expect {
        return Err(("c16-savepoint-lost".into(), format!("after reopening list_persistent_savepoints() = {l:?}, expected {expect:?}")));
    }
    let tx = db.begin_write().map_err(|e| un(format!("begin_write: {e}")))?;
    let new_id = tx.persistent_savepoint().map_err(|e| un(format!("persistent_savepoint after reopening: {e}")))?;
    if expect.contains(&new_id) {
        return Err(("c16-savepoint-id-reused".into(), format!("after reopening persistent_savepoint() handed out id {new_id}, which a live savepoint holds (live: {expect:?})")));
    }
    let mut l2: Vec<u64> = tx.list_persistent_savepoints().map_err(|e| un(format!("list_persistent_savepoints: {e}")))?.collect();
    l2.sort_unstable();
    let mut want = expect.clone();
    want.push(new_id);
    want.sort_unstable();
    if l2 != want {
        return Err(("c16-savepoint-lost".into(), format!("a new persistent savepoint {new_id} changed the listed savepoints from {expect:?} to {l2:?}")));
    }
    tx.commit().map_err(|e| un(format!("commit: {e}")))?;
    // ---- the new one captured the present state; then the old ones from the newest to the oldest (a restore deletes the newer ones)
    let before = read_all(db, with_hist).map_err(un)?;
    let restore = |id: u64| -> Result<(), (String, String)> {
        let mut tx = db.begin_write().map_err(|e| un(format!("begin_write: {e}")))?;
        let sp = tx.get_persistent_savepoint(id).map_err(|e| un(format!("get_persistent_savepoint({id}): {e}")))?;
        tx.restore_savepoint(&sp).map_err(|e| un(format!("restore of persistent savepoint {id}: {e}")))?;
        drop(sp);
        tx.commit().map_err(|e| un(format!("commit after restoring persistent savepoint {id}: {e}")))
    };
    restore(new_id)?;
    if read_all(db, with_hist).map_err(un)? != before {
        return Err(un(format!("restoring persistent savepoint {new_id}, taken in the state the database is in, changed the tables")));
    }
    for id in expect.iter().rev() {
        restore(*id)?;
        captured_ok(db, &format!("persistent savepoint {id}"), false).map_err(un)?;
    }
    let l = list(db)?;
    let tx = db.begin_write().map_err(|e| un(format!("begin_write: {e}")))?;
    for id in l {
        tx.delete_persistent_savepoint(id).map_err(|e| un(format!("delete_persistent_savepoint({id}): {e}")))?;
    }
    tx.commit().map_err(|e| un(format!("commit: {e}")))?;
    Ok(())
}

#[allow(clippy::too_many_arguments)]
fn finish_checks(sc: &Scenario, mut db: Database, sh: Arc<Shared>, mut out: Outcome, all_tables: BTreeSet<u64>, spec: Spec, mspec: MSpec,
                 base_spec: Spec, base_mspec: MSpec, mut hist: Hist, reference: Option<&RefOut>) -> Outcome {
    let endname = ["commit", "non-durable commit", "abort"][sc.end as usize];
    // ---------------- right after the end of the shared transaction, everything that pins pages still live
    match rv_harness::catch(|| accounting(&db)) {
        Ok(Ok(())) => {}
        Ok(Err(e)) => out.violations.push(("c16-accounting".into(), format!("right after the {endname} (live: {} read transaction(s), {} savepoint(s)): {e}", hist.readers.len(), sh.savepoints.lock().unwrap().len()))),
        Err(p) => out.violations.push(("c16-accounting".into(), format!("right after the {endname}: walking the committed state panicked: {p}"))),
    }
    // ---------------- the same operations applied one thread after the other on an identical image
    if let Some(r) = reference {
        let mut diffs: Vec<String> = vec![];
        if let (Some(a), Some(b)) = (out.freed_len, r.freed_len) {
            if a != b {
                diffs.push(format!("the transaction recorded {a} replaced page(s) as freed, the one-thread run {b}"));
            }
        }
        match (read_all(&db, &all_tables), &r.contents) {
            (Ok(a), Ok(b)) => {
                if a != *b {
                    let tb = all_tables.iter().find(|t| a.0.get(t) != b.0.get(t) || a.1.get(t) != b.1.get(t));
                    diffs.push(format!("the contents of table {tb:?} differ from the one-thread run"));
                }
            }
            (Err(e), _) => diffs.push(format!("reading back failed: {e}")),
            (_, Err(e)) => diffs.push(format!("reading back the one-thread run failed: {e}")),
        }
        match rv_harness::catch(|| page_counts(&db)) {
            Ok(Ok((alloc, pages))) => {
                for (name, n) in &pages {
                    if r.table_pages.get(name) != Some(n) {
                        diffs.push(format!("{name} has {n} page(s), in the one-thread run {:?}", r.table_pages.get(name)));
                    }
                }
                // system pages depend on the savepoints that exist; without savepoint calls the totals must agree
                let no_savepoints = !sc.pre_savepoint && !sc.progs.iter().flatten().any(|c| matches!(c, Call::Savepoint(_)));
                if no_savepoints && alloc != r.allocated {
                    diffs.push(format!("{alloc} pages are allocated, after the one-thread run {}", r.allocated));
                }
            }
            Ok(Err(e)) => diffs.push(e),
            Err(p) => diffs.push(format!("walking the committed state panicked: {p}")),
        }
        if !diffs.is_empty() {
            out.violations.push(("c16-sequential-equality".into(), format!("after the {endname} the shared transaction differs from the same operations applied one thread after the other on an identical image: {}", diffs.join("; "))));
        }
    }
    // every read transaction begun during the history still sees exactly its snapshot
    let with_hist: BTreeSet<u64> = all_tables.union(&hist.tables).copied().collect();
    for (at, rt, pspec) in hist.readers.drain(..) {
        let r: Result<(), String> = rv_harness::catch(|| {
            let (got, mgot) = read_all_rt(&rt, &with_hist)?;
            for tb in &with_hist {
                let ok = if is_mm(*tb) {
                    mgot.get(tb).cloned().unwrap_or_default() == base_mspec.get(tb).cloned().unwrap_or_default()
                } else if hist.tables.contains(tb) {
                    got.get(tb).cloned().unwrap_or_default() == pspec.get(tb).cloned().unwrap_or_default()
                } else {
                    got.get(tb).cloned().unwrap_or_default() == base_spec.get(tb).cloned().unwrap_or_default()
                };
                if !ok {
                    return Err(format!("table {tb} is not what it was when the read transaction began"));
                }
            }
            Ok(())
        })
        .unwrap_or_else(|p| Err(format!("panic: {p}")));
        if let Err(e) = r {
            out.violations.push(("c16-reader-snapshot".into(), format!("read transaction begun after {at} transaction(s) of the history, read after the shared transaction's {endname}: {e}")));
        }
        drop(rt);
    }
    let (want, mwant) = if sc.end == 2 { (base_spec.clone(), base_mspec.clone()) } else { (spec.clone(), mspec.clone()) };
    match read_all(&db, &all_tables) {
        Ok((got, mgot)) => {
            for tb in &all_tables {
                if !is_mm(*tb) && sc.end != 2 {
                    let m = got.get(tb).cloned().unwrap_or_default();
                    let mut h: u64 = 0;
                    for (k, v) in &m {
                        h = (h * 31 + k * 1009 + v) % 1_000_000_007;
                    }
                    out.digests.push(format!("T{tb}={}:{h}", m.len()));
                }
            }
            for tb in &all_tables {
                if is_mm(*tb) {
                    let a = mgot.get(tb).cloned().unwrap_or_default();
                    let b: BTreeMap<u64, BTreeSet<u64>> = mwant.get(tb).cloned().unwrap_or_default().into_iter().filter(|(_, s)| !s.is_empty()).collect();
                    if a != b {
                        out.violations.push(("c16-table-contents".into(), format!("multimap table {tb} after the {}: {a:?}, its own stream gives {b:?}", ["commit", "non-durable commit", "abort"][sc.end as usize])));
                    }
                } else {
                    let a = got.get(tb).cloned().unwrap_or_default();
                    let b = want.get(tb).cloned().unwrap_or_default();
                    if a != b {
                        out.violations.push(("c16-table-contents".into(), format!("table {tb} after the {}: {} rows, its own stream gives {} rows (first difference at key {:?})",
                            ["commit", "non-durable commit", "abort"][sc.end as usize], a.len(), b.len(),
                            a.iter().zip(b.iter()).find(|(x, y)| x != y).map(|(x, _)| *x.0))));
                    }
                }
            }
        }
        Err(e) => out.violations.push(("c16-table-contents".into(), format!("reading back failed: {e}"))),
    }
    if !hist.tables.is_empty() {
        match read_all(&db, &hist.tables) {
            Ok((got, _)) => {
                for tb in &hist.tables {
                    if got.get(tb).cloned().unwrap_or_default() != hist.pspec.get(tb).cloned().unwrap_or_default() {
                        out.violations.push(("c16-table-contents".into(), format!("table {tb} (written by earlier transactions only) changed across the shared transaction's {endname}")));
                    }
                }
            }
            Err(e) => out.violations.push(("c16-table-contents".into(), format!("reading back failed: {e}"))),
        }
    }
    // no page in two tables
    {
        let s2 = db.verif_snapshot();
        match rv_harness::catch(|| db.verif_reach(s2.mem.latest().data_root, None)) {
            Ok(Ok(reach)) => {
                let mut owner: BTreeMap<(u32, u32), String> = BTreeMap::new();
                for t in &reach.data_tables {
                    for p in &t.pages {
                        for i in p.order0_range() {
                            if let Some(o) = owner.insert((p.region, i), t.name.clone()) {
                                out.violations.push(("c16-shared-page".into(), format!("page {}/{i} belongs to table {o} and to table {}", p.region, t.name)));
                            }
                        }
                    }
                }
            }
            Ok(Err(e)) => out.violations.push(("c16-shared-page".into(), format!("walking the committed trees failed: {e}"))),
            Err(p) => out.violations.push(("c16-shared-page".into(), format!("walking the committed trees panicked: {p}"))),
        }
    }
    // every savepoint that exists must be usable: restore gives exactly the state it captured (= before this transaction)
    // what a savepoint captured: the threads' tables as they were before the shared transaction, tables 1..9 as
    // they were when it was taken (handle 900: inside the history; every other one: in the shared transaction)
    let captured_ok = |db: &Database, what: &str, old: bool| -> Result<(), String> {
        let (got, mgot) = read_all(db, &with_hist)?;
        for tb in &with_hist {
            let ok = if is_mm(*tb) {
                mgot.get(tb).cloned().unwrap_or_default() == base_mspec.get(tb).cloned().unwrap_or_default()
            } else if hist.tables.contains(tb) {
                got.get(tb).cloned().unwrap_or_default() == if old { &hist.pspec_at_pre } else { &hist.pspec }.get(tb).cloned().unwrap_or_default()
            } else {
                got.get(tb).cloned().unwrap_or_default() == base_spec.get(tb).cloned().unwrap_or_default()
            };
            if !ok {
                return Err(format!("after restoring {what} table {tb} is not what the savepoint captured"));
            }
        }
        Ok(())
    };
    let pids: BTreeMap<u64, u64> = sh.persistent.lock().unwrap().clone();
    if !pids.is_empty() {
        // the ephemeral ones are not restored in these scenarios (a restore would delete the persistent ones taken after it)
        sh.savepoints.lock().unwrap().clear();
        let file = hist.file.clone().unwrap();
        let mut slot = Some(db);
        let r: Result<(), (String, String)> = rv_harness::catch(|| persistent_checks(sc, &mut slot, &file, &pids, &with_hist, &captured_ok))
            .unwrap_or_else(|p| Err(("c16-savepoint-unusable".to_string(), format!("panic: {p}"))));
        if let Err(ke) = r {
            out.violations.push(ke);
        }
        match slot {
            Some(d) => db = d,
            None => return out,
        }
    }
    let handles: Vec<u64> = sh.savepoints.lock().unwrap().keys().copied().collect();
    for h in handles {
        let sp = sh.savepoints.lock().unwrap().remove(&h).unwrap();
        let r: Result<(), String> = rv_harness::catch(|| {
            let mut tx = db.begin_write().map_err(|e| format!("begin_write: {e}"))?;
            tx.restore_savepoint(&sp).map_err(|e| format!("restore_savepoint: {e}"))?;
            tx.commit().map_err(|e| format!("commit after restore: {e}"))?;
            captured_ok(&db, &format!("savepoint {h}"), h == 900)
        })
        .unwrap_or_else(|p| Err(format!("panic: {p}")));
        drop(sp);
        if let Err(e) = r {
            out.violations.push(("c16-savepoint-unusable".into(), e));
        }
        // later savepoints are invalidated by the restore: drop them
        sh.savepoints.lock().unwrap().clear();
        break;
    }
    sh.savepoints.lock().unwrap().clear();
    // page accounting after two empty durable commits have flushed every pending free
    let acc: Result<(), String> = rv_harness::catch(|| {
        for _ in 0..2 {
            let tx = db.begin_write().map_err(|e| format!("begin_write: {e}"))?;
            tx.commit().map_err(|e| format!("commit: {e}"))?;
        }
        accounting(&db)
    })
    .unwrap_or_else(|p| Err(format!("panic: {p}")));
    if let Err(e) = acc {
        out.violations.push(("c16-accounting".into(), e));
    }
    match rv_harness::catch(|| db.check_integrity()) {
        Ok(Ok(true)) => {}
        Ok(Ok(false)) => out.violations.push(("c16-integrity".into(), "check_integrity() = false".into())),
        Ok(Err(e)) => out.violations.push(("c16-integrity".into(), format!("check_integrity: {e}"))),
        Err(p) => out.violations.push(("c16-integrity".into(), format!("check_integrity panicked: {p}"))),
    }
    out
}

fn gen_scenarios(rng: &mut Rng, thorough: bool) -> Vec<Scenario> {
    let mut v = vec![];
    let mut id = 0;
    let push = |s: Scenario, v: &mut Vec<Scenario>| {
        let mut s = s;
        s.id = v.len();
        v.push(s);
    };
    let _ = &mut id;
    // table streams for a worker thread: tables base+0 (normal) and 100+base (multimap)
    let stream = |rng: &mut Rng, t: usize, nops: usize| -> Vec<Call> {
        let mut p = vec![];
        let tabs = [10 * (t as u64 + 1) + rng.below(2), 100 + 10 * (t as u64 + 1) + rng.below(2)];
        for tb in tabs {
            p.push(Call::Open(tb));
            for _ in 0..nops {
                let k = rng.below(60);
                if rng.chance(3, 4) {
                    p.push(Call::Put(tb, k, rng.below(1000)));
                } else {
                    p.push(Call::Del(tb, k));
                }
            }
            p.push(Call::Close(tb));
        }
        p
    };
    let caches = [1usize << 20, 0, 2048];
    // ---- directed windows: the savepoint thread stopped after k grants, a first table-open on another thread; and the reverse
    for pre in [false, true] {
        for end in 0..3u8 {
            for k in 0..=9usize {
                for rev in [false, true] {
                    let mut progs = vec![stream(rng, 0, 6), vec![Call::Savepoint(1), Call::DropSavepoint(1), Call::Savepoint(2)]];
                    if pre {
                        progs[1].insert(1, Call::DropSavepoint(900));
                    }
                    let window = if rev { (0usize, k.min(4), 1usize) } else { (1usize, k, 0usize) };
                    push(
                        Scenario { id: 0, kind: format!("win-{}-{}-k{k}-{}", if pre { "pre" } else { "nopre" }, end, if rev { "open" } else { "esp" }),
                                   nthreads: 2, progs, pre_savepoint: pre, end, cache: caches[(k + end as usize) % 3],
                                   sched_seed: rng.next_u64(), window: Some(window), commit_gap: None, pre_at: usize::MAX, ..Default::default() },
                        &mut v,
                    );
                }
            }
        }
    }
    // ---- a Savepoint dropped inside the durable commit (between the DATA_ALLOCATED purge and the epilogue's horizon ...)
    for pre in [false, true] {
        for g in 0..=18usize {
            let progs = vec![stream(rng, 0, 10), if pre { vec![] } else { vec![Call::Savepoint(1)] }];
            push(
                Scenario { id: 0, kind: format!("cgap-{}-g{g}", if pre { "pre" } else { "own" }), nthreads: 2, progs, pre_savepoint: pre, end: 0,
                           cache: caches[g % 3], sched_seed: rng.next_u64(), window: Some((1, 20, 0)), commit_gap: Some(g), pre_at: usize::MAX, ..Default::default() },
                &mut v,
            );
        }
    }
    // ---- random: 2-4 threads, last one does savepoint calls
    let nrand = if thorough { 3000 } else { 300 };
    for i in 0..nrand {
        let nt = 2 + (i % 3);
        let mut progs = vec![];
        for t in 0..nt - 1 {
            let nops = 3 + rng.below(8) as usize;
            progs.push(stream(rng, t, nops));
        }
        let pre = rng.chance(1, 3);
        let mut sp = vec![];
        let mut live: Vec<u64> = if pre { vec![900] } else { vec![] };
        let mut next = 1;
        for _ in 0..rng.range(1, 5) {
            if !live.is_empty() && rng.chance(1, 2) {
                let j = rng.below(live.len() as u64) as usize;
                sp.push(Call::DropSavepoint(live.remove(j)));
            } else {
                sp.push(Call::Savepoint(next));
                live.push(next);
                next += 1;
            }
        }
        progs.push(sp);
        push(
            Scenario { id: 0, kind: format!("rand-{nt}"), nthreads: nt, progs, pre_savepoint: pre, end: (i % 3) as u8, cache: caches[i % 3],
                       sched_seed: rng.next_u64(), window: None, commit_gap: None, pre_at: usize::MAX, ..Default::default() },
            &mut v,
        );
    }
    // ---- history x live readers x commit gap: the older savepoint pins the state before T1 (allocates pages) and T2 (unlinks
    // them) or a later one; read transactions begun before / between / after them stay live; the savepoint is dropped in
    // every gap of the shared transaction's durable commit
    let alloc_free = |rng: &mut Rng, n: u64| -> Vec<PTx> {
        let tb = 1 + rng.below(3);
        let base = rng.below(1000);
        let t1 = PTx { ops: (0..n).map(|k| (tb, base + k, Some(rng.below(1000)))).collect(), nondurable: false };
        let keep = rng.below(3);
        let t2 = PTx { ops: (keep..n).map(|k| (tb, base + k, None)).collect(), nondurable: false };
        vec![t1, t2]
    };
    let reader_sets: [&[usize]; 5] = [&[2], &[1, 2], &[1], &[0], &[0, 2]];
    for pre_at in 0..3usize {
        for rs in reader_sets {
            for g in 0..=22usize {
                if thorough || (g + pre_at + rs.len()) % 2 == 0 || (3..=12).contains(&g) {
                    let prelude = alloc_free(rng, 150 + 50 * (g as u64 % 4));
                    let progs = vec![stream(rng, 0, 6), vec![]];
                    push(
                        Scenario { id: 0, kind: format!("cgapr-sp{pre_at}-r{}-g{g}", rs.iter().map(|x| x.to_string()).collect::<Vec<_>>().join("")), nthreads: 2, progs,
                                   pre_savepoint: true, end: 0, cache: caches[g % 3], sched_seed: rng.next_u64(), window: None, commit_gap: Some(g),
                                   prelude, pre_at, readers: rs.to_vec(), park: None, drop_split: None, ..Default::default() },
                        &mut v,
                    );
                }
            }
        }
    }
    // ---- the same history, the dropping thread stopped INSIDE Savepoint::drop: after d grants (2 = between its two tracker
    // sections, 3 = after the second pause point it passes, if it has not returned yet) the committer runs k more sections,
    // then the drop is finished
    let split_readers: [&[usize]; 3] = [&[2], &[1, 2], &[0]];
    for pre_at in 0..3usize {
        for rs in split_readers {
            for g in [1usize, 2, 3, 4, 8, 9, 10] {
                for (d, k) in [(2usize, 1usize), (2, 2), (2, 3), (2, 6), (3, 3)] {
                    if thorough || (g + pre_at + rs.len() + d + k) % 2 == 0 || g <= 3 {
                        let prelude = alloc_free(rng, 150 + 50 * (g as u64 % 4));
                        let progs = vec![stream(rng, 0, 6), vec![]];
                        push(
                            Scenario { id: 0, kind: format!("cgaps-sp{pre_at}-r{}-g{g}-d{d}-k{k}", rs.iter().map(|x| x.to_string()).collect::<Vec<_>>().join("")),
                                       nthreads: 2, progs, pre_savepoint: true, end: 0, cache: caches[g % 3], sched_seed: rng.next_u64(), window: None,
                                       commit_gap: Some(g), prelude, pre_at, readers: rs.to_vec(), park: None, drop_split: Some((d, k)), ..Default::default() },
                            &mut v,
                        );
                    }
                }
            }
        }
    }
    // ---- random histories: 1-4 earlier transactions (durable / non-durable), older savepoint anywhere, readers anywhere,
    // threads with their own savepoints, any end, a savepoint dropped inside the commit or not
    let nhist = if thorough { 1500 } else { 120 };
    for i in 0..nhist {
        let np = rng.range(1, 4) as usize;
        let mut prelude = vec![];
        for _ in 0..np {
            if rng.chance(1, 3) {
                let n = 40 + rng.below(200);
                prelude.extend(alloc_free(rng, n));
            } else {
                let tb = 1 + rng.below(3);
                let nops = 1 + rng.below(120);
                let ops = (0..nops).map(|_| (tb, rng.below(300), if rng.chance(2, 3) { Some(rng.below(1000)) } else { None })).collect();
                prelude.push(PTx { ops, nondurable: rng.chance(1, 3) });
            }
        }
        let pre = rng.chance(3, 4);
        let pre_at = rng.below(prelude.len() as u64 + 1) as usize;
        let readers: Vec<usize> = (0..=prelude.len()).filter(|_| rng.chance(1, 3)).collect();
        let gap = if rng.chance(2, 3) { Some(rng.below(20) as usize) } else { None };
        let nt = 2 + (i % 2);
        let mut progs = vec![];
        for t in 0..nt - 1 {
            let nops = 3 + rng.below(8) as usize;
            progs.push(stream(rng, t, nops));
        }
        let mut sp = vec![];
        if !pre || rng.chance(1, 2) {
            sp.push(Call::Savepoint(1));
            if rng.chance(1, 3) {
                sp.push(Call::Savepoint(2));
            }
            if pre && rng.chance(1, 3) {
                sp.push(Call::DropSavepoint(900));
            }
        }
        progs.push(sp);
        let end = if gap.is_some() { 0 } else { (i % 3) as u8 };
        push(
            Scenario { id: 0, kind: format!("hist-{nt}-p{}-sp{}-r{}-{}", prelude.len(), if pre { pre_at.to_string() } else { "x".into() },
                                            readers.iter().map(|x| x.to_string()).collect::<Vec<_>>().join(""), gap.map(|g| format!("g{g}")).unwrap_or_else(|| format!("e{end}"))),
                       nthreads: nt, progs, pre_savepoint: pre, end, cache: caches[i % 3], sched_seed: rng.next_u64(),
                       window: if gap.is_some() { Some((nt - 1, 30, 0)) } else { None }, commit_gap: gap, prelude, pre_at, readers, park: None, drop_split: None, ..Default::default() },
            &mut v,
        );
    }
    // ---- persistent savepoints from several threads of the shared transaction. Directed: thread a is stopped after k grants
    // (inside persistent_savepoint(), before / after its id was allocated) until all the others have finished theirs
    for nsp in [3usize, 4] {
        for a in 0..nsp {
            for k in 1..=8usize {
                for end in [0u8, 2] {
                    if end == 2 && !(thorough || k == 6) {
                        continue;
                    }
                    let progs: Vec<Vec<Call>> = (0..nsp).map(|t| vec![Call::Savepoint(500 + t as u64)]).collect();
                    push(
                        Scenario { id: 0, kind: format!("psp-park-n{nsp}-a{a}-k{k}-e{end}"), nthreads: nsp, progs, pre_savepoint: (a + k) % 3 == 0, end,
                                   cache: caches[(a + k) % 3], sched_seed: rng.next_u64(), window: None, commit_gap: None, prelude: vec![], pre_at: usize::MAX,
                                   readers: vec![], park: Some((a, k)), drop_split: None, ..Default::default() },
                        &mut v,
                    );
                }
            }
        }
    }
    // random: 3-4 threads, 1-2 persistent (sometimes ephemeral) savepoints each, sometimes a table thread (first open = dirty: later ones refused)
    let npsp = if thorough { 1200 } else { 100 };
    for i in 0..npsp {
        let nt = 3 + (i % 2);
        let with_tables = rng.chance(1, 4);
        let mut progs = vec![];
        let mut h = 500u64;
        let mut e = 1u64;
        for t in 0..nt {
            if with_tables && t == 0 {
                let nops = 3 + rng.below(4) as usize;
                progs.push(stream(rng, 0, nops));
                continue;
            }
            let mut p = vec![];
            for _ in 0..rng.range(1, 2) {
                if rng.chance(1, 6) {
                    p.push(Call::Savepoint(e));
                    if rng.chance(1, 2) {
                        p.push(Call::DropSavepoint(e));
                    }
                    e += 1;
                } else {
                    p.push(Call::Savepoint(h));
                    h += 1;
                }
            }
            progs.push(p);
        }
        let np = rng.below(3) as usize;
        let prelude: Vec<PTx> = (0..np).map(|_| { let tb = 1 + rng.below(3); PTx { ops: (0..1 + rng.below(60)).map(|_| (tb, rng.below(100), Some(rng.below(1000)))).collect(), nondurable: false } }).collect();
        push(
            Scenario { id: 0, kind: format!("psp-rand-{nt}{}", if with_tables { "-tables" } else { "" }), nthreads: nt, progs, pre_savepoint: rng.chance(1, 4),
                       end: if i % 5 == 4 { 2 } else { 0 }, cache: caches[i % 3], sched_seed: rng.next_u64(), window: None, commit_gap: None,
                       pre_at: rng.below(np as u64 + 1) as usize, readers: if rng.chance(1, 3) { vec![np] } else { vec![] }, prelude, park: None, drop_split: None, ..Default::default() },
            &mut v,
        );
    }
    gen_contention(rng, thorough, &mut v);
    v
}

/// CONTENTION families: one thread is stopped INSIDE (or right before) a lock-protected section of the shared transaction's
/// state -- freed_pages (get_mut / entry / extract_if / multimap remove / MultimapValue::drop / delete_table), tables
/// (open_table, list_tables, list_multimap_tables, stats, a failing open_table, ephemeral_savepoint, delete_table), system_tables
/// (persistent_savepoint, stats, list_persistent_savepoints) -- while the other threads run complete calls; a thread that needs
/// the held mutex must block until the holder has left the section. Every table exists beforehand.
fn gen_contention(rng: &mut Rng, thorough: bool, v: &mut Vec<Scenario>) {
    let push = |s: Scenario, v: &mut Vec<Scenario>| {
        let mut s = s;
        s.id = v.len();
        v.push(s);
    };
    // thread t works on the normal table 10(t+1) and the multimap table 100 + 10(t+1); tables 70.. / 170.. are only deleted
    // or opened with the wrong type
    let nt = |t: usize| 10 * (t as u64 + 1);
    let mt = |t: usize| 100 + 10 * (t as u64 + 1);
    let op = |rng: &mut Rng, kind: OpKind, t: usize, rows: u64| -> Vec<Call> {
        let tb = if kind.is_mm() { mt(t) } else { nt(t) };
        let (a, b) = match kind {
            OpKind::RetainOut | OpKind::ExtractRange => {
                let a = rng.below(rows);
                (a, a + 1 + rng.below(40))
            }
            OpKind::MmInsert => (rng.below(8), 5000 + rng.below(1000)),
            OpKind::MmRemove => {
                let k = [0u64, 3, 1][rng.below(3) as usize];
                (k, if k == 1 { 2 } else { 100 + rng.below(rows / 2) })
            }
            OpKind::MmRemoveAll => ([0u64, 3, 2][rng.below(3) as usize], 0),
            _ => (rng.below(rows + 10), 7000 + rng.below(1000)),
        };
        vec![Call::Open(tb), Call::Op(kind, tb, a, b), Call::Close(tb)]
    };
    // ---- directed: the holder (thread 0) is stopped after k grants of its call, the victim (thread 1) runs its whole program
    // (holder program, index of the call it is stopped in, grants)
    let holders = |rng: &mut Rng, rows: u64| -> Vec<(&'static str, Vec<Call>, usize, usize)> {
        let mut h: Vec<(&'static str, Vec<Call>, usize, usize)> = vec![];
        for (name, kind, kmax) in [("getmut", OpKind::GetMut, 5), ("entry", OpKind::EntryModify, 5), ("extract", OpKind::ExtractRange, 5), ("insert", OpKind::Insert, 2),
                                   ("retain", OpKind::RetainOut, 2), ("mmremove", OpKind::MmRemove, 5), ("mmremoveall", OpKind::MmRemoveAll, 4), ("mminsert", OpKind::MmInsert, 4)] {
            h.push((name, op(rng, kind, 0, rows), 1, kmax));
        }
        h.push(("delete", vec![Call::Delete(70)], 0, 7));
        h.push(("mmdelete", vec![Call::Delete(170)], 0, 7));
        h.push(("open", vec![Call::Open(nt(0)), Call::Close(nt(0))], 0, 5));
        h.push(("list", vec![Call::Hold(HoldKind::ListTables, 0)], 0, 2));
        h.push(("listmm", vec![Call::Hold(HoldKind::ListMultimap, 0)], 0, 2));
        h.push(("stats", vec![Call::Hold(HoldKind::Stats, 0)], 0, 4));
        h.push(("failopen", vec![Call::Hold(HoldKind::FailOpen, 176)], 0, 2));
        h.push(("listpsp", vec![Call::Hold(HoldKind::ListPsp, 0)], 0, 2));
        h.push(("esp", vec![Call::Savepoint(1)], 0, 8));
        h.push(("psp", vec![Call::Savepoint(500)], 0, 11));
        h
    };
    let victims = |rng: &mut Rng, rows: u64| -> Vec<(&'static str, Vec<Call>)> {
        let mut w: Vec<(&'static str, Vec<Call>)> = vec![];
        for (name, kind) in [("insert", OpKind::Insert), ("remove", OpKind::Remove), ("popfirst", OpKind::PopFirst), ("poplast", OpKind::PopLast), ("retain", OpKind::RetainOut),
                             ("getmut", OpKind::GetMut), ("entry", OpKind::EntryModify), ("orinsert", OpKind::EntryOrInsert), ("extract", OpKind::ExtractRange),
                             ("mminsert", OpKind::MmInsert), ("mmremove", OpKind::MmRemove), ("mmremoveall", OpKind::MmRemoveAll)] {
            w.push((name, op(rng, kind, 1, rows)));
        }
        w.push(("delete", vec![Call::Delete(72)]));
        w.push(("esp", vec![Call::Savepoint(2)]));
        w.push(("psp", vec![Call::Savepoint(501)]));
        w.push(("list", vec![Call::Hold(HoldKind::ListTables, 0)]));
        w.push(("stats", vec![Call::Hold(HoldKind::Stats, 0)]));
        w.push(("listpsp", vec![Call::Hold(HoldKind::ListPsp, 0), Call::Savepoint(3)]));
        w
    };
    let mut i = 0usize;
    for rows in [60u64, 420] {
        let hs = holders(rng, rows);
        for (hname, hprog, pcall, kmax) in &hs {
            for k in 1..=*kmax {
                let ws = victims(rng, rows);
                // a clean transaction's tables mutex held by a call that does not dirty it: savepoint requests are always among the victims
                let clean_holder = matches!(*hname, "list" | "listmm" | "stats" | "failopen" | "esp" | "psp" | "listpsp");
                for (j, (wname, wprog)) in ws.iter().enumerate() {
                    let always = (clean_holder && matches!(*wname, "esp" | "psp")) || (!clean_holder && matches!(*wname, "insert" | "remove") && rows == 60);
                    if !(thorough || always || (i + j + k) % 5 == 0) {
                        continue;
                    }
                    if *hname == "open" && matches!(*wname, "esp" | "psp") && false {
                        continue;
                    }
                    let end = if (i + j) % 9 == 7 { 1 } else if (i + j) % 9 == 8 { 2 } else { 0 };
                    // a non-durable commit cannot persist a savepoint
                    let end = if end == 1 && (hprog.iter().chain(wprog.iter()).any(|c| matches!(c, Call::Savepoint(h) if is_persistent(*h)))) { 0 } else { end };
                    push(
                        Scenario { kind: format!("ctn-park-{hname}-k{k}-{wname}-r{rows}"), nthreads: 2, progs: vec![hprog.clone(), wprog.clone()], end, cache: 1 << 20,
                                   sched_seed: rng.next_u64(), pre_at: usize::MAX, park: Some((0, k)), park_call: *pcall, contend: true, all_exist: Some(rows), ..Default::default() },
                        v,
                    );
                }
                i += 1;
            }
        }
    }
    // ---- savepoint eligibility: 3-4 threads ask for savepoints / list / stat / fail to open on a CLEAN transaction, one of them
    // stopped inside its section; sometimes a thread that dirties the transaction (first open, delete)
    let nsp = if thorough { 900 } else { 110 };
    for i in 0..nsp {
        let n = 3 + (i % 2);
        let mut progs: Vec<Vec<Call>> = vec![];
        let mut e = 1u64;
        let mut h = 500u64;
        let dirtier = if i % 3 == 2 { Some(rng.below(n as u64) as usize) } else { None };
        for t in 0..n {
            if dirtier == Some(t) {
                progs.push(if rng.chance(1, 2) { vec![Call::Open(nt(t)), Call::Close(nt(t))] } else { vec![Call::Delete(70)] });
                continue;
            }
            let mut p = vec![];
            for _ in 0..rng.range(1, 2) {
                match rng.below(8) {
                    0 | 1 => {
                        p.push(Call::Savepoint(e));
                        e += 1;
                    }
                    2 | 3 => {
                        p.push(Call::Savepoint(h));
                        h += 1;
                    }
                    4 => p.push(Call::Hold(HoldKind::ListTables, 0)),
                    5 => p.push(Call::Hold(HoldKind::Stats, 0)),
                    6 => p.push(Call::Hold(HoldKind::FailOpen, if rng.chance(1, 2) { 176 } else { 76 })),
                    _ => p.push(Call::Hold(if rng.chance(1, 2) { HoldKind::ListMultimap } else { HoldKind::ListPsp }, 0)),
                }
            }
            progs.push(p);
        }
        if !progs.iter().flatten().any(|c| matches!(c, Call::Savepoint(_))) {
            progs[0].push(Call::Savepoint(e));
        }
        // the tables the failing opens / the delete name must exist
        let park = if i % 4 != 3 { Some((rng.below(n as u64) as usize, 1 + rng.below(6) as usize)) } else { None };
        push(
            Scenario { kind: format!("ctn-sp-{n}{}", if dirtier.is_some() { "-dirty" } else { "-clean" }), nthreads: n, progs, end: if i % 7 == 6 { 2 } else { 0 }, cache: 1 << 20,
                       sched_seed: rng.next_u64(), pre_at: usize::MAX, park, pre_savepoint: i % 5 == 4, contend: true, all_exist: Some(60), ..Default::default() },
            v,
        );
    }
    // ---- random: 2-3 table threads with operations of every kind, sometimes a savepoint / holder thread; any thread may be
    // chosen at any stop, also one whose next step needs a held mutex
    let nrand = if thorough { 1500 } else { 130 };
    for i in 0..nrand {
        let ntab = 2 + (i % 2);
        let rows = [60u64, 150, 420][i % 3];
        let mut progs: Vec<Vec<Call>> = vec![];
        for t in 0..ntab {
            let mut p = vec![];
            let mm = rng.chance(1, 3);
            let tb = if mm { mt(t) } else { nt(t) };
            p.push(Call::Open(tb));
            for _ in 0..rng.range(2, 5) {
                let kinds: &[OpKind] = if mm { &[OpKind::MmInsert, OpKind::MmRemove, OpKind::MmRemoveAll] } else { &OpKind::ALL[..9] };
                let kind = *rng.pick(kinds);
                let c = op(rng, kind, t, rows);
                p.push(c[1].clone());
            }
            p.push(Call::Close(tb));
            if rng.chance(1, 6) {
                p.push(Call::Delete(70 + 2 * t as u64));
            }
            progs.push(p);
        }
        if rng.chance(1, 2) {
            let mut p = vec![];
            for _ in 0..rng.range(1, 3) {
                match rng.below(5) {
                    0 => p.push(Call::Savepoint(1 + p.len() as u64)),
                    1 => p.push(Call::Hold(HoldKind::Stats, 0)),
                    2 => p.push(Call::Hold(HoldKind::ListTables, 0)),
                    3 => p.push(Call::Hold(HoldKind::FailOpen, 176)),
                    _ => p.push(Call::Savepoint(500 + p.len() as u64)),
                }
            }
            progs.push(p);
        }
        let n = progs.len();
        let persistent = progs.iter().flatten().any(|c| matches!(c, Call::Savepoint(h) if is_persistent(*h)));
        push(
            Scenario { kind: format!("ctn-rand-{n}-r{rows}"), nthreads: n, progs, end: if i % 6 == 5 && !persistent { 1 } else if i % 11 == 10 { 2 } else { 0 }, cache: [1usize << 20, 0, 2048][i % 3],
                       sched_seed: rng.next_u64(), pre_at: usize::MAX, pre_savepoint: i % 7 == 3, contend: true, all_exist: Some(rows), ..Default::default() },
            v,
        );
    }
    // ---- the holder stopped at its k-th backend read (cache size 0): also sections that have no pause point inside
    let nread = if thorough { 800 } else { 90 };
    for i in 0..nread {
        let rows = [60u64, 420][i % 2];
        let hs = holders(rng, rows);
        let ws = victims(rng, rows);
        let (hname, hprog, pcall, _) = rng.pick(&hs).clone();
        let (wname, wprog) = rng.pick(&ws).clone();
        let k = 1 + rng.below(14) as usize;
        push(
            Scenario { kind: format!("ctn-read-{hname}-k{k}-{wname}-r{rows}"), nthreads: 2, progs: vec![hprog, wprog], end: 0, cache: 0, sched_seed: rng.next_u64(), pre_at: usize::MAX,
                       park: Some((0, k)), park_call: pcall, contend: true, park_reads: true, all_exist: Some(rows), ..Default::default() },
            v,
        );
    }
}

fn main() {
    rv_harness::silence_panics();
    let seed = seed_from_env();
    let mut rng = Rng::new(seed);
    let args: Vec<String> = std::env::args().collect();
    let only: Option<usize> = args.get(1).and_then(|s| s.parse().ok());
    let scenarios = gen_scenarios(&mut rng, tier_is_thorough());
    let ctl = Controller::new(4, ALPHABET);
    ctl.install();
    let _w = ctl.spawn_workers();
    let os = OsThreads::find(4);
    let mut cases = std::io::BufWriter::new(std::fs::File::create("cases.txt").unwrap());
    let mut imp = std::io::BufWriter::new(std::fs::File::create("impl.txt").unwrap());
    // the contention families' logs (new calls, blocked / woken grants): kept apart from the logs the extracted model replays
    let mut ccases = std::io::BufWriter::new(std::fs::File::create("ctn_cases.txt").unwrap());
    let mut cimp = std::io::BufWriter::new(std::fs::File::create("ctn_impl.txt").unwrap());
    let mut orc = std::io::BufWriter::new(std::fs::File::create("oracle.txt").unwrap());
    // what a scenario does outside the shared transaction's thread phase (for replays; cases.txt keeps the model's format)
    let mut hst = std::io::BufWriter::new(std::fs::File::create("history.txt").unwrap());
    // commit-gap scenarios: input and implementation outcome for the model Conc/CommitGap.v
    let mut cgc = std::io::BufWriter::new(std::fs::File::create("cg_cases.txt").unwrap());
    let mut cgi = std::io::BufWriter::new(std::fs::File::create("cg_impl.txt").unwrap());
    let (mut nint, mut nviol, mut steps) = (0usize, 0usize, 0usize);
    let mut distinct = BTreeSet::new();
    let mut kinds: BTreeMap<String, usize> = BTreeMap::new();
    let mut trk: BTreeMap<String, usize> = BTreeMap::new();
    let mut refused = 0usize;
    let mut run = 0usize;
    let mut nblocked = 0usize;
    for sc in &scenarios {
        if only.is_some() && only != Some(sc.id) {
            continue;
        }
        // development aid: C16_KIND=<prefix> runs the scenarios of one family only
        if let Ok(k) = std::env::var("C16_KIND") {
            if !sc.kind.starts_with(&k) {
                continue;
            }
        }
        std::fs::write("current.txt", format!("{}|{}", sc.id, sc.kind)).unwrap();
        // contention families: the programs run one thread after the other on an identical image first
        let mut ref_failed = None;
        let refout = if sc.contend {
            match rv_harness::catch(|| reference(sc, &ctl)).unwrap_or_else(|p| Err(format!("reference run panicked: {p}"))) {
                Ok(r) => Some(r),
                Err(e) => {
                    ref_failed = Some(e);
                    None
                }
            }
        } else {
            None
        };
        ctl.set_blocking(&alphabet_of(sc));
        let mut out = if sc.contend && refout.is_none() {
            Outcome { log: vec![], results: vec![], tracking: String::new(), dirty: false, violations: vec![], interleaved: false, digests: vec![], cg_case: None, cg_impl: None, freed_len: None, blocked_grants: 0 }
        } else {
            execute(sc, &ctl, &os, refout.as_ref())
        };
        if let Some(e) = ref_failed {
            out.violations.push(("c16-call-failed".into(), e));
        }
        ctl.set_blocking(ALPHABET);
        run += 1;
        nblocked += out.blocked_grants;
        steps += out.log.len();
        *kinds.entry(sc.kind.split('-').next().unwrap().to_string()).or_default() += 1;
        *trk.entry(out.tracking.clone()).or_default() += 1;
        refused += out.results.iter().filter(|r| r.ends_with("=dirty")).count();
        let progs: Vec<String> = sc.progs.iter().map(|p| p.iter().map(Call::text).collect::<Vec<_>>().join(",")).collect();
        match &refout {
            // the model's initial tables: rows k -> 1000 + k of each normal table, committed pages of every table (0: the catalog)
            Some(r) => writeln!(ccases, "{}|{}|{}|{}|{}|{}|{}", sc.id, sc.kind, u8::from(sc.pre_savepoint), sc.end, progs.join(";"), out.log.join(" "),
                                r.committed.iter().map(|(tb, c)| format!("{tb}:{}:{c}", r.rows.get(tb).copied().unwrap_or(0))).collect::<Vec<_>>().join(",")).unwrap(),
            None if sc.contend => {}
            None => writeln!(cases, "{}|{}|{}|{}|{}|{}", sc.id, sc.kind, u8::from(sc.pre_savepoint), sc.end, progs.join(";"), out.log.join(" ")).unwrap(),
        }
        if !sc.prelude.is_empty() || !sc.readers.is_empty() || sc.park.is_some() || sc.commit_gap.is_some() {
            let pre: Vec<String> = sc.prelude.iter().map(|t| format!("{}:{}", if t.nondurable { "N" } else { "D" },
                t.ops.iter().map(|(tb, k, v)| match v { Some(v) => format!("{tb}.{k}={v}"), None => format!("{tb}.{k}-") }).collect::<Vec<_>>().join(","))).collect();
            writeln!(hst, "{}|older_savepoint_before_transaction={} readers_begun_after_transactions={:?} savepoint_dropped_after_commit_grants={:?} parked_thread_grants={:?}|{}",
                sc.id, if sc.pre_savepoint { sc.pre_at.min(sc.prelude.len()).to_string() } else { "-".into() }, sc.readers, sc.commit_gap, sc.park, pre.join(" ; ")).unwrap();
        }
        let freed = if sc.contend { format!(" freed={}", out.freed_len.map(|n| n.to_string()).unwrap_or_else(|| "?".into())) } else { String::new() };
        if sc.contend {
            writeln!(cimp, "{}|{}|tracking={} dirty={}{freed}|{}", sc.id, out.results.join(" "), out.tracking, u8::from(out.dirty), out.digests.join(" ")).unwrap();
            if refout.is_none() {
                writeln!(ccases, "{}|{}|{}|{}|{}|{}|", sc.id, sc.kind, u8::from(sc.pre_savepoint), sc.end, progs.join(";"), out.log.join(" ")).unwrap();
            }
        } else {
            writeln!(imp, "{}|{}|tracking={} dirty={}{freed}|{}", sc.id, out.results.join(" "), out.tracking, u8::from(out.dirty), out.digests.join(" ")).unwrap();
        }
        if let (Some(c), Some(i)) = (&out.cg_case, &out.cg_impl) {
            writeln!(cgc, "{}|{}|{c}", sc.id, sc.kind).unwrap();
            writeln!(cgi, "{}|{i}", sc.id).unwrap();
            cgc.flush().unwrap();
            cgi.flush().unwrap();
        }
        if out.interleaved {
            nint += 1;
            distinct.insert(out.log.join(" "));
        }
        for (k, what) in &out.violations {
            nviol += 1;
            writeln!(orc, "V|{k}|{}|{what}", sc.id).unwrap();
        }
        cases.flush().unwrap();
        imp.flush().unwrap();
        ccases.flush().unwrap();
        cimp.flush().unwrap();
        orc.flush().unwrap();
        hst.flush().unwrap();
        if out.violations.iter().any(|(k, _)| k == "c16-hung" || (k == "c16-deadlock" && sc.contend)) {
            break;
        }
    }
    let _ = std::fs::remove_file("current.txt");
    println!(
        "scenarios={} executed={run} interleaved={nint} distinct_nontrivial={} steps={steps} violations={nviol} refused_savepoints={refused} kinds={kinds:?} tracking={trk:?} blocked_grants={nblocked}",
        scenarios.len(),
        distinct.len()
    );
    Controller::uninstall();
    ctl.shutdown();
    std::process::exit(0);
}
