//! C16 -- One write transaction may be used from many threads.
//!
//! 2-4 logical threads share ONE WriteTransaction. Each works on its own tables (normal and multimap):
//! open, insert/remove streams, close; another thread calls ephemeral_savepoint() and drops Savepoints.
//! The scheduler (rv_harness::conc) forces the interleaving at the H4 pause points inside open_table's
//! set_dirty and inside ephemeral_savepoint / Savepoint::drop. A grant that needs the transaction's
//! `tables` mutex is only given when `verif_tables_locked()` says it is free (the step model's guard), so
//! nothing ever blocks on an OS mutex and the run is a function of the seed.
//! Afterwards the transaction is committed (durable / non-durable) or aborted and the oracle checks:
//! per-table contents = that table's own stream, no page in two tables (H3 reach), tracking never off
//! while a savepoint is valid (H3 snapshot), every savepoint taken is restorable to exactly the state it
//! captured, page accounting (allocated = reachable + pending-free) and check_integrity.
//!
//!
//! History dimension (kinds cgapr-*, hist-*): whole transactions run before the shared one (tables 1..9, never
//! touched by the threads; durable and non-durable), the older savepoint (handle 900) is taken before any of
//! them, and read transactions are begun after chosen ones and stay live across the shared transaction's commit.
//! Right after the commit (readers and savepoints still live) the page accounting is evaluated (allocated =
//! reachable + pending-free, DATA_ALLOCATED names allocated pages only) and every reader must still see its snapshot.
//! Persistent savepoints (kinds psp-*, savepoint handles 500..899 = persistent_savepoint() calls): several threads
//! call persistent_savepoint() on the shared transaction; after the commit the ids must be distinct, and after a
//! reopen a new persistent savepoint must get an id nobody holds, and every listed savepoint must restore the state
//! it captured.
//!
//! output: cases.txt (log for the Coq model Conc/Shared.v), impl.txt (what the implementation did), oracle.txt

use redb::{Builder, Database, Durability, MultimapTable, MultimapTableDefinition, ReadableDatabase, ReadableMultimapTable,
           ReadableTable, ReadableTableMetadata, Savepoint, Table, TableDefinition, WriteTransaction};
use rv_harness::conc::{ConcBackend, Controller, Event, MemFile};
use rv_harness::{seed_from_env, tier_is_thorough, Rng};
use std::cell::RefCell;
use std::collections::{BTreeMap, BTreeSet};
use std::io::Write as _;
use std::sync::{Arc, Mutex};

/// while the commit runs on a worker: the sections of durable_commit and its epilogue
pub const COMMIT_ALPHABET: &[&str] = &[
    "T.oldest_live_read", "X.durable_commit.horizon", "T.oldest_savepoint", "M.commit.begin", "U.clear", "M.commit.publish",
    "T.clear_pending_nd", "T.invalidate_savepoints", "X.epilogue.horizon", "U.extend", "M.nd.publish", "T.reserve_id", "T.register_nd",
    "T.end_write", "T.dealloc_savepoint", "T.dealloc_read",
];

pub const ALPHABET: &[&str] = &[
    "X.set_dirty", "X.set_dirty.stored", "T.any_savepoint", "X.esp", "X.esp.locked", "T.register_read", "T.alloc_savepoint",
    "X.esp.unlocked", "M.get_data_root", "M.get_version", "T.dealloc_savepoint", "T.dealloc_read",
];

fn tname(tb: u64) -> String {
    format!("t{tb}")
}

thread_local! {
    // table handles live on the worker thread that opened them (a handle borrows the shared transaction)
    static TABLES: RefCell<BTreeMap<u64, Table<'static, u64, u64>>> = const { RefCell::new(BTreeMap::new()) };
    static MTABLES: RefCell<BTreeMap<u64, MultimapTable<'static, u64, u64>>> = const { RefCell::new(BTreeMap::new()) };
}

#[derive(Clone, Debug, PartialEq, Eq)]
enum Call {
    Open(u64),
    Put(u64, u64, u64),
    Del(u64, u64),
    Close(u64),
    Savepoint(u64),
    DropSavepoint(u64),
}

/// tables with id >= 100 are multimap tables
fn is_mm(tb: u64) -> bool {
    tb >= 100
}

/// savepoint handles 500..899 are created with persistent_savepoint() (the model sees the ephemeral_savepoint()
/// it starts with: the suffix that persists the record has no pause point of the alphabet)
fn is_persistent(h: u64) -> bool {
    (500..900).contains(&h)
}

impl Call {
    fn text(&self) -> String {
        match self {
            Call::Open(t) => format!("O{t}"),
            Call::Put(t, k, v) => format!("P{t}.{k}.{v}"),
            Call::Del(t, k) => format!("D{t}.{k}"),
            Call::Close(t) => format!("C{t}"),
            Call::Savepoint(h) => format!("S{h}"),
            Call::DropSavepoint(h) => format!("R{h}"),
        }
    }
    fn needs_mutex_at_entry(&self) -> bool {
        matches!(self, Call::Open(_) | Call::Close(_))
    }
}

struct Shared {
    /// the one write transaction, leaked for the duration of the threads' phase so that handles can borrow it
    tx: *const WriteTransaction,
    savepoints: Mutex<BTreeMap<u64, Savepoint>>,
    /// handle -> id returned by persistent_savepoint()
    persistent: Mutex<BTreeMap<u64, u64>>,
}
unsafe impl Send for Shared {}
unsafe impl Sync for Shared {}

impl Shared {
    fn tx(&self) -> &'static WriteTransaction {
        unsafe { &*self.tx }
    }
}

fn job(sh: Arc<Shared>, call: Call) -> Box<dyn FnOnce() -> String + Send> {
    Box::new(move || match call {
        Call::Open(tb) => {
            if is_mm(tb) {
                let def: MultimapTableDefinition<u64, u64> = MultimapTableDefinition::new(Box::leak(tname(tb).into_boxed_str()));
                match sh.tx().open_multimap_table(def) {
                    Ok(t) => {
                        MTABLES.with(|m| m.borrow_mut().insert(tb, t));
                        "ok".into()
                    }
                    Err(e) => format!("ERR({e})"),
                }
            } else {
                let def: TableDefinition<u64, u64> = TableDefinition::new(Box::leak(tname(tb).into_boxed_str()));
                match sh.tx().open_table(def) {
                    Ok(t) => {
                        TABLES.with(|m| m.borrow_mut().insert(tb, t));
                        "ok".into()
                    }
                    Err(e) => format!("ERR({e})"),
                }
            }
        }
        Call::Put(tb, k, v) => {
            if is_mm(tb) {
                MTABLES.with(|m| match m.borrow_mut().get_mut(&tb) {
                    Some(t) => t.insert(k, v).map(|_| "ok".to_string()).unwrap_or_else(|e| format!("ERR({e})")),
                    None => "ERR(not open)".into(),
                })
            } else {
                TABLES.with(|m| match m.borrow_mut().get_mut(&tb) {
                    Some(t) => t.insert(k, v).map(|_| "ok".to_string()).unwrap_or_else(|e| format!("ERR({e})")),
                    None => "ERR(not open)".into(),
                })
            }
        }
        Call::Del(tb, k) => {
            if is_mm(tb) {
                MTABLES.with(|m| match m.borrow_mut().get_mut(&tb) {
                    Some(t) => t.remove_all(k).map(|_| "ok".to_string()).unwrap_or_else(|e| format!("ERR({e})")),
                    None => "ERR(not open)".into(),
                })
            } else {
                TABLES.with(|m| match m.borrow_mut().get_mut(&tb) {
                    Some(t) => t.remove(k).map(|_| "ok".to_string()).unwrap_or_else(|e| format!("ERR({e})")),
                    None => "ERR(not open)".into(),
                })
            }
        }
        Call::Close(tb) => {
            let a = TABLES.with(|m| m.borrow_mut().remove(&tb)).is_some();
            let b = MTABLES.with(|m| m.borrow_mut().remove(&tb)).is_some();
            if a || b { "ok".into() } else { "ERR(not open)".into() }
        }
        Call::Savepoint(h) if is_persistent(h) => match sh.tx().persistent_savepoint() {
            Ok(id) => {
                sh.persistent.lock().unwrap().insert(h, id);
                "ok".into()
            }
            Err(redb::SavepointError::InvalidSavepoint) => "dirty".into(),
            Err(e) => format!("ERR({e})"),
        },
        Call::Savepoint(h) => match sh.tx().ephemeral_savepoint() {
            Ok(sp) => {
                sh.savepoints.lock().unwrap().insert(h, sp);
                "ok".into()
            }
            Err(redb::SavepointError::InvalidSavepoint) => "dirty".into(),
            Err(e) => format!("ERR({e})"),
        },
        Call::DropSavepoint(h) => {
            let sp = sh.savepoints.lock().unwrap().remove(&h);
            match sp {
                Some(sp) => {
                    drop(sp);
                    "ok".into()
                }
                None => "ERR(no savepoint)".into(),
            }
        }
    })
}

type Spec = BTreeMap<u64, BTreeMap<u64, u64>>;
type MSpec = BTreeMap<u64, BTreeMap<u64, BTreeSet<u64>>>;

/// one whole transaction of the history before the shared one (main thread): puts / deletes on tables 1..9
#[derive(Clone, Default)]
struct PTx {
    ops: Vec<(u64, u64, Option<u64>)>,
    nondurable: bool,
}

#[derive(Clone, Default)]
struct Scenario {
    id: usize,
    kind: String,
    nthreads: usize,
    progs: Vec<Vec<Call>>,
    /// savepoint (handle 900) taken by an earlier transaction and still valid
    pre_savepoint: bool,
    end: u8, // 0 durable commit, 1 non-durable commit, 2 abort
    cache: usize,
    sched_seed: u64,
    /// directed window: stop thread `a` after `k` grants, then let thread `b` run one call, then random
    window: Option<(usize, usize, usize)>,
    /// run the durable commit on a worker, stop it after this many grants and drop a savepoint there
    commit_gap: Option<usize>,
    /// whole transactions before the shared one
    prelude: Vec<PTx>,
    /// the older savepoint (handle 900) is taken before prelude[pre_at] (>= prelude.len(): right before the shared transaction)
    pre_at: usize,
    /// read transactions begun after this many prelude transactions, live until after the shared transaction ended
    readers: Vec<usize>,
    /// thread `a` gets `k` grants and then nothing until every other thread has finished its program
    park: Option<(usize, usize)>,
    /// inside the commit gap: the dropping thread gets `d` grants (entering the call included), then the committer `k`
    /// more, then the drop is finished (None: the whole drop runs at once)
    drop_split: Option<(usize, usize)>,
}

fn open_db(file: &Arc<MemFile>, cache: usize) -> Database {
    let mut b = Builder::new();
    b.verif_set_page_size(512);
    b.set_cache_size(cache);
    b.create_with_backend(ConcBackend { file: file.clone(), ctl: None }).expect("create")
}

fn read_all(db: &Database, tables: &BTreeSet<u64>) -> Result<(Spec, MSpec), String> {
    let rt = db.begin_read().map_err(|e| format!("begin_read: {e}"))?;
    read_all_rt(&rt, tables)
}

fn read_all_rt(rt: &redb::ReadTransaction, tables: &BTreeSet<u64>) -> Result<(Spec, MSpec), String> {
    let (mut s, mut m) = (Spec::new(), MSpec::new());
    for tb in tables {
        if is_mm(*tb) {
            let def: MultimapTableDefinition<u64, u64> = MultimapTableDefinition::new(Box::leak(tname(*tb).into_boxed_str()));
            match rt.open_multimap_table(def) {
                Ok(t) => {
                    let mut mm = BTreeMap::new();
                    for e in t.iter().map_err(|e| format!("{e}"))? {
                        let (k, vals) = e.map_err(|e| format!("{e}"))?;
                        let mut set = BTreeSet::new();
                        for v in vals {
                            set.insert(v.map_err(|e| format!("{e}"))?.value());
                        }
                        mm.insert(k.value(), set);
                    }
                    m.insert(*tb, mm);
                }
                Err(redb::TableError::TableDoesNotExist(_)) => {}
                Err(e) => return Err(format!("open {tb}: {e}")),
            }
        } else {
            let def: TableDefinition<u64, u64> = TableDefinition::new(Box::leak(tname(*tb).into_boxed_str()));
            match rt.open_table(def) {
                Ok(t) => {
                    let mut mp = BTreeMap::new();
                    for e in t.iter().map_err(|e| format!("{e}"))? {
                        let (k, v) = e.map_err(|e| format!("{e}"))?;
                        mp.insert(k.value(), v.value());
                    }
                    if t.len().map_err(|e| format!("{e}"))? != mp.len() as u64 {
                        return Err(format!("len of table {tb} disagrees with its scan"));
                    }
                    s.insert(*tb, mp);
                }
                Err(redb::TableError::TableDoesNotExist(_)) => {}
                Err(e) => return Err(format!("open {tb}: {e}")),
            }
        }
    }
    Ok((s, m))
}

/// C06's ownership equation (design.d/HOOKS.md): with no live write transaction every allocated order-0 page is
/// owned exactly once by: the latest roots' trees, the pending-free records, the in-memory freed records
fn accounting(db: &Database) -> Result<(), String> {
    let snap = db.verif_snapshot();
    let latest = snap.mem.latest().clone();
    let reach = db.verif_reach(latest.data_root, latest.system_root).map_err(|e| format!("reach: {e}"))?;
    let mut owned: BTreeMap<(u32, u32), &'static str> = BTreeMap::new();
    let mut add = |p: &redb::verif::VPage, who: &'static str| -> Result<(), String> {
        for i in p.order0_range() {
            if let Some(prev) = owned.insert((p.region, i), who) {
                return Err(format!("page {}/{i} is owned twice: {prev} and {who}", p.region));
            }
        }
        Ok(())
    };
    for p in &reach.data_pages {
        add(p, "data tree")?;
    }
    for p in &reach.system_pages {
        add(p, "system tree")?;
    }
    for l in reach.data_freed.iter().chain(reach.system_freed.iter()) {
        for p in &l.pages {
            add(p, "pending-free record")?;
        }
    }
    for (_, pages) in &snap.mem.unpersisted.data_freed {
        for p in pages {
            add(p, "in-memory freed record")?;
        }
    }
    let alloc: BTreeSet<(u32, u32)> = snap.mem.allocated_order0().into_iter().collect();
    for l in &reach.data_allocated {
        for p in &l.pages {
            for i in p.order0_range() {
                if !alloc.contains(&(p.region, i)) {
                    return Err(format!("DATA_ALLOCATED record of transaction {} names page {}/{i}, which is not allocated", l.transaction_id, p.region));
                }
            }
        }
    }
    let owned_set: BTreeSet<(u32, u32)> = owned.keys().copied().collect();
    let leaked: Vec<_> = alloc.difference(&owned_set).take(5).collect();
    let dangling: Vec<_> = owned_set.difference(&alloc).take(5).collect();
    if !leaked.is_empty() {
        return Err(format!("{} allocated pages have no owner (leak), e.g. {leaked:?}", alloc.difference(&owned_set).count()));
    }
    if !dangling.is_empty() {
        return Err(format!("owned pages are not allocated, e.g. {dangling:?}"));
    }
    Ok(())
}

/// what the history before the shared transaction left behind
#[derive(Default)]
struct Hist {
    /// tables 1..9 as of now / as of the older savepoint (handle 900)
    pspec: Spec,
    pspec_at_pre: Spec,
    tables: BTreeSet<u64>,
    file: Option<Arc<MemFile>>,
    /// (begun after this many prelude transactions, the reader, tables 1..9 as it must see them)
    readers: Vec<(usize, redb::ReadTransaction, Spec)>,
}

struct Outcome {
    log: Vec<String>,
    results: Vec<String>,
    tracking: String,
    dirty: bool,
    violations: Vec<(String, String)>,
    interleaved: bool,
    digests: Vec<String>,
    /// commit-gap scenarios: the committer's initial state + the grant log (input of the CommitGap model), and what the
    /// implementation's tracker and the two system tables look like right after the commit
    cg_case: Option<String>,
    cg_impl: Option<String>,
}

/// an order-0 page unit as one number (the CommitGap model's page ids)
fn unit(region: u32, i: u32) -> u64 {
    (u64::from(region) << 32) | u64::from(i)
}

fn units(pages: &[redb::verif::VPage]) -> Vec<u64> {
    let mut v = vec![];
    for p in pages {
        for i in p.order0_range() {
            v.push(unit(p.region, i));
        }
    }
    v
}

fn join_u(v: &[u64]) -> String {
    v.iter().map(|x| x.to_string()).collect::<Vec<_>>().join(".")
}

fn table_text(t: &BTreeMap<u64, Vec<u64>>) -> String {
    t.iter().map(|(k, v)| format!("{k}:{}", join_u(v))).collect::<Vec<_>>().join(";")
}

fn tracker_text(t: &redb::verif::VTracker) -> String {
    format!(
        "live={}|valid={}|pending={}",
        t.live_read_transactions.iter().map(|(a, b)| format!("{a}:{b}")).collect::<Vec<_>>().join(","),
        t.valid_savepoints.iter().map(|(a, b)| format!("{a}:{b}")).collect::<Vec<_>>().join(","),
        t.pending_non_durable_commits.iter().map(|(a, b)| format!("{a}:{b}")).collect::<Vec<_>>().join(",")
    )
}

/// DATA_FREED / DATA_ALLOCATED as the committed roots + the in-memory records of non-durable commits have them
fn system_tables_of(reach: &redb::verif::VReach, mem: &redb::verif::VMem) -> (BTreeMap<u64, Vec<u64>>, BTreeMap<u64, Vec<u64>>) {
    let (mut freed, mut alloc): (BTreeMap<u64, Vec<u64>>, BTreeMap<u64, Vec<u64>>) = (BTreeMap::new(), BTreeMap::new());
    for l in &reach.data_freed {
        freed.entry(l.transaction_id).or_default().extend(units(&l.pages));
    }
    for (t, pages) in &mem.unpersisted.data_freed {
        if !pages.is_empty() {
            freed.entry(*t).or_default().extend(units(pages));
        }
    }
    for l in &reach.data_allocated {
        alloc.entry(l.transaction_id).or_default().extend(units(&l.pages));
    }
    for (t, pages) in &mem.unpersisted.allocations {
        if !pages.is_empty() {
            alloc.entry(*t).or_default().extend(units(pages));
        }
    }
    (freed, alloc)
}

/// the state the committer of the shared transaction starts from (input of the model Conc/CommitGap.v)
fn cg_initial_state(tx: &WriteTransaction) -> Result<String, String> {
    let snap = tx.verif_snapshot();
    let latest = snap.db.mem.latest().clone();
    let reach = rv_harness::catch(|| tx.verif_reach(latest.data_root, latest.system_root)).map_err(|p| format!("reach panicked: {p}"))?.map_err(|e| format!("reach: {e}"))?;
    let (freed, alloc) = system_tables_of(&reach, &snap.db.mem);
    let allocated: Vec<u64> = snap.db.mem.allocated_order0().into_iter().map(|(r, i)| unit(r, i)).collect();
    let own_alloc = if format!("{:?}", snap.page_tracker.state) == "Track" { units(&snap.page_tracker.pages) } else { vec![] };
    Ok(format!(
        "txid={}|last={}|{}|freed={}|alloc={}|allocated={}|ownfreed={}|ownalloc={}",
        snap.transaction_id,
        latest.transaction_id,
        tracker_text(&snap.db.tracker),
        table_text(&freed),
        table_text(&alloc),
        join_u(&allocated),
        join_u(&units(&snap.data_freed_pages)),
        join_u(&own_alloc)
    ))
}

/// what is observable right after the commit: published id, tracker, keys of the two system tables
fn cg_final_state(db: &Database) -> Result<String, String> {
    let snap = db.verif_snapshot();
    let latest = snap.mem.latest().clone();
    let reach = rv_harness::catch(|| db.verif_reach(latest.data_root, latest.system_root)).map_err(|p| format!("reach panicked: {p}"))?.map_err(|e| format!("reach: {e}"))?;
    let (freed, alloc) = system_tables_of(&reach, &snap.mem);
    Ok(format!(
        "last={}|{}|freed={}|alloc={}",
        latest.transaction_id,
        tracker_text(&snap.tracker),
        freed.keys().map(|k| k.to_string()).collect::<Vec<_>>().join(","),
        alloc.keys().map(|k| k.to_string()).collect::<Vec<_>>().join(",")
    ))
}

fn execute(sc: &Scenario, ctl: &Arc<Controller>) -> Outcome {
    let mut out = Outcome { log: vec![], results: vec![], tracking: String::new(), dirty: false, violations: vec![], interleaved: false, digests: vec![], cg_case: None, cg_impl: None };
    let file = MemFile::new();
    let db = open_db(&file, sc.cache);
    let all_tables: BTreeSet<u64> = sc.progs.iter().flatten().filter_map(|c| if let Call::Open(t) = c { Some(*t) } else { None }).collect();
    // seed: every second table exists already with some rows
    let mut spec = Spec::new();
    let mut mspec = MSpec::new();
    {
        let tx = db.begin_write().unwrap();
        for tb in &all_tables {
            if tb % 2 == 0 {
                if is_mm(*tb) {
                    let def: MultimapTableDefinition<u64, u64> = MultimapTableDefinition::new(Box::leak(tname(*tb).into_boxed_str()));
                    let mut t = tx.open_multimap_table(def).unwrap();
                    for k in 0..6 {
                        t.insert(k, k + 1).unwrap();
                        mspec.entry(*tb).or_default().entry(k).or_default().insert(k + 1);
                    }
                } else {
                    let def: TableDefinition<u64, u64> = TableDefinition::new(Box::leak(tname(*tb).into_boxed_str()));
                    let mut t = tx.open_table(def).unwrap();
                    for k in 0..40 {
                        t.insert(k, 1000 + k).unwrap();
                        spec.entry(*tb).or_default().insert(k, 1000 + k);
                    }
                }
            }
        }
        tx.commit().unwrap();
    }
    // ---------------- the history before the shared transaction (main thread)
    let mut pre_sp: Option<Savepoint> = None;
    let mut hist = Hist { file: Some(file.clone()), ..Default::default() };
    for i in 0..=sc.prelude.len() {
        if sc.readers.contains(&i) {
            hist.readers.push((i, db.begin_read().unwrap(), hist.pspec.clone()));
        }
        if sc.pre_savepoint && pre_sp.is_none() && sc.pre_at.min(sc.prelude.len()) == i {
            let tx = db.begin_write().unwrap();
            pre_sp = Some(tx.ephemeral_savepoint().unwrap());
            tx.commit().unwrap();
            hist.pspec_at_pre = hist.pspec.clone();
        }
        let Some(ptx) = sc.prelude.get(i) else { break };
        let mut tx = db.begin_write().unwrap();
        if ptx.nondurable {
            tx.set_durability(Durability::None).unwrap();
        }
        {
            let mut open: BTreeMap<u64, Table<u64, u64>> = BTreeMap::new();
            for (tb, k, v) in &ptx.ops {
                if !open.contains_key(tb) {
                    let def: TableDefinition<u64, u64> = TableDefinition::new(Box::leak(tname(*tb).into_boxed_str()));
                    open.insert(*tb, tx.open_table(def).unwrap());
                }
                let t = open.get_mut(tb).unwrap();
                match v {
                    Some(v) => {
                        t.insert(k, v).unwrap();
                        hist.pspec.entry(*tb).or_default().insert(*k, *v);
                    }
                    None => {
                        t.remove(k).unwrap();
                        hist.pspec.entry(*tb).or_default().remove(k);
                    }
                }
            }
        }
        tx.commit().unwrap();
    }
    hist.tables = hist.pspec.keys().copied().collect();
    let base_spec = spec.clone();
    let base_mspec = mspec.clone();
    let tx = db.begin_write().unwrap();
    let txp: *const WriteTransaction = Box::into_raw(Box::new(tx));
    let sh = Arc::new(Shared { tx: txp, savepoints: Mutex::new(BTreeMap::new()), persistent: Mutex::new(BTreeMap::new()) });
    if let Some(sp) = pre_sp.take() {
        sh.savepoints.lock().unwrap().insert(900, sp);
    }
    // ---------------- the threads' phase
    let n = sc.nthreads;
    let mut pc = vec![0usize; n];
    let mut in_call: Vec<Option<Call>> = vec![None; n];
    let mut at: Vec<Option<String>> = vec![None; n];
    let mut rng = Rng::new(sc.sched_seed);
    let mut last: Option<usize> = None;
    let mut window = sc.window;
    let mut grants_of_a = 0usize;
    let mut hung = false;
    let mut absent: BTreeSet<u64> = BTreeSet::new();
    loop {
        let locked = sh.tx().verif_tables_locked();
        // a Savepoint that was refused (dirty transaction) leaves nothing to drop: such drops are not calls at all
        for t in 0..n {
            while in_call[t].is_none() && pc[t] < sc.progs[t].len() {
                match &sc.progs[t][pc[t]] {
                    Call::DropSavepoint(h) if absent.contains(h) => pc[t] += 1,
                    _ => break,
                }
            }
        }
        // who can be granted now (the step model's enabledness)
        let mut enabled = vec![];
        for t in 0..n {
            let runnable = match (&in_call[t], &at[t]) {
                (None, _) => pc[t] < sc.progs[t].len() && !(locked && sc.progs[t][pc[t]].needs_mutex_at_entry()),
                (Some(_), Some(p)) => !(locked && p == "X.esp"),
                (Some(_), None) => true,
            };
            if runnable {
                enabled.push(t);
            }
        }
        if enabled.is_empty() {
            if (0..n).any(|t| in_call[t].is_some() || pc[t] < sc.progs[t].len()) {
                out.violations.push(("c16-deadlock".into(), "no thread can be granted although work remains (tables mutex held by nobody who can run)".into()));
            }
            break;
        }
        // choose
        let others_done = |a: usize, in_call: &Vec<Option<Call>>, pc: &Vec<usize>| (0..n).all(|t| t == a || (in_call[t].is_none() && pc[t] >= sc.progs[t].len()));
        let t = match window {
            _ if sc.park.is_some() => {
                let (a, k) = sc.park.unwrap();
                let rest: Vec<usize> = enabled.iter().copied().filter(|t| *t != a).collect();
                if (grants_of_a < k || others_done(a, &in_call, &pc) || rest.is_empty()) && enabled.contains(&a) {
                    grants_of_a += 1;
                    a
                } else if rest.is_empty() {
                    *rng.pick(&enabled)
                } else if let Some(l) = last.filter(|l| rest.contains(l) && in_call[*l].is_some()) {
                    // the others run their calls one after the other (whole calls, random order)
                    l
                } else {
                    *rng.pick(&rest)
                }
            }
            Some((a, k, b)) => {
                if grants_of_a < k && enabled.contains(&a) {
                    a
                } else if enabled.contains(&b) && (in_call[b].is_some() || pc[b] < sc.progs[b].len()) && grants_of_a >= k {
                    // b runs one whole call (or as far as it can), then the window is over
                    if in_call[b].is_none() && pc[b] > 0 && last == Some(b) {
                        window = None;
                        *rng.pick(&enabled)
                    } else {
                        b
                    }
                } else {
                    window = None;
                    *rng.pick(&enabled)
                }
            }
            None => {
                // mostly continue the same thread a little, to get both long and short runs
                if let Some(l) = last {
                    if enabled.contains(&l) && rng.chance(1, 3) { l } else { *rng.pick(&enabled) }
                } else {
                    *rng.pick(&enabled)
                }
            }
        };
        if let Some((a, _, _)) = window {
            if t == a {
                grants_of_a += 1;
            }
        }
        if let Some(l) = last {
            if l != t && in_call[l].is_some() {
                out.interleaved = true;
            }
        }
        last = Some(t);
        let label;
        if in_call[t].is_none() {
            let call = sc.progs[t][pc[t]].clone();
            pc[t] += 1;
            label = format!("E{}", call.text());
            ctl.submit(t, job(sh.clone(), call.clone()));
            in_call[t] = Some(call);
            at[t] = None;
        } else {
            label = format!("@{}", at[t].clone().unwrap());
        }
        out.log.push(format!("{t}:{label}:{}", u8::from(locked)));
        match ctl.step(t) {
            Event::At(p) => at[t] = Some(p),
            Event::Done(r) => {
                let c = in_call[t].take().unwrap();
                at[t] = None;
                if r.starts_with("PANIC") || r.starts_with("ERR") {
                    out.violations.push(("c16-call-failed".into(), format!("thread {t} {}: {r}", c.text())));
                }
                out.results.push(format!("{t}:{}={r}", c.text()));
                if let (Call::Savepoint(h), "dirty") = (&c, r.as_str()) {
                    absent.insert(*h);
                }
                // the specification of each table: its own stream
                match (&c, r.as_str()) {
                    (Call::Put(tb, k, v), "ok") => {
                        if is_mm(*tb) {
                            mspec.entry(*tb).or_default().entry(*k).or_default().insert(*v);
                        } else {
                            spec.entry(*tb).or_default().insert(*k, *v);
                        }
                    }
                    (Call::Del(tb, k), "ok") => {
                        if is_mm(*tb) {
                            if let Some(m) = mspec.get_mut(tb) {
                                m.remove(k);
                            }
                        } else if let Some(m) = spec.get_mut(tb) {
                            m.remove(k);
                        }
                    }
                    (Call::Open(tb), "ok") => {
                        if is_mm(*tb) {
                            mspec.entry(*tb).or_default();
                        } else {
                            spec.entry(*tb).or_default();
                        }
                    }
                    _ => {}
                }
            }
            Event::Blocked => {}
            Event::Hung => {
                out.violations.push(("c16-hung".into(), format!("thread {t} ({label}): no event after a grant the step model allows")));
                hung = true;
                break;
            }
        }
    }
    if hung {
        return out;
    }
    // ---------------- state of the shared transaction before it ends (H3)
    let snap = sh.tx().verif_snapshot();
    out.tracking = format!("{:?}", snap.page_tracker.state);
    out.dirty = snap.dirty;
    let valid = snap.db.tracker.valid_savepoints.len();
    if valid > 0 && format!("{:?}", snap.page_tracker.state) != "Track" {
        out.violations.push((
            "c16-savepoint-untracked".into(),
            format!("{valid} savepoint(s) valid while the transaction's allocation tracking is {:?}: a restore could not free this transaction's pages", snap.page_tracker.state),
        ));
    }
    // ---------------- end of the transaction (main thread; all handles were closed by the programs)
    let mut tx = unsafe { *Box::from_raw(txp as *mut WriteTransaction) };
    if let Some(g) = sc.commit_gap {
        // the durable commit runs on worker 0 and is stopped between two of its lock-protected sections; a
        // Savepoint is dropped on worker 1 right there (the window the epilogue's horizon clamp exists for).
        // Every grant and the event it ended with is logged: the extracted CommitGap model replays them one by one.
        let initial = cg_initial_state(&tx);
        let victim: Option<(u64, (u64, u64))> = sh.savepoints.lock().unwrap().iter().next().map(|(h, sp)| {
            let r = sp.verif_record();
            (*h, (r.id, r.transaction_id))
        });
        ctl.set_blocking(COMMIT_ALPHABET);
        ctl.submit(0, Box::new(move || match tx.commit() {
            Ok(()) => "ok".into(),
            Err(e) => format!("ERR({e})"),
        }));
        let mut grants: Vec<String> = vec![];
        let mut done: Option<String> = None;
        let mut dropped: Option<String> = None;
        let mut drop_started = false;
        // one grant to thread t; false = stop (hung)
        let step = |t: usize, grants: &mut Vec<String>, done: &mut Option<String>, dropped: &mut Option<String>, out: &mut Outcome| -> bool {
            match ctl.step(t) {
                Event::At(p) => grants.push(format!("{t}>{p}")),
                Event::Done(r) => {
                    grants.push(format!("{t}>done"));
                    if t == 0 { *done = Some(r) } else { *dropped = Some(r) }
                }
                e => {
                    out.violations.push(("c16-hung".into(), format!("inside the commit gap, thread {t}: {e:?}")));
                    return false;
                }
            }
            true
        };
        for _ in 0..g {
            if done.is_some() {
                break;
            }
            if !step(0, &mut grants, &mut done, &mut dropped, &mut out) {
                return out;
            }
        }
        if let (Some((h, _)), None) = (victim, &done) {
            ctl.submit(1, job(sh.clone(), Call::DropSavepoint(h)));
            drop_started = true;
            let (d, k) = sc.drop_split.unwrap_or((usize::MAX, 0));
            let mut given = 0usize;
            while dropped.is_none() && given < d {
                if !step(1, &mut grants, &mut done, &mut dropped, &mut out) {
                    return out;
                }
                given += 1;
            }
            for _ in 0..k {
                if done.is_some() || dropped.is_some() {
                    break;
                }
                if !step(0, &mut grants, &mut done, &mut dropped, &mut out) {
                    return out;
                }
            }
            while dropped.is_none() {
                if !step(1, &mut grants, &mut done, &mut dropped, &mut out) {
                    return out;
                }
            }
            if dropped.as_deref() != Some("ok") {
                out.violations.push(("c16-call-failed".into(), format!("Savepoint drop inside the commit: {dropped:?}")));
            }
            out.results.push(format!("1:R{h}@commit-gap{g}=ok"));
        }
        while done.is_none() {
            if !step(0, &mut grants, &mut done, &mut dropped, &mut out) {
                return out;
            }
        }
        ctl.set_blocking(ALPHABET);
        if done.as_deref() != Some("ok") {
            out.violations.push(("c16-end-failed".into(), format!("commit: {done:?}")));
            return out;
        }
        match (initial, cg_final_state(&db)) {
            (Ok(i), Ok(f)) => {
                let drop_text = match (victim, drop_started) {
                    (Some((_, (id, t))), true) => format!("{id}:{t}"),
                    _ => String::new(),
                };
                out.cg_case = Some(format!("{i}|drop={drop_text}|grants={}", grants.join(" ")));
                out.cg_impl = Some(f);
            }
            (Err(e), _) | (_, Err(e)) => out.violations.push(("c16-snapshot-failed".into(), format!("commit gap: {e}"))),
        }
        return finish_checks(sc, db, sh, out, all_tables, spec, mspec, base_spec, base_mspec, hist);
    }
    let ended: Result<(), String> = rv_harness::catch(|| match sc.end {
        0 => tx.commit().map_err(|e| format!("commit: {e}")),
        1 => {
            tx.set_durability(Durability::None).map_err(|e| format!("{e}"))?;
            tx.commit().map_err(|e| format!("commit: {e}"))
        }
        _ => tx.abort().map_err(|e| format!("abort: {e}")),
    })
    .unwrap_or_else(|p| Err(format!("panic: {p}")));
    if let Err(e) = ended {
        out.violations.push(("c16-end-failed".into(), e));
        return out;
    }
    finish_checks(sc, db, sh, out, all_tables, spec, mspec, base_spec, base_mspec, hist)
}

/// Persistent savepoints created by the threads of the shared transaction: distinct ids, listed (or, after an abort,
/// gone), and after a reopen a new persistent savepoint gets an id nobody holds (C07's `c07_savepoint_ids_fresh` on
/// the implementation) and every listed savepoint restores what it captured. Leaves the reopened database in `slot`.
fn persistent_checks(sc: &Scenario, slot: &mut Option<Database>, file: &Arc<MemFile>, pids: &BTreeMap<u64, u64>, with_hist: &BTreeSet<u64>,
                     captured_ok: &dyn Fn(&Database, &str, bool) -> Result<(), String>) -> Result<(), (String, String)> {
    let un = |e: String| ("c16-savepoint-unusable".to_string(), e);
    let ids: Vec<u64> = pids.values().copied().collect();
    let mut sorted = ids.clone();
    sorted.sort_unstable();
    sorted.dedup();
    if sorted.len() != ids.len() {
        return Err(("c16-savepoint-id-reused".into(), format!("the persistent_savepoint() calls on the shared transaction returned ids {ids:?} (by handle {:?}): not distinct", pids.keys().collect::<Vec<_>>())));
    }
    let expect: Vec<u64> = if sc.end == 2 { vec![] } else { sorted.clone() };
    let list = |db: &Database| -> Result<Vec<u64>, (String, String)> {
        let tx = db.begin_write().map_err(|e| un(format!("begin_write: {e}")))?;
        let mut l: Vec<u64> = tx.list_persistent_savepoints().map_err(|e| un(format!("list_persistent_savepoints: {e}")))?.collect();
        tx.abort().map_err(|e| un(format!("abort: {e}")))?;
        l.sort_unstable();
        Ok(l)
    };
    let endname = ["commit", "non-durable commit", "abort"][sc.end as usize];
    let l = list(slot.as_ref().unwrap())?;
    if l != expect {
        return Err(("c16-savepoint-lost".into(), format!("after the {endname} list_persistent_savepoints() = {l:?}, the calls on the shared transaction returned {sorted:?}")));
    }
    let tr = slot.as_ref().unwrap().verif_snapshot().tracker;
    for id in &expect {
        if !tr.persistent_savepoints.contains(id) || !tr.valid_savepoints.iter().any(|(i, _)| i == id) {
            return Err(("c16-savepoint-lost".into(), format!("persistent savepoint {id} is not registered with the tracker after the {endname}: valid {:?} persistent {:?}", tr.valid_savepoints, tr.persistent_savepoints)));
        }
    }
    // ---- close and reopen
    drop(slot.take());
    *slot = Some(open_db(file, sc.cache));
    let db = slot.as_ref().unwrap();
    let l = list(db)?;
    if l != expect {
        return Err(("c16-savepoint-lost".into(), format!("after reopening list_persistent_savepoints() = {l:?}, expected {expect:?}")));
    }
    let tx = db.begin_write().map_err(|e| un(format!("begin_write: {e}")))?;
    let new_id = tx.persistent_savepoint().map_err(|e| un(format!("persistent_savepoint after reopening: {e}")))?;
    if expect.contains(&new_id) {
        return Err(("c16-savepoint-id-reused".into(), format!("after reopening persistent_savepoint() handed out id {new_id}, which a live savepoint holds (live: {expect:?})")));
    }
    let mut l2: Vec<u64> = tx.list_persistent_savepoints().map_err(|e| un(format!("list_persistent_savepoints: {e}")))?.collect();
    l2.sort_unstable();
    let mut want = expect.clone();
    want.push(new_id);
    want.sort_unstable();
    if l2 != want {
        return Err(("c16-savepoint-lost".into(), format!("a new persistent savepoint {new_id} changed the listed savepoints from {expect:?} to {l2:?}")));
    }
    tx.commit().map_err(|e| un(format!("commit: {e}")))?;
    // ---- the new one captured the present state; then the old ones from the newest to the oldest (a restore deletes the newer ones)
    let before = read_all(db, with_hist).map_err(un)?;
    let restore = |id: u64| -> Result<(), (String, String)> {
        let mut tx = db.begin_write().map_err(|e| un(format!("begin_write: {e}")))?;
        let sp = tx.get_persistent_savepoint(id).map_err(|e| un(format!("get_persistent_savepoint({id}): {e}")))?;
        tx.restore_savepoint(&sp).map_err(|e| un(format!("restore of persistent savepoint {id}: {e}")))?;
        drop(sp);
        tx.commit().map_err(|e| un(format!("commit after restoring persistent savepoint {id}: {e}")))
    };
    restore(new_id)?;
    if read_all(db, with_hist).map_err(un)? != before {
        return Err(un(format!("restoring persistent savepoint {new_id}, taken in the state the database is in, changed the tables")));
    }
    for id in expect.iter().rev() {
        restore(*id)?;
        captured_ok(db, &format!("persistent savepoint {id}"), false).map_err(un)?;
    }
    let l = list(db)?;
    let tx = db.begin_write().map_err(|e| un(format!("begin_write: {e}")))?;
    for id in l {
        tx.delete_persistent_savepoint(id).map_err(|e| un(format!("delete_persistent_savepoint({id}): {e}")))?;
    }
    tx.commit().map_err(|e| un(format!("commit: {e}")))?;
    Ok(())
}

#[allow(clippy::too_many_arguments)]
fn finish_checks(sc: &Scenario, mut db: Database, sh: Arc<Shared>, mut out: Outcome, all_tables: BTreeSet<u64>, spec: Spec, mspec: MSpec,
                 base_spec: Spec, base_mspec: MSpec, mut hist: Hist) -> Outcome {
    let endname = ["commit", "non-durable commit", "abort"][sc.end as usize];
    // ---------------- right after the end of the shared transaction, everything that pins pages still live
    match rv_harness::catch(|| accounting(&db)) {
        Ok(Ok(())) => {}
        Ok(Err(e)) => out.violations.push(("c16-accounting".into(), format!("right after the {endname} (live: {} read transaction(s), {} savepoint(s)): {e}", hist.readers.len(), sh.savepoints.lock().unwrap().len()))),
        Err(p) => out.violations.push(("c16-accounting".into(), format!("right after the {endname}: walking the committed state panicked: {p}"))),
    }
    // every read transaction begun during the history still sees exactly its snapshot
    let with_hist: BTreeSet<u64> = all_tables.union(&hist.tables).copied().collect();
    for (at, rt, pspec) in hist.readers.drain(..) {
        let r: Result<(), String> = rv_harness::catch(|| {
            let (got, mgot) = read_all_rt(&rt, &with_hist)?;
            for tb in &with_hist {
                let ok = if is_mm(*tb) {
                    mgot.get(tb).cloned().unwrap_or_default() == base_mspec.get(tb).cloned().unwrap_or_default()
                } else if hist.tables.contains(tb) {
                    got.get(tb).cloned().unwrap_or_default() == pspec.get(tb).cloned().unwrap_or_default()
                } else {
                    got.get(tb).cloned().unwrap_or_default() == base_spec.get(tb).cloned().unwrap_or_default()
                };
                if !ok {
                    return Err(format!("table {tb} is not what it was when the read transaction began"));
                }
            }
            Ok(())
        })
        .unwrap_or_else(|p| Err(format!("panic: {p}")));
        if let Err(e) = r {
            out.violations.push(("c16-reader-snapshot".into(), format!("read transaction begun after {at} transaction(s) of the history, read after the shared transaction's {endname}: {e}")));
        }
        drop(rt);
    }
    let (want, mwant) = if sc.end == 2 { (base_spec.clone(), base_mspec.clone()) } else { (spec.clone(), mspec.clone()) };
    match read_all(&db, &all_tables) {
        Ok((got, mgot)) => {
            for tb in &all_tables {
                if !is_mm(*tb) && sc.end != 2 {
                    let m = got.get(tb).cloned().unwrap_or_default();
                    let mut h: u64 = 0;
                    for (k, v) in &m {
                        h = (h * 31 + k * 1009 + v) % 1_000_000_007;
                    }
                    out.digests.push(format!("T{tb}={}:{h}", m.len()));
                }
            }
            for tb in &all_tables {
                if is_mm(*tb) {
                    let a = mgot.get(tb).cloned().unwrap_or_default();
                    let b: BTreeMap<u64, BTreeSet<u64>> = mwant.get(tb).cloned().unwrap_or_default().into_iter().filter(|(_, s)| !s.is_empty()).collect();
                    if a != b {
                        out.violations.push(("c16-table-contents".into(), format!("multimap table {tb} after the {}: {a:?}, its own stream gives {b:?}", ["commit", "non-durable commit", "abort"][sc.end as usize])));
                    }
                } else {
                    let a = got.get(tb).cloned().unwrap_or_default();
                    let b = want.get(tb).cloned().unwrap_or_default();
                    if a != b {
                        out.violations.push(("c16-table-contents".into(), format!("table {tb} after the {}: {} rows, its own stream gives {} rows (first difference at key {:?})",
                            ["commit", "non-durable commit", "abort"][sc.end as usize], a.len(), b.len(),
                            a.iter().zip(b.iter()).find(|(x, y)| x != y).map(|(x, _)| *x.0))));
                    }
                }
            }
        }
        Err(e) => out.violations.push(("c16-table-contents".into(), format!("reading back failed: {e}"))),
    }
    if !hist.tables.is_empty() {
        match read_all(&db, &hist.tables) {
            Ok((got, _)) => {
                for tb in &hist.tables {
                    if got.get(tb).cloned().unwrap_or_default() != hist.pspec.get(tb).cloned().unwrap_or_default() {
                        out.violations.push(("c16-table-contents".into(), format!("table {tb} (written by earlier transactions only) changed across the shared transaction's {endname}")));
                    }
                }
            }
            Err(e) => out.violations.push(("c16-table-contents".into(), format!("reading back failed: {e}"))),
        }
    }
    // no page in two tables
    {
        let s2 = db.verif_snapshot();
        match rv_harness::catch(|| db.verif_reach(s2.mem.latest().data_root, None)) {
            Ok(Ok(reach)) => {
                let mut owner: BTreeMap<(u32, u32), String> = BTreeMap::new();
                for t in &reach.data_tables {
                    for p in &t.pages {
                        for i in p.order0_range() {
                            if let Some(o) = owner.insert((p.region, i), t.name.clone()) {
                                out.violations.push(("c16-shared-page".into(), format!("page {}/{i} belongs to table {o} and to table {}", p.region, t.name)));
                            }
                        }
                    }
                }
            }
            Ok(Err(e)) => out.violations.push(("c16-shared-page".into(), format!("walking the committed trees failed: {e}"))),
            Err(p) => out.violations.push(("c16-shared-page".into(), format!("walking the committed trees panicked: {p}"))),
        }
    }
    // every savepoint that exists must be usable: restore gives exactly the state it captured (= before this transaction)
    // what a savepoint captured: the threads' tables as they were before the shared transaction, tables 1..9 as
    // they were when it was taken (handle 900: inside the history; every other one: in the shared transaction)
    let captured_ok = |db: &Database, what: &str, old: bool| -> Result<(), String> {
        let (got, mgot) = read_all(db, &with_hist)?;
        for tb in &with_hist {
            let ok = if is_mm(*tb) {
                mgot.get(tb).cloned().unwrap_or_default() == base_mspec.get(tb).cloned().unwrap_or_default()
            } else if hist.tables.contains(tb) {
                got.get(tb).cloned().unwrap_or_default() == if old { &hist.pspec_at_pre } else { &hist.pspec }.get(tb).cloned().unwrap_or_default()
            } else {
                got.get(tb).cloned().unwrap_or_default() == base_spec.get(tb).cloned().unwrap_or_default()
            };
            if !ok {
                return Err(format!("after restoring {what} table {tb} is not what the savepoint captured"));
            }
        }
        Ok(())
    };
    let pids: BTreeMap<u64, u64> = sh.persistent.lock().unwrap().clone();
    if !pids.is_empty() {
        // the ephemeral ones are not restored in these scenarios (a restore would delete the persistent ones taken after it)
        sh.savepoints.lock().unwrap().clear();
        let file = hist.file.clone().unwrap();
        let mut slot = Some(db);
        let r: Result<(), (String, String)> = rv_harness::catch(|| persistent_checks(sc, &mut slot, &file, &pids, &with_hist, &captured_ok))
            .unwrap_or_else(|p| Err(("c16-savepoint-unusable".to_string(), format!("panic: {p}"))));
        if let Err(ke) = r {
            out.violations.push(ke);
        }
        match slot {
            Some(d) => db = d,
            None => return out,
        }
    }
    let handles: Vec<u64> = sh.savepoints.lock().unwrap().keys().copied().collect();
    for h in handles {
        let sp = sh.savepoints.lock().unwrap().remove(&h).unwrap();
        let r: Result<(), String> = rv_harness::catch(|| {
            let mut tx = db.begin_write().map_err(|e| format!("begin_write: {e}"))?;
            tx.restore_savepoint(&sp).map_err(|e| format!("restore_savepoint: {e}"))?;
            tx.commit().map_err(|e| format!("commit after restore: {e}"))?;
            captured_ok(&db, &format!("savepoint {h}"), h == 900)
        })
        .unwrap_or_else(|p| Err(format!("panic: {p}")));
        drop(sp);
        if let Err(e) = r {
            out.violations.push(("c16-savepoint-unusable".into(), e));
        }
        // later savepoints are invalidated by the restore: drop them
        sh.savepoints.lock().unwrap().clear();
        break;
    }
    sh.savepoints.lock().unwrap().clear();
    // page accounting after two empty durable commits have flushed every pending free
    let acc: Result<(), String> = rv_harness::catch(|| {
        for _ in 0..2 {
            let tx = db.begin_write().map_err(|e| format!("begin_write: {e}"))?;
            tx.commit().map_err(|e| format!("commit: {e}"))?;
        }
        accounting(&db)
    })
    .unwrap_or_else(|p| Err(format!("panic: {p}")));
    if let Err(e) = acc {
        out.violations.push(("c16-accounting".into(), e));
    }
    match rv_harness::catch(|| db.check_integrity()) {
        Ok(Ok(true)) => {}
        Ok(Ok(false)) => out.violations.push(("c16-integrity".into(), "check_integrity() = false".into())),
        Ok(Err(e)) => out.violations.push(("c16-integrity".into(), format!("check_integrity: {e}"))),
        Err(p) => out.violations.push(("c16-integrity".into(), format!("check_integrity panicked: {p}"))),
    }
    out
}

fn gen_scenarios(rng: &mut Rng, thorough: bool) -> Vec<Scenario> {
    let mut v = vec![];
    let mut id = 0;
    let push = |s: Scenario, v: &mut Vec<Scenario>| {
        let mut s = s;
        s.id = v.len();
        v.push(s);
    };
    let _ = &mut id;
    // table streams for a worker thread: tables base+0 (normal) and 100+base (multimap)
    let stream = |rng: &mut Rng, t: usize, nops: usize| -> Vec<Call> {
        let mut p = vec![];
        let tabs = [10 * (t as u64 + 1) + rng.below(2), 100 + 10 * (t as u64 + 1) + rng.below(2)];
        for tb in tabs {
            p.push(Call::Open(tb));
            for _ in 0..nops {
                let k = rng.below(60);
                if rng.chance(3, 4) {
                    p.push(Call::Put(tb, k, rng.below(1000)));
                } else {
                    p.push(Call::Del(tb, k));
                }
            }
            p.push(Call::Close(tb));
        }
        p
    };
    let caches = [1usize << 20, 0, 2048];
    // ---- directed windows: the savepoint thread stopped after k grants, a first table-open on another thread; and the reverse
    for pre in [false, true] {
        for end in 0..3u8 {
            for k in 0..=9usize {
                for rev in [false, true] {
                    let mut progs = vec![stream(rng, 0, 6), vec![Call::Savepoint(1), Call::DropSavepoint(1), Call::Savepoint(2)]];
                    if pre {
                        progs[1].insert(1, Call::DropSavepoint(900));
                    }
                    let window = if rev { (0usize, k.min(4), 1usize) } else { (1usize, k, 0usize) };
                    push(
                        Scenario { id: 0, kind: format!("win-{}-{}-k{k}-{}", if pre { "pre" } else { "nopre" }, end, if rev { "open" } else { "esp" }),
                                   nthreads: 2, progs, pre_savepoint: pre, end, cache: caches[(k + end as usize) % 3],
                                   sched_seed: rng.next_u64(), window: Some(window), commit_gap: None, pre_at: usize::MAX, ..Default::default() },
                        &mut v,
                    );
                }
            }
        }
    }
    // ---- a Savepoint dropped inside the durable commit (between the DATA_ALLOCATED purge and the epilogue's horizon ...)
    for pre in [false, true] {
        for g in 0..=18usize {
            let progs = vec![stream(rng, 0, 10), if pre { vec![] } else { vec![Call::Savepoint(1)] }];
            push(
                Scenario { id: 0, kind: format!("cgap-{}-g{g}", if pre { "pre" } else { "own" }), nthreads: 2, progs, pre_savepoint: pre, end: 0,
                           cache: caches[g % 3], sched_seed: rng.next_u64(), window: Some((1, 20, 0)), commit_gap: Some(g), pre_at: usize::MAX, ..Default::default() },
                &mut v,
            );
        }
    }
    // ---- random: 2-4 threads, last one does savepoint calls
    let nrand = if thorough { 3000 } else { 300 };
    for i in 0..nrand {
        let nt = 2 + (i % 3);
        let mut progs = vec![];
        for t in 0..nt - 1 {
            let nops = 3 + rng.below(8) as usize;
            progs.push(stream(rng, t, nops));
        }
        let pre = rng.chance(1, 3);
        let mut sp = vec![];
        let mut live: Vec<u64> = if pre { vec![900] } else { vec![] };
        let mut next = 1;
        for _ in 0..rng.range(1, 5) {
            if !live.is_empty() && rng.chance(1, 2) {
                let j = rng.below(live.len() as u64) as usize;
                sp.push(Call::DropSavepoint(live.remove(j)));
            } else {
                sp.push(Call::Savepoint(next));
                live.push(next);
                next += 1;
            }
        }
        progs.push(sp);
        push(
            Scenario { id: 0, kind: format!("rand-{nt}"), nthreads: nt, progs, pre_savepoint: pre, end: (i % 3) as u8, cache: caches[i % 3],
                       sched_seed: rng.next_u64(), window: None, commit_gap: None, pre_at: usize::MAX, ..Default::default() },
            &mut v,
        );
    }
    // ---- history x live readers x commit gap: the older savepoint pins the state before T1 (allocates pages) and T2 (unlinks
    // them) or a later one; read transactions begun before / between / after them stay live; the savepoint is dropped in
    // every gap of the shared transaction's durable commit
    let alloc_free = |rng: &mut Rng, n: u64| -> Vec<PTx> {
        let tb = 1 + rng.below(3);
        let base = rng.below(1000);
        let t1 = PTx { ops: (0..n).map(|k| (tb, base + k, Some(rng.below(1000)))).collect(), nondurable: false };
        let keep = rng.below(3);
        let t2 = PTx { ops: (keep..n).map(|k| (tb, base + k, None)).collect(), nondurable: false };
        vec![t1, t2]
    };
    let reader_sets: [&[usize]; 5] = [&[2], &[1, 2], &[1], &[0], &[0, 2]];
    for pre_at in 0..3usize {
        for rs in reader_sets {
            for g in 0..=22usize {
                if thorough || (g + pre_at + rs.len()) % 2 == 0 || (3..=12).contains(&g) {
                    let prelude = alloc_free(rng, 150 + 50 * (g as u64 % 4));
                    let progs = vec![stream(rng, 0, 6), vec![]];
                    push(
                        Scenario { id: 0, kind: format!("cgapr-sp{pre_at}-r{}-g{g}", rs.iter().map(|x| x.to_string()).collect::<Vec<_>>().join("")), nthreads: 2, progs,
                                   pre_savepoint: true, end: 0, cache: caches[g % 3], sched_seed: rng.next_u64(), window: None, commit_gap: Some(g),
                                   prelude, pre_at, readers: rs.to_vec(), park: None, drop_split: None },
                        &mut v,
                    );
                }
            }
        }
    }
    // ---- the same history, the dropping thread stopped INSIDE Savepoint::drop: after d grants (2 = between its two tracker
    // sections, 3 = after the second pause point it passes, if it has not returned yet) the committer runs k more sections,
    // then the drop is finished
    let split_readers: [&[usize]; 3] = [&[2], &[1, 2], &[0]];
    for pre_at in 0..3usize {
        for rs in split_readers {
            for g in [1usize, 2, 3, 4, 8, 9, 10] {
                for (d, k) in [(2usize, 1usize), (2, 2), (2, 3), (2, 6), (3, 3)] {
                    if thorough || (g + pre_at + rs.len() + d + k) % 2 == 0 || g <= 3 {
                        let prelude = alloc_free(rng, 150 + 50 * (g as u64 % 4));
                        let progs = vec![stream(rng, 0, 6), vec![]];
                        push(
                            Scenario { id: 0, kind: format!("cgaps-sp{pre_at}-r{}-g{g}-d{d}-k{k}", rs.iter().map(|x| x.to_string()).collect::<Vec<_>>().join("")),
                                       nthreads: 2, progs, pre_savepoint: true, end: 0, cache: caches[g % 3], sched_seed: rng.next_u64(), window: None,
                                       commit_gap: Some(g), prelude, pre_at, readers: rs.to_vec(), park: None, drop_split: Some((d, k)) },
                            &mut v,
                        );
                    }
                }
            }
        }
    }
    // ---- random histories: 1-4 earlier transactions (durable / non-durable), older savepoint anywhere, readers anywhere,
    // threads with their own savepoints, any end, a savepoint dropped inside the commit or not
    let nhist = if thorough { 1500 } else { 120 };
    for i in 0..nhist {
        let np = rng.range(1, 4) as usize;
        let mut prelude = vec![];
        for _ in 0..np {
            if rng.chance(1, 3) {
                let n = 40 + rng.below(200);
                prelude.extend(alloc_free(rng, n));
            } else {
                let tb = 1 + rng.below(3);
                let nops = 1 + rng.below(120);
                let ops = (0..nops).map(|_| (tb, rng.below(300), if rng.chance(2, 3) { Some(rng.below(1000)) } else { None })).collect();
                prelude.push(PTx { ops, nondurable: rng.chance(1, 3) });
            }
        }
        let pre = rng.chance(3, 4);
        let pre_at = rng.below(prelude.len() as u64 + 1) as usize;
        let readers: Vec<usize> = (0..=prelude.len()).filter(|_| rng.chance(1, 3)).collect();
        let gap = if rng.chance(2, 3) { Some(rng.below(20) as usize) } else { None };
        let nt = 2 + (i % 2);
        let mut progs = vec![];
        for t in 0..nt - 1 {
            let nops = 3 + rng.below(8) as usize;
            progs.push(stream(rng, t, nops));
        }
        let mut sp = vec![];
        if !pre || rng.chance(1, 2) {
            sp.push(Call::Savepoint(1));
            if rng.chance(1, 3) {
                sp.push(Call::Savepoint(2));
            }
            if pre && rng.chance(1, 3) {
                sp.push(Call::DropSavepoint(900));
            }
        }
        progs.push(sp);
        let end = if gap.is_some() { 0 } else { (i % 3) as u8 };
        push(
            Scenario { id: 0, kind: format!("hist-{nt}-p{}-sp{}-r{}-{}", prelude.len(), if pre { pre_at.to_string() } else { "x".into() },
                                            readers.iter().map(|x| x.to_string()).collect::<Vec<_>>().join(""), gap.map(|g| format!("g{g}")).unwrap_or_else(|| format!("e{end}"))),
                       nthreads: nt, progs, pre_savepoint: pre, end, cache: caches[i % 3], sched_seed: rng.next_u64(),
                       window: if gap.is_some() { Some((nt - 1, 30, 0)) } else { None }, commit_gap: gap, prelude, pre_at, readers, park: None, drop_split: None },
            &mut v,
        );
    }
    // ---- persistent savepoints from several threads of the shared transaction. Directed: thread a is stopped after k grants
    // (inside persistent_savepoint(), before / after its id was allocated) until all the others have finished theirs
    for nsp in [3usize, 4] {
        for a in 0..nsp {
            for k in 1..=8usize {
                for end in [0u8, 2] {
                    if end == 2 && !(thorough || k == 6) {
                        continue;
                    }
                    let progs: Vec<Vec<Call>> = (0..nsp).map(|t| vec![Call::Savepoint(500 + t as u64)]).collect();
                    push(
                        Scenario { id: 0, kind: format!("psp-park-n{nsp}-a{a}-k{k}-e{end}"), nthreads: nsp, progs, pre_savepoint: (a + k) % 3 == 0, end,
                                   cache: caches[(a + k) % 3], sched_seed: rng.next_u64(), window: None, commit_gap: None, prelude: vec![], pre_at: usize::MAX,
                                   readers: vec![], park: Some((a, k)), drop_split: None },
                        &mut v,
                    );
                }
            }
        }
    }
    // random: 3-4 threads, 1-2 persistent (sometimes ephemeral) savepoints each, sometimes a table thread (first open = dirty: later ones refused)
    let npsp = if thorough { 1200 } else { 100 };
    for i in 0..npsp {
        let nt = 3 + (i % 2);
        let with_tables = rng.chance(1, 4);
        let mut progs = vec![];
        let mut h = 500u64;
        let mut e = 1u64;
        for t in 0..nt {
            if with_tables && t == 0 {
                let nops = 3 + rng.below(4) as usize;
                progs.push(stream(rng, 0, nops));
                continue;
            }
            let mut p = vec![];
            for _ in 0..rng.range(1, 2) {
                if rng.chance(1, 6) {
                    p.push(Call::Savepoint(e));
                    if rng.chance(1, 2) {
                        p.push(Call::DropSavepoint(e));
                    }
                    e += 1;
                } else {
                    p.push(Call::Savepoint(h));
                    h += 1;
                }
            }
            progs.push(p);
        }
        let np = rng.below(3) as usize;
        let prelude: Vec<PTx> = (0..np).map(|_| { let tb = 1 + rng.below(3); PTx { ops: (0..1 + rng.below(60)).map(|_| (tb, rng.below(100), Some(rng.below(1000)))).collect(), nondurable: false } }).collect();
        push(
            Scenario { id: 0, kind: format!("psp-rand-{nt}{}", if with_tables { "-tables" } else { "" }), nthreads: nt, progs, pre_savepoint: rng.chance(1, 4),
                       end: if i % 5 == 4 { 2 } else { 0 }, cache: caches[i % 3], sched_seed: rng.next_u64(), window: None, commit_gap: None,
                       pre_at: rng.below(np as u64 + 1) as usize, readers: if rng.chance(1, 3) { vec![np] } else { vec![] }, prelude, park: None, drop_split: None },
            &mut v,
        );
    }
    v
}

fn main() {
    rv_harness::silence_panics();
    let seed = seed_from_env();
    let mut rng = Rng::new(seed);
    let args: Vec<String> = std::env::args().collect();
    let only: Option<usize> = args.get(1).and_then(|s| s.parse().ok());
    let scenarios = gen_scenarios(&mut rng, tier_is_thorough());
    let ctl = Controller::new(4, ALPHABET);
    ctl.install();
    let _w = ctl.spawn_workers();
    let mut cases = std::io::BufWriter::new(std::fs::File::create("cases.txt").unwrap());
    let mut imp = std::io::BufWriter::new(std::fs::File::create("impl.txt").unwrap());
    let mut orc = std::io::BufWriter::new(std::fs::File::create("oracle.txt").unwrap());
    // what a scenario does outside the shared transaction's thread phase (for replays; cases.txt keeps the model's format)
    let mut hst = std::io::BufWriter::new(std::fs::File::create("history.txt").unwrap());
    // commit-gap scenarios: input and implementation outcome for the model Conc/CommitGap.v
    let mut cgc = std::io::BufWriter::new(std::fs::File::create("cg_cases.txt").unwrap());
    let mut cgi = std::io::BufWriter::new(std::fs::File::create("cg_impl.txt").unwrap());
    let (mut nint, mut nviol, mut steps) = (0usize, 0usize, 0usize);
    let mut distinct = BTreeSet::new();
    let mut kinds: BTreeMap<String, usize> = BTreeMap::new();
    let mut trk: BTreeMap<String, usize> = BTreeMap::new();
    let mut refused = 0usize;
    let mut run = 0usize;
    for sc in &scenarios {
        if only.is_some() && only != Some(sc.id) {
            continue;
        }
        std::fs::write("current.txt", format!("{}|{}", sc.id, sc.kind)).unwrap();
        let out = execute(sc, &ctl);
        run += 1;
        steps += out.log.len();
        *kinds.entry(sc.kind.split('-').next().unwrap().to_string()).or_default() += 1;
        *trk.entry(out.tracking.clone()).or_default() += 1;
        refused += out.results.iter().filter(|r| r.ends_with("=dirty")).count();
        let progs: Vec<String> = sc.progs.iter().map(|p| p.iter().map(Call::text).collect::<Vec<_>>().join(",")).collect();
        writeln!(cases, "{}|{}|{}|{}|{}|{}", sc.id, sc.kind, u8::from(sc.pre_savepoint), sc.end, progs.join(";"), out.log.join(" ")).unwrap();
        if !sc.prelude.is_empty() || !sc.readers.is_empty() || sc.park.is_some() || sc.commit_gap.is_some() {
            let pre: Vec<String> = sc.prelude.iter().map(|t| format!("{}:{}", if t.nondurable { "N" } else { "D" },
                t.ops.iter().map(|(tb, k, v)| match v { Some(v) => format!("{tb}.{k}={v}"), None => format!("{tb}.{k}-") }).collect::<Vec<_>>().join(","))).collect();
            writeln!(hst, "{}|older_savepoint_before_transaction={} readers_begun_after_transactions={:?} savepoint_dropped_after_commit_grants={:?} parked_thread_grants={:?}|{}",
                sc.id, if sc.pre_savepoint { sc.pre_at.min(sc.prelude.len()).to_string() } else { "-".into() }, sc.readers, sc.commit_gap, sc.park, pre.join(" ; ")).unwrap();
        }
        writeln!(imp, "{}|{}|tracking={} dirty={}|{}", sc.id, out.results.join(" "), out.tracking, u8::from(out.dirty), out.digests.join(" ")).unwrap();
        if let (Some(c), Some(i)) = (&out.cg_case, &out.cg_impl) {
            writeln!(cgc, "{}|{}|{c}", sc.id, sc.kind).unwrap();
            writeln!(cgi, "{}|{i}", sc.id).unwrap();
            cgc.flush().unwrap();
            cgi.flush().unwrap();
        }
        if out.interleaved {
            nint += 1;
            distinct.insert(out.log.join(" "));
        }
        for (k, what) in &out.violations {
            nviol += 1;
            writeln!(orc, "V|{k}|{}|{what}", sc.id).unwrap();
        }
        cases.flush().unwrap();
        imp.flush().unwrap();
        orc.flush().unwrap();
        hst.flush().unwrap();
        if out.violations.iter().any(|(k, _)| k == "c16-hung") {
            break;
        }
    }
    let _ = std::fs::remove_file("current.txt");
    println!(
        "scenarios={} executed={run} interleaved={nint} distinct_nontrivial={} steps={steps} violations={nviol} refused_savepoints={refused} kinds={kinds:?} tracking={trk:?}",
        scenarios.len(),
        distinct.len()
    );
    Controller::uninstall();
    ctl.shutdown();
    std::process::exit(0);
}
