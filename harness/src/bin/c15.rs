//! C15 harness: run Value::as_bytes / from_bytes, Key::compare (both argument orders), Key::separator,
//! Key::min_encoded_key, Value::fixed_width and btree_base::branch_separator of the REAL crate on
//! generated pairs of values of many monomorphised key types (every constructor, two nesting levels).
//!
//! usage: c15 <n_pairs_per_type> [focus-type-desc|-] [random|exhaustive|replay <a> <b> ...]
//! writes into the cwd (one line per case in all three, see ocaml/c15_driver.ml for the syntax)
//!   cases.txt   T <tid> <type> | C <tid> <a> <b>            the VALUES (the model computes from these)
//!   impl.txt    what the implementation returned (compared with the model line by line)
//!   implx.txt   extra facts about the implementation's outputs for the direct oracle (S3)
//! stdout: cases=<n> distinct_nontrivial=<n> markers=<k=v,...> types=<n>
use redb::{Key, Value};
use rv_harness::{Rng, catch, hex, seed_from_env, silence_panics, tier_is_thorough};
use std::cmp::Ordering;
use std::collections::{BTreeMap, HashSet};
use std::fmt::Write as _;
use std::marker::PhantomData;

// ------------------------------------------------------------------ generic values

/// A value of any built-in key type. The derived `Ord` IS the value order: integers numerically,
/// false < true, chars by scalar value, strings/bytes lexicographically, None < Some, lists
/// lexicographically (std semantics of each Rust type).
#[derive(Clone, Debug, PartialEq, Eq, PartialOrd, Ord, Hash)]
enum V {
    Unit,
    Bool(bool),
    Char(char),
    U(u128),
    I(i128),
    Str(String),
    Bytes(Vec<u8>),
    None_,
    Some_(Box<V>),
    List(Vec<V>),
}

fn show(v: &V, s: &mut String) {
    match v {
        V::Unit => s.push('u'),
        V::Bool(b) => s.push(if *b { 'T' } else { 'F' }),
        V::Char(c) => write!(s, "c{:x}", *c as u32).unwrap(),
        V::U(x) => write!(s, "n{x:x}").unwrap(),
        V::I(x) => {
            if *x < 0 {
                write!(s, "i-{:x}", x.unsigned_abs()).unwrap()
            } else {
                write!(s, "i{x:x}").unwrap()
            }
        }
        V::Str(x) => {
            s.push_str("s[");
            for (i, c) in x.chars().enumerate() {
                if i > 0 {
                    s.push('.');
                }
                write!(s, "{:x}", c as u32).unwrap();
            }
            s.push(']');
        }
        V::Bytes(b) => {
            s.push_str("x[");
            for x in b {
                write!(s, "{x:02x}").unwrap();
            }
            s.push(']');
        }
        V::None_ => s.push('N'),
        V::Some_(x) => {
            s.push('S');
            show(x, s);
        }
        V::List(l) => {
            s.push_str("L[");
            for (i, x) in l.iter().enumerate() {
                if i > 0 {
                    s.push(',');
                }
                show(x, s);
            }
            s.push(']');
        }
    }
}

fn shown(v: &V) -> String {
    let mut s = String::new();
    show(v, &mut s);
    s
}

/// inverse of `show` (replay mode)
fn parse_v(s: &[u8], pos: &mut usize) -> V {
    fn hexrun(s: &[u8], pos: &mut usize) -> String {
        let st = *pos;
        while *pos < s.len() && (s[*pos] as char).is_ascii_hexdigit() && !(s[*pos] as char).is_ascii_uppercase() {
            *pos += 1;
        }
        String::from_utf8(s[st..*pos].to_vec()).unwrap()
    }
    let c = s[*pos] as char;
    *pos += 1;
    match c {
        'u' => V::Unit,
        'T' => V::Bool(true),
        'F' => V::Bool(false),
        'c' => V::Char(char::from_u32(u32::from_str_radix(&hexrun(s, pos), 16).unwrap()).unwrap()),
        'n' => V::U(u128::from_str_radix(&hexrun(s, pos), 16).unwrap()),
        'i' => {
            let neg = s[*pos] == b'-';
            if neg {
                *pos += 1;
            }
            let m = u128::from_str_radix(&hexrun(s, pos), 16).unwrap();
            V::I(if neg { (m as i128).wrapping_neg() } else { m as i128 })
        }
        's' => {
            *pos += 1; // [
            let mut out = String::new();
            while s[*pos] != b']' {
                if s[*pos] == b'.' {
                    *pos += 1;
                }
                out.push(char::from_u32(u32::from_str_radix(&hexrun(s, pos), 16).unwrap()).unwrap());
            }
            *pos += 1;
            V::Str(out)
        }
        'x' => {
            *pos += 1;
            let h = hexrun(s, pos);
            *pos += 1;
            V::Bytes(if h.is_empty() { vec![] } else { rv_harness::unhex(&h) })
        }
        'N' => V::None_,
        'S' => V::Some_(Box::new(parse_v(s, pos))),
        'L' => {
            *pos += 1;
            let mut l = Vec::new();
            while s[*pos] != b']' {
                if s[*pos] == b',' {
                    *pos += 1;
                }
                l.push(parse_v(s, pos));
            }
            *pos += 1;
            V::List(l)
        }
        _ => panic!("bad value syntax"),
    }
}

// ------------------------------------------------------------------ the type universe

trait Ty: 'static {
    type K: Key + 'static;
    fn desc() -> String;
    /// a random value; `big` allows long strings / byte strings (varint and offset boundaries)
    fn rand(r: &mut Rng, big: bool) -> V;
    /// a value close to `v`: equal, adjacent, sharing a prefix, differing late, ...
    fn near(r: &mut Rng, v: &V) -> V;
    fn to_native<'a>(v: &'a V) -> <Self::K as Value>::SelfType<'a>;
    fn from_native<'a>(x: &<Self::K as Value>::SelfType<'a>) -> V;
}

// ---- integers
fn rand_uint(r: &mut Rng, bits: u32) -> u128 {
    let mask = if bits == 128 { u128::MAX } else { (1u128 << bits) - 1 };
    let wide = ((r.next_u64() as u128) << 64) | r.next_u64() as u128;
    (match r.below(7) {
        0 => 0,
        1 => mask,
        2 => r.below(300) as u128,
        3 => 1u128 << r.below(bits as u64),
        4 => (1u128 << r.below(bits as u64)).wrapping_sub(1),
        5 => mask >> 1, // signed max / the sign boundary
        _ => wide,
    }) & mask
}
fn near_uint(r: &mut Rng, x: u128, bits: u32) -> u128 {
    let mask = if bits == 128 { u128::MAX } else { (1u128 << bits) - 1 };
    (match r.below(6) {
        0 => x,
        1 => x.wrapping_add(1),
        2 => x.wrapping_sub(1),
        3 => x ^ (1u128 << r.below(bits as u64)),
        4 => x.swap_bytes() >> (128 - bits), // same bytes, other significance
        _ => rand_uint(r, bits),
    }) & mask
}
fn sext(x: u128, bits: u32) -> i128 {
    if bits == 128 { x as i128 } else { ((x << (128 - bits)) as i128) >> (128 - bits) }
}
fn trunc(x: i128, bits: u32) -> u128 {
    if bits == 128 { x as u128 } else { (x as u128) & ((1u128 << bits) - 1) }
}

macro_rules! uint_ty {
    ($name:ident, $t:ty, $desc:expr) => {
        struct $name;
        impl Ty for $name {
            type K = $t;
            fn desc() -> String {
                $desc.into()
            }
            fn rand(r: &mut Rng, _big: bool) -> V {
                V::U(rand_uint(r, <$t>::BITS))
            }
            fn near(r: &mut Rng, v: &V) -> V {
                let V::U(x) = v else { panic!() };
                V::U(near_uint(r, *x, <$t>::BITS))
            }
            fn to_native<'a>(v: &'a V) -> $t {
                let V::U(x) = v else { panic!() };
                *x as $t
            }
            fn from_native<'a>(x: &$t) -> V {
                V::U(*x as u128)
            }
        }
    };
}
macro_rules! sint_ty {
    ($name:ident, $t:ty, $desc:expr) => {
        struct $name;
        impl Ty for $name {
            type K = $t;
            fn desc() -> String {
                $desc.into()
            }
            fn rand(r: &mut Rng, _big: bool) -> V {
                V::I(sext(rand_uint(r, <$t>::BITS), <$t>::BITS))
            }
            fn near(r: &mut Rng, v: &V) -> V {
                let V::I(x) = v else { panic!() };
                if r.chance(1, 6) {
                    return V::I(sext(trunc(x.wrapping_neg(), <$t>::BITS), <$t>::BITS));
                }
                V::I(sext(near_uint(r, trunc(*x, <$t>::BITS), <$t>::BITS), <$t>::BITS))
            }
            fn to_native<'a>(v: &'a V) -> $t {
                let V::I(x) = v else { panic!() };
                *x as $t
            }
            fn from_native<'a>(x: &$t) -> V {
                V::I(*x as i128)
            }
        }
    };
}
uint_ty!(U8, u8, "u8");
uint_ty!(U16, u16, "u16");
uint_ty!(U32, u32, "u32");
uint_ty!(U64, u64, "u64");
uint_ty!(U128, u128, "u128");
sint_ty!(I8, i8, "i8");
sint_ty!(I16, i16, "i16");
sint_ty!(I32, i32, "i32");
sint_ty!(I64, i64, "i64");
sint_ty!(I128, i128, "i128");

// ---- unit, bool, char
struct Unit;
impl Ty for Unit {
    type K = ();
    fn desc() -> String {
        "unit".into()
    }
    fn rand(_r: &mut Rng, _big: bool) -> V {
        V::Unit
    }
    fn near(_r: &mut Rng, _v: &V) -> V {
        V::Unit
    }
    fn to_native<'a>(_v: &'a V) {}
    fn from_native<'a>(_x: &()) -> V {
        V::Unit
    }
}
struct Bool;
impl Ty for Bool {
    type K = bool;
    fn desc() -> String {
        "bool".into()
    }
    fn rand(r: &mut Rng, _big: bool) -> V {
        V::Bool(r.chance(1, 2))
    }
    fn near(r: &mut Rng, v: &V) -> V {
        let V::Bool(b) = v else { panic!() };
        V::Bool(if r.chance(1, 2) { *b } else { !*b })
    }
    fn to_native<'a>(v: &'a V) -> bool {
        let V::Bool(b) = v else { panic!() };
        *b
    }
    fn from_native<'a>(x: &bool) -> V {
        V::Bool(*x)
    }
}

/// scalars covering the four UTF-8 lengths, their boundaries, the surrogate gap and the extremes
const CHARS: &[char] = &[
    '\u{0}', '\u{1}', 'a', 'b', 'z', '\u{7f}', '\u{80}', '\u{e9}', '\u{ea}', '\u{7ff}', '\u{800}', '\u{801}',
    '\u{d7ff}', '\u{e000}', '\u{fffd}', '\u{ffff}', '\u{10000}', '\u{10001}', '\u{1d11e}', '\u{1d11f}',
    '\u{10fffe}', '\u{10ffff}',
];
fn rand_char(r: &mut Rng) -> char {
    if r.chance(3, 4) {
        *r.pick(CHARS)
    } else {
        loop {
            if let Some(c) = char::from_u32(r.below(0x11_0000) as u32) {
                return c;
            }
        }
    }
}
fn near_char(r: &mut Rng, c: char) -> char {
    let x = c as u32;
    let cand = match r.below(6) {
        0 => x,
        1 => x.wrapping_add(1),
        2 => x.wrapping_sub(1),
        3 => x ^ (1 << r.below(21)),
        4 => x ^ (1 << r.below(6)), // same lead byte(s), other last continuation byte
        _ => rand_char(r) as u32,
    };
    char::from_u32(cand).unwrap_or(if cand < 0xE000 { '\u{d7ff}' } else { '\u{e000}' })
}
struct Char;
impl Ty for Char {
    type K = char;
    fn desc() -> String {
        "char".into()
    }
    fn rand(r: &mut Rng, _big: bool) -> V {
        V::Char(rand_char(r))
    }
    fn near(r: &mut Rng, v: &V) -> V {
        let V::Char(c) = v else { panic!() };
        V::Char(near_char(r, *c))
    }
    fn to_native<'a>(v: &'a V) -> char {
        let V::Char(c) = v else { panic!() };
        *c
    }
    fn from_native<'a>(x: &char) -> V {
        V::Char(*x)
    }
}

// ---- strings and byte strings
const BIG_LENS: &[usize] = &[252, 253, 254, 255, 256, 300, 65534, 65535, 65536, 65537];
fn rand_len(r: &mut Rng, big: bool) -> usize {
    if big && r.chance(1, 2) {
        // the varint escapes (254 / 255) of tuple headers; the huge ones rarely
        if r.chance(1, 8) { *r.pick(BIG_LENS) } else { *r.pick(&BIG_LENS[..6]) }
    } else {
        *r.pick(&[0usize, 0, 1, 1, 2, 2, 3, 4, 5, 7, 10, 17])
    }
}
fn rand_chars(r: &mut Rng, big: bool) -> Vec<char> {
    let len = rand_len(r, big);
    if len > 100 {
        // long: mostly one byte chars so that the BYTE length lands on the boundary
        let c = *r.pick(&['a', 'b', '\u{0}']);
        let mut v = vec![c; len];
        if r.chance(1, 2) {
            let i = r.below(len as u64) as usize;
            v[i] = rand_char(r);
        }
        v
    } else {
        (0..len).map(|_| rand_char(r)).collect()
    }
}
fn near_chars(r: &mut Rng, a: &[char]) -> Vec<char> {
    let mut b: Vec<char> = a.to_vec();
    match r.below(8) {
        0 => {}
        1 => {
            // common prefix of every length: change the char at a random position, keep the tail
            if !b.is_empty() {
                let i = r.below(b.len() as u64) as usize;
                b[i] = near_char(r, b[i]);
            }
        }
        2 => {
            // common prefix, then diverge and drop / replace the tail
            let k = r.below(b.len() as u64 + 1) as usize;
            b.truncate(k);
            b.extend(rand_chars(r, false));
        }
        3 => b.extend(rand_chars(r, false)), // a is a prefix of b
        4 => {
            let k = r.below(b.len() as u64 + 1) as usize; // b is a prefix of a
            b.truncate(k);
        }
        5 => {
            // first difference inside a multi-byte character, long tails on both sides
            if !b.is_empty() {
                let i = r.below(b.len() as u64) as usize;
                let x = b[i] as u32;
                b[i] = char::from_u32(x ^ 1).unwrap_or(b[i]);
                let extra = r.below(4) as usize;
                for _ in 0..extra {
                    b.push(rand_char(r));
                }
            }
        }
        6 => {
            if !b.is_empty() {
                let i = r.below(b.len() as u64) as usize;
                b.remove(i);
            }
        }
        _ => {
            let i = r.below(b.len() as u64 + 1) as usize;
            b.insert(i, rand_char(r));
        }
    }
    b
}
const BYTE_ALPHABET: [u8; 7] = [0, 1, 0x7f, 0x80, 0xc3, 0xfe, 0xff];
fn rand_byte(r: &mut Rng) -> u8 {
    if r.chance(3, 4) { *r.pick(&BYTE_ALPHABET) } else { r.next_u64() as u8 }
}
fn rand_bytes(r: &mut Rng, big: bool) -> Vec<u8> {
    let len = rand_len(r, big);
    if len > 100 {
        let c = rand_byte(r);
        let mut v = vec![c; len];
        if r.chance(1, 2) {
            let i = r.below(len as u64) as usize;
            v[i] = rand_byte(r);
        }
        v
    } else {
        (0..len).map(|_| rand_byte(r)).collect()
    }
}
fn near_bytes(r: &mut Rng, a: &[u8]) -> Vec<u8> {
    let mut b = a.to_vec();
    match r.below(7) {
        0 => {}
        1 => {
            if !b.is_empty() {
                let i = r.below(b.len() as u64) as usize;
                b[i] = match r.below(3) {
                    0 => b[i].wrapping_add(1),
                    1 => b[i].wrapping_sub(1),
                    _ => rand_byte(r),
                };
            }
        }
        2 => {
            let k = r.below(b.len() as u64 + 1) as usize;
            b.truncate(k);
            b.extend(rand_bytes(r, false));
        }
        3 => b.extend(rand_bytes(r, false)),
        4 => {
            let k = r.below(b.len() as u64 + 1) as usize;
            b.truncate(k);
        }
        5 => {
            if !b.is_empty() {
                let i = r.below(b.len() as u64) as usize;
                b.remove(i);
            }
        }
        _ => {
            let i = r.below(b.len() as u64 + 1) as usize;
            b.insert(i, rand_byte(r));
        }
    }
    b
}

struct Str;
impl Ty for Str {
    type K = &'static str;
    fn desc() -> String {
        "str".into()
    }
    fn rand(r: &mut Rng, big: bool) -> V {
        V::Str(rand_chars(r, big).into_iter().collect())
    }
    fn near(r: &mut Rng, v: &V) -> V {
        let V::Str(s) = v else { panic!() };
        let cs: Vec<char> = s.chars().collect();
        V::Str(near_chars(r, &cs).into_iter().collect())
    }
    fn to_native<'a>(v: &'a V) -> &'a str {
        let V::Str(s) = v else { panic!() };
        s.as_str()
    }
    fn from_native<'a>(x: &&'a str) -> V {
        V::Str((*x).to_string())
    }
}
struct StrOwned;
impl Ty for StrOwned {
    type K = String;
    fn desc() -> String {
        "string".into()
    }
    fn rand(r: &mut Rng, big: bool) -> V {
        Str::rand(r, big)
    }
    fn near(r: &mut Rng, v: &V) -> V {
        Str::near(r, v)
    }
    fn to_native<'a>(v: &'a V) -> String {
        let V::Str(s) = v else { panic!() };
        s.clone()
    }
    fn from_native<'a>(x: &String) -> V {
        V::Str(x.clone())
    }
}
struct Bytes;
impl Ty for Bytes {
    type K = &'static [u8];
    fn desc() -> String {
        "bytes".into()
    }
    fn rand(r: &mut Rng, big: bool) -> V {
        V::Bytes(rand_bytes(r, big))
    }
    fn near(r: &mut Rng, v: &V) -> V {
        let V::Bytes(b) = v else { panic!() };
        V::Bytes(near_bytes(r, b))
    }
    fn to_native<'a>(v: &'a V) -> &'a [u8] {
        let V::Bytes(b) = v else { panic!() };
        b.as_slice()
    }
    fn from_native<'a>(x: &&'a [u8]) -> V {
        V::Bytes(x.to_vec())
    }
}
struct Fb<const N: usize>;
impl<const N: usize> Ty for Fb<N> {
    type K = &'static [u8; N];
    fn desc() -> String {
        format!("fb{N}")
    }
    fn rand(r: &mut Rng, _big: bool) -> V {
        V::Bytes((0..N).map(|_| rand_byte(r)).collect())
    }
    fn near(r: &mut Rng, v: &V) -> V {
        let V::Bytes(b) = v else { panic!() };
        let mut b = b.clone();
        if N > 0 && r.chance(4, 5) {
            let i = r.below(N as u64) as usize;
            b[i] = match r.below(3) {
                0 => b[i].wrapping_add(1),
                1 => b[i].wrapping_sub(1),
                _ => rand_byte(r),
            };
        }
        V::Bytes(b)
    }
    fn to_native<'a>(v: &'a V) -> &'a [u8; N] {
        let V::Bytes(b) = v else { panic!() };
        b.as_slice().try_into().unwrap()
    }
    fn from_native<'a>(x: &&'a [u8; N]) -> V {
        V::Bytes(x.to_vec())
    }
}

// ---- Option<T>
struct Opt<T>(PhantomData<T>);
impl<T: Ty> Ty for Opt<T> {
    type K = Option<T::K>;
    fn desc() -> String {
        format!("opt({})", T::desc())
    }
    fn rand(r: &mut Rng, big: bool) -> V {
        if r.chance(1, 4) { V::None_ } else { V::Some_(Box::new(T::rand(r, big))) }
    }
    fn near(r: &mut Rng, v: &V) -> V {
        match v {
            V::None_ => {
                if r.chance(1, 2) { V::None_ } else { V::Some_(Box::new(T::rand(r, false))) }
            }
            V::Some_(x) => {
                if r.chance(1, 6) { V::None_ } else { V::Some_(Box::new(T::near(r, x))) }
            }
            _ => panic!(),
        }
    }
    fn to_native<'a>(v: &'a V) -> Option<<T::K as Value>::SelfType<'a>> {
        match v {
            V::None_ => None,
            V::Some_(x) => Some(T::to_native(x)),
            _ => panic!(),
        }
    }
    fn from_native<'a>(x: &Option<<T::K as Value>::SelfType<'a>>) -> V {
        match x {
            None => V::None_,
            Some(y) => V::Some_(Box::new(T::from_native(y))),
        }
    }
}

// ---- [T; N]
struct Arr<T, const N: usize>(PhantomData<T>);
impl<T: Ty, const N: usize> Ty for Arr<T, N> {
    type K = [T::K; N];
    fn desc() -> String {
        format!("arr({N},{})", T::desc())
    }
    fn rand(r: &mut Rng, big: bool) -> V {
        // at most one long element so that totals stay small
        let long_at = if big { r.below(N as u64 + 1) as usize } else { N };
        V::List((0..N).map(|i| T::rand(r, big && i == long_at)).collect())
    }
    fn near(r: &mut Rng, v: &V) -> V {
        let V::List(l) = v else { panic!() };
        let mut l = l.clone();
        if N == 0 {
            return V::List(l);
        }
        // element-wise ties before i, a near difference at i, the tail kept or re-drawn
        let i = r.below(N as u64) as usize;
        l[i] = T::near(r, &l[i]);
        if r.chance(1, 3) {
            for x in l.iter_mut().skip(i + 1) {
                *x = if r.chance(1, 2) { T::rand(r, false) } else { T::near(r, x) };
            }
        }
        V::List(l)
    }
    fn to_native<'a>(v: &'a V) -> [<T::K as Value>::SelfType<'a>; N] {
        let V::List(l) = v else { panic!() };
        std::array::from_fn(|i| T::to_native(&l[i]))
    }
    fn from_native<'a>(x: &[<T::K as Value>::SelfType<'a>; N]) -> V {
        V::List(x.iter().map(|e| T::from_native(e)).collect())
    }
}

// ---- tuples
macro_rules! tup_ty {
    ($name:ident; $($T:ident $i:tt),+) => {
        struct $name<$($T),+>(PhantomData<($($T,)+)>);
        impl<$($T: Ty),+> Ty for $name<$($T),+> {
            type K = ($($T::K,)+);
            fn desc() -> String {
                let v: Vec<String> = vec![$($T::desc()),+];
                format!("tup({})", v.join(","))
            }
            fn rand(r: &mut Rng, big: bool) -> V {
                let n = [$($i),+].len();
                let long_at = if big { r.below(n as u64 + 1) as usize } else { n };
                V::List(vec![$($T::rand(r, big && $i == long_at)),+])
            }
            #[allow(unused_comparisons)]
            fn near(r: &mut Rng, v: &V) -> V {
                let V::List(l) = v else { panic!() };
                let mut l = l.clone();
                let n = l.len();
                let k = r.below(n as u64) as usize;
                let redraw = r.chance(1, 3);
                $(
                    if $i == k {
                        l[$i] = $T::near(r, &l[$i]);
                    } else if $i > k && redraw {
                        l[$i] = if r.chance(1, 2) { $T::rand(r, false) } else { $T::near(r, &l[$i]) };
                    }
                )+
                V::List(l)
            }
            fn to_native<'a>(v: &'a V) -> ($(<$T::K as Value>::SelfType<'a>,)+) {
                let V::List(l) = v else { panic!() };
                ($($T::to_native(&l[$i]),)+)
            }
            fn from_native<'a>(x: &($(<$T::K as Value>::SelfType<'a>,)+)) -> V {
                V::List(vec![$($T::from_native(&x.$i)),+])
            }
        }
    };
}
tup_ty!(Tup1; A 0);
tup_ty!(Tup2; A 0, B 1);
tup_ty!(Tup3; A 0, B 1, C 2);
tup_ty!(Tup4; A 0, B 1, C 2, D 3);
tup_ty!(Tup12; A 0, B 1, C 2, D 3, E 4, F 5, G 6, H 7, I 8, J 9, K2 10, L 11);

// ------------------------------------------------------------------ running the real crate

fn cmp_s(o: Ordering) -> &'static str {
    match o {
        Ordering::Less => "lt",
        Ordering::Equal => "eq",
        Ordering::Greater => "gt",
    }
}
fn cmp_impl<K: Key>(a: &[u8], b: &[u8]) -> &'static str {
    match catch(|| K::compare(a, b)) {
        Ok(o) => cmp_s(o),
        Err(_) => "panic",
    }
}
fn enc<T: Ty>(v: &V) -> Option<Vec<u8>> {
    catch(|| {
        let n = T::to_native(v);
        <T::K as Value>::as_bytes(&n).as_ref().to_vec()
    })
    .ok()
}
fn dec<T: Ty>(d: &[u8]) -> Option<V> {
    catch(|| {
        let x = <T::K as Value>::from_bytes(d);
        T::from_native(&x)
    })
    .ok()
}
fn hex_or(o: &Option<Vec<u8>>, dflt: &str) -> String {
    match o {
        Some(b) => hex(b),
        None => dflt.to_string(),
    }
}

struct Out {
    cases: String,
    imp: String,
    impx: String,
    n_cases: u64,
    n_types: u64,
    nontrivial: HashSet<String>,
    markers: BTreeMap<&'static str, u64>,
    focus: Option<String>,
    /// replay mode: run exactly these pairs (of the focus type) instead of generating
    replay: Vec<(V, V)>,
}
impl Out {
    fn mark(&mut self, m: &'static str) {
        *self.markers.entry(m).or_insert(0) += 1;
    }
}

/// facts about a separator returned by the implementation, for the direct oracle
fn sep_facts<T: Ty>(pre: &str, s: &Option<Vec<u8>>, lo: &[u8], hi: &[u8], x: &mut String) {
    match s {
        None => write!(x, "{pre}sv=panic {pre}reenc=na {pre}cls=na {pre}csr=na ").unwrap(),
        Some(s) => {
            let sv = dec::<T>(s);
            let reenc = match &sv {
                Some(v) => match enc::<T>(v) {
                    Some(e) => {
                        if e == *s {
                            "1"
                        } else {
                            "0"
                        }
                    }
                    None => "0",
                },
                None => "na",
            };
            let svs = match &sv {
                Some(v) => shown(v),
                None => "panic".into(),
            };
            write!(
                x,
                "{pre}sv={svs} {pre}reenc={reenc} {pre}cls={} {pre}csr={} ",
                cmp_impl::<T::K>(lo, s),
                cmp_impl::<T::K>(s, hi)
            )
            .unwrap();
        }
    }
}

fn emit_type<T: Ty>(o: &mut Out, tid: usize) -> Option<Vec<u8>> {
    o.n_types += 1;
    writeln!(o.cases, "T {tid} {}", T::desc()).unwrap();
    let fw = match <T::K as Value>::fixed_width() {
        Some(w) => w.to_string(),
        None => "none".into(),
    };
    let min = catch(|| <T::K as Key>::min_encoded_key().map(|c| c.into_owned())).ok().flatten();
    writeln!(o.imp, "T {tid} fw={fw} min={}", hex_or(&min, "none")).unwrap();
    match &min {
        None => writeln!(o.impx, "minv=none minreenc=na").unwrap(),
        Some(m) => {
            let mv = dec::<T>(m);
            let re = match &mv {
                Some(v) => {
                    if enc::<T>(v).as_deref() == Some(m.as_slice()) {
                        "1"
                    } else {
                        "0"
                    }
                }
                None => "na",
            };
            writeln!(o.impx, "minv={} minreenc={re}", mv.map(|v| shown(&v)).unwrap_or("panic".into())).unwrap();
        }
    }
    min
}

fn emit_pair<T: Ty>(o: &mut Out, tid: usize, min: &Option<Vec<u8>>, a: &V, b: &V) -> (String, String) {
    o.n_cases += 1;
    let case = format!("C {tid} {} {}", shown(a), shown(b));
    writeln!(o.cases, "{case}").unwrap();
    let ea = enc::<T>(a);
    let eb = enc::<T>(b);
    let (Some(ea), Some(eb)) = (ea, eb) else {
        writeln!(o.imp, "R panic panic na na none none false false").unwrap();
        writeln!(o.impx, "as_bytes=panic").unwrap();
        return ("panic".into(), "panic".into());
    };
    let rta = dec::<T>(&ea).as_ref() == Some(a);
    let rtb = dec::<T>(&eb).as_ref() == Some(b);
    let cab = cmp_impl::<T::K>(&ea, &eb);
    let cba = cmp_impl::<T::K>(&eb, &ea);
    let ord = a.cmp(b);
    let mut x = String::new();
    let (sep_h, bsep_h) = if ord == Ordering::Equal {
        ("none".to_string(), "none".to_string())
    } else {
        let (lo, hi) = if ord == Ordering::Less { (&ea, &eb) } else { (&eb, &ea) };
        let sep = catch(|| <T::K as Key>::separator(lo, hi).into_owned()).ok();
        let bsep = catch(|| redb::verif::branch_separator::<T::K>(lo, hi)).ok();
        sep_facts::<T>("", &sep, lo, hi, &mut x);
        sep_facts::<T>("b", &bsep, lo, hi, &mut x);
        // path markers
        if let Some(s) = &sep {
            if s.len() < lo.len() {
                o.mark("sep_shorter_than_left");
            } else if <T::K as Value>::fixed_width().is_none() {
                o.mark("sep_is_left_variable_width");
            }
        }
        (hex_or(&sep, "panic"), hex_or(&bsep, "panic"))
    };
    match min {
        Some(m) => write!(x, "mina={} minb={}", cmp_impl::<T::K>(m, &ea), cmp_impl::<T::K>(m, &eb)).unwrap(),
        None => write!(x, "mina=na minb=na").unwrap(),
    }
    writeln!(o.imp, "R {} {} {cab} {cba} {sep_h} {bsep_h} {rta} {rtb}", hex(&ea), hex(&eb)).unwrap();
    writeln!(o.impx, "{x}").unwrap();
    if ord != Ordering::Equal {
        let first_diff = ea.iter().zip(eb.iter()).take_while(|(p, q)| p == q).count();
        let mut nontrivial = <T::K as Value>::fixed_width().is_none();
        if first_diff >= 1 {
            o.mark("first_difference_after_byte_0");
            nontrivial = true;
        }
        if first_diff < ea.len().min(eb.len()) && (ea[first_diff] ^ eb[first_diff]) & 0x80 != 0 {
            o.mark("differing_byte_crosses_0x80");
            nontrivial = true;
        }
        if first_diff < ea.len().min(eb.len()) && ea[first_diff] & 0xc0 == 0x80 && T::desc().contains("str") {
            o.mark("maybe_inside_multibyte_char");
        }
        if ea.len() != eb.len() {
            o.mark("different_encoded_length");
        }
        if ea.len() > 300 || eb.len() > 300 {
            o.mark("long_encoding_over_300");
        }
        if ea.len() > 65535 || eb.len() > 65535 {
            o.mark("long_encoding_over_65535");
        }
        if nontrivial {
            o.nontrivial.insert(case);
            // the last token of the implx line: the check counts distinct non-trivial pairs across batches
            let l = o.impx.len();
            o.impx.truncate(l - 1);
            o.impx.push_str(" nt=1\n");
        }
    } else {
        o.mark("equal_pair");
    }
    (cab.to_string(), cba.to_string())
}

/// random clusters (a, b, c): pairs (a,b), (b,c), (a,c); transitivity of the implementation's compare
/// on the triple is checked right here (the model's order is proved transitive)
fn run_type<T: Ty>(o: &mut Out, r: &mut Rng, tid: usize, n_pairs: u64) {
    if let Some(f) = &o.focus {
        if *f != T::desc() {
            return;
        }
    }
    let min = emit_type::<T>(o, tid);
    if !o.replay.is_empty() {
        let pairs = o.replay.clone();
        for (a, b) in &pairs {
            emit_pair::<T>(o, tid, &min, a, b);
        }
        return;
    }
    let mut done = 0;
    while done < n_pairs {
        let big = r.chance(1, 8);
        let a = T::rand(r, big);
        let b = match r.below(8) {
            0 => a.clone(),
            1 | 2 | 3 | 4 => T::near(r, &a),
            5 => {
                let m = T::near(r, &a);
                T::near(r, &m)
            }
            _ => T::rand(r, false),
        };
        let c = match r.below(4) {
            0 => T::near(r, &a),
            1 | 2 => T::near(r, &b),
            _ => T::rand(r, false),
        };
        let (ab, _) = emit_pair::<T>(o, tid, &min, &a, &b);
        let (bc, _) = emit_pair::<T>(o, tid, &min, &b, &c);
        let (ac, ca) = emit_pair::<T>(o, tid, &min, &a, &c);
        done += 3;
        // transitivity / consistency of the implementation's own compare on the triple
        let le = |s: &str| s == "lt" || s == "eq";
        let bad = (le(&ab) && le(&bc) && !le(&ac)) || (ab == "lt" && le(&bc) && ac != "lt") || (le(&ab) && bc == "lt" && ac != "lt");
        if bad || (ac == "lt") != (ca == "gt") {
            // reported through a pseudo case so that it reaches the driver as a failing line
            writeln!(o.cases, "X {tid} {} {} {}", shown(&a), shown(&b), shown(&c)).unwrap();
            writeln!(o.imp, "X compare-not-transitive ab={ab} bc={bc} ac={ac} ca={ca}").unwrap();
            writeln!(o.impx, "-").unwrap();
        }
    }
}

/// all ordered pairs of the given values
fn run_all_pairs<T: Ty>(o: &mut Out, tid: usize, vals: &[V]) {
    if let Some(f) = &o.focus {
        if *f != T::desc() {
            return;
        }
    }
    let min = emit_type::<T>(o, tid);
    for a in vals {
        for b in vals {
            emit_pair::<T>(o, tid, &min, a, b);
        }
    }
}

fn strings_upto(alphabet: &[char], maxlen: usize) -> Vec<V> {
    let mut all: Vec<String> = vec![String::new()];
    let mut layer: Vec<String> = vec![String::new()];
    for _ in 0..maxlen {
        let mut next = Vec::new();
        for s in &layer {
            for c in alphabet {
                let mut t = s.clone();
                t.push(*c);
                next.push(t);
            }
        }
        all.extend(next.iter().cloned());
        layer = next;
    }
    all.into_iter().map(V::Str).collect()
}
fn bytes_upto(alphabet: &[u8], maxlen: usize) -> Vec<V> {
    let mut all: Vec<Vec<u8>> = vec![vec![]];
    let mut layer: Vec<Vec<u8>> = vec![vec![]];
    for _ in 0..maxlen {
        let mut next = Vec::new();
        for s in &layer {
            for c in alphabet {
                let mut t = s.clone();
                t.push(*c);
                next.push(t);
            }
        }
        all.extend(next.iter().cloned());
        layer = next;
    }
    all.into_iter().map(V::Bytes).collect()
}

macro_rules! types {
    ($o:expr, $r:expr, $n:expr, $tid:ident; $($t:ty),+ $(,)?) => {
        $( run_type::<$t>($o, $r, $tid, $n); $tid += 1; )+
    };
}

fn main() {
    silence_panics();
    let n: u64 = std::env::args().nth(1).map(|s| s.parse().unwrap()).unwrap_or(100);
    let focus = std::env::args().nth(2).filter(|s| s != "-");
    let mode = std::env::args().nth(3).unwrap_or("random".into());
    let mut r = Rng::new(seed_from_env());
    let mut o = Out {
        cases: String::new(),
        imp: String::new(),
        impx: String::new(),
        n_cases: 0,
        n_types: 0,
        nontrivial: HashSet::new(),
        markers: BTreeMap::new(),
        focus,
        replay: Vec::new(),
    };
    if mode == "replay" {
        // c15 0 <type> replay <a> <b> [<a> <b> ...]
        let rest: Vec<String> = std::env::args().skip(4).collect();
        for ch in rest.chunks(2) {
            if ch.len() == 2 {
                let a = parse_v(ch[0].as_bytes(), &mut 0);
                let b = parse_v(ch[1].as_bytes(), &mut 0);
                o.replay.push((a, b));
            }
        }
    }
    let mut tid = 0usize;
    let r = &mut r;
    let o = &mut o;
    if mode == "random" || mode == "replay" {
        // n = pairs per type
        types!(o, r, n, tid;
            // every leaf type
            Unit, Bool, Char, U8, U16, U32, U64, U128, I8, I16, I32, I64, I128,
            Str, StrOwned, Bytes, Fb<4>, Fb<0>, Fb<16>,
            // Option: fixed width payloads (padding), variable payloads, nesting
            Opt<U32>, Opt<I8>, Opt<Unit>, Opt<Bool>, Opt<Fb<4>>, Opt<Str>, Opt<StrOwned>, Opt<Bytes>,
            Opt<Opt<Bytes>>, Opt<Opt<U16>>, Opt<Arr<Str, 2>>, Opt<Arr<U16, 2>>, Opt<Tup2<Str, U8>>, Opt<Tup2<U8, Bool>>,
            // arrays: fixed and variable width elements, with and without min_encoded_key, nesting
            Arr<U16, 3>, Arr<U8, 4>, Arr<I8, 2>, Arr<Char, 2>, Arr<Unit, 3>, Arr<Opt<U16>, 2>, Arr<Tup2<U8, I16>, 2>,
            Arr<Str, 1>, Arr<Str, 2>, Arr<Str, 3>, Arr<StrOwned, 2>, Arr<Bytes, 3>, Arr<Str, 0>,
            Arr<Opt<Str>, 3>, Arr<Opt<Opt<Str>>, 2>, Arr<Opt<Bytes>, 2>,
            Arr<Arr<Str, 2>, 2>, Arr<Arr<U8, 2>, 3>, Arr<Tup2<Str, Str>, 2>, Arr<Tup1<Str>, 3>, Arr<Tup2<U8, Bytes>, 2>,
            // tuples: fixed, variable (varint headers for all but the last variable element), nesting
            Tup1<Str>, Tup1<U32>, Tup1<Opt<Str>>, Tup2<U16, U8>, Tup3<I8, Bool, Char>,
            Tup2<U32, Str>, Tup2<Str, U8>, Tup2<Str, Str>, Tup3<Bytes, U8, Str>, Tup3<Str, Str, U16>,
            Tup2<Opt<Str>, U64>, Tup2<Opt<U8>, Opt<Bytes>>, Tup4<Str, Bytes, Opt<Str>, Str>,
            Tup2<Arr<Str, 2>, Arr<U8, 2>>, Tup2<Arr<U16, 2>, Arr<Bytes, 2>>, Tup2<Tup2<Str, U8>, Str>, Tup2<Str, Tup2<U8, Str>>,
            Tup12<U8, Str, I16, Bytes, Bool, Opt<Str>, Char, Unit, U64, Str, Fb<2>, I128>,
        );
    } else {
        // exhaustive small scopes (thorough tier)
        let six = ['\u{0}', 'a', '\u{7f}', '\u{e9}', '\u{800}', '\u{1d11e}'];
        let six_b = ['a', '\u{80}', '\u{7ff}', '\u{ffff}', '\u{10000}', '\u{10ffff}'];
        run_all_pairs::<Str>(o, tid, &strings_upto(&six, 3));
        tid += 1;
        run_all_pairs::<StrOwned>(o, tid, &strings_upto(&six_b, 2));
        tid += 1;
        run_all_pairs::<Opt<Str>>(o, tid, &{
            let mut v: Vec<V> = strings_upto(&six_b, 2).into_iter().map(|s| V::Some_(Box::new(s))).collect();
            v.push(V::None_);
            v
        });
        tid += 1;
        run_all_pairs::<Bytes>(o, tid, &bytes_upto(&[0, 1, 0x7f, 0x80, 0xff], 3));
        tid += 1;
        run_all_pairs::<U8>(o, tid, &(0..=255u128).map(V::U).collect::<Vec<_>>());
        tid += 1;
        run_all_pairs::<I8>(o, tid, &(-128..=127i128).map(V::I).collect::<Vec<_>>());
        tid += 1;
        run_all_pairs::<Opt<I8>>(o, tid, &{
            let mut v: Vec<V> = (-128..=127i128).step_by(5).map(|x| V::Some_(Box::new(V::I(x)))).collect();
            v.push(V::None_);
            v
        });
        tid += 1;
        // all pairs of 2-element string arrays over a 3-scalar alphabet, strings up to 2 chars
        let small = strings_upto(&['a', '\u{e9}', '\u{1d11e}'], 2);
        let mut arrs = Vec::new();
        for x in &small {
            for y in &small {
                arrs.push(V::List(vec![x.clone(), y.clone()]));
            }
        }
        run_all_pairs::<Arr<Str, 2>>(o, tid, &arrs);
        tid += 1;
        run_all_pairs::<Tup2<Str, Str>>(o, tid, &arrs);
        tid += 1;
        let _ = tid;
        let _ = tier_is_thorough();
    }
    std::fs::write("cases.txt", &o.cases).unwrap();
    std::fs::write("impl.txt", &o.imp).unwrap();
    std::fs::write("implx.txt", &o.impx).unwrap();
    let markers: Vec<String> = o.markers.iter().map(|(k, v)| format!("{k}={v}")).collect();
    println!(
        "cases={} distinct_nontrivial={} types={} markers={}",
        o.n_cases,
        o.nontrivial.len(),
        o.n_types,
        markers.join(",")
    );
}
