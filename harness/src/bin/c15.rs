//! C15 harness: run Key::compare / separator / as_bytes / from_bytes of the real crate on generated pairs.
//! usage: c15 <n_cases>   writes cases.txt and impl.txt into the cwd
use redb::{Key, Value};
use rv_harness::{Rng, hex, seed_from_env};
use std::cmp::Ordering;
use std::fmt::Write as _;

fn cmp_s(o: Ordering) -> &'static str {
    match o {
        Ordering::Less => "lt",
        Ordering::Equal => "eq",
        Ordering::Greater => "gt",
    }
}

fn gen_bytes(r: &mut Rng) -> Vec<u8> {
    let alphabet: [u8; 6] = [0, 1, 0x7f, 0x80, 0xfe, 0xff];
    let len = *r.pick(&[0usize, 0, 1, 1, 2, 3, 4, 6, 9, 17]);
    (0..len)
        .map(|_| if r.chance(3, 4) { *r.pick(&alphabet) } else { r.next_u64() as u8 })
        .collect()
}

fn gen_bytes_pair(r: &mut Rng) -> (Vec<u8>, Vec<u8>) {
    let a = gen_bytes(r);
    let b = match r.below(5) {
        0 => a.clone(),
        1 => {
            // common prefix, then diverge
            let k = r.below(a.len() as u64 + 1) as usize;
            let mut b = a[..k].to_vec();
            b.extend(gen_bytes(r));
            b
        }
        2 => {
            let mut b = a.clone();
            b.extend(gen_bytes(r));
            b
        }
        _ => gen_bytes(r),
    };
    (a, b)
}

fn gen_u64(r: &mut Rng) -> u64 {
    match r.below(6) {
        0 => 0,
        1 => u64::MAX,
        2 => r.below(300),
        3 => 1u64 << r.below(64),
        4 => (1u64 << r.below(64)).wrapping_sub(1),
        _ => r.next_u64(),
    }
}

fn main() {
    let n: u64 = std::env::args().nth(1).map(|s| s.parse().unwrap()).unwrap_or(1000);
    let mut r = Rng::new(seed_from_env());
    let mut cases = String::new();
    let mut out = String::new();
    let mut nontrivial = std::collections::HashSet::new();
    for _ in 0..n {
        if r.chance(1, 3) {
            let a = gen_u64(&mut r);
            let b = if r.chance(1, 6) { a } else if r.chance(1, 4) { a.wrapping_add(1) } else { gen_u64(&mut r) };
            writeln!(cases, "u64 {a:x} {b:x}").unwrap();
            let ea = <u64 as Value>::as_bytes(&a);
            let eb = <u64 as Value>::as_bytes(&b);
            let ea = ea.as_ref();
            let eb = eb.as_ref();
            let c = <u64 as Key>::compare(ea, eb);
            let sep = if a < b { hex(&<u64 as Key>::separator(ea, eb)) } else { "none".into() };
            let dec = <u64 as Value>::from_bytes(ea) == a;
            writeln!(out, "{} {} {} {} {} {}", hex(ea), hex(eb), cmp_s(c), cmp_s(<u64 as Key>::compare(eb, ea)), sep, dec).unwrap();
            if a != b { nontrivial.insert(format!("u{a:x}/{b:x}")); }
        } else {
            let (a, b) = gen_bytes_pair(&mut r);
            writeln!(cases, "bytes {} {}", hex(&a), hex(&b)).unwrap();
            let (sa, sb) = (a.as_slice(), b.as_slice());
            let ea: &[u8] = <&[u8] as Value>::as_bytes(&sa);
            let eb: &[u8] = <&[u8] as Value>::as_bytes(&sb);
            let c = <&[u8] as Key>::compare(ea, eb);
            let sep = if a < b { hex(&<&[u8] as Key>::separator(ea, eb)) } else { "none".into() };
            let dec = <&[u8] as Value>::from_bytes(ea) == a.as_slice();
            writeln!(out, "{} {} {} {} {} {}", hex(ea), hex(eb), cmp_s(c), cmp_s(<&[u8] as Key>::compare(eb, ea)), sep, dec).unwrap();
            if a != b && !a.is_empty() && !b.is_empty() { nontrivial.insert(format!("b{}/{}", hex(&a), hex(&b))); }
        }
    }
    std::fs::write("cases.txt", cases).unwrap();
    std::fs::write("impl.txt", out).unwrap();
    println!("cases={} distinct_nontrivial={}", n, nontrivial.len());
}
