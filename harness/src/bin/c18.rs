//! C18 harness: random gap-cursor scripts run on the REAL crate (feature experimental_cursor).
//! usage: c18 <n_programs> | c18 file <cases file>
//! writes cases.txt (log, input of ocaml/c18_driver.ml), impl.<cfg>.txt, stats.txt, progress.txt
use redb::{Builder, Database, Key, ReadableDatabase, ReadableTable, ReadableTableMetadata, StorageError, Table, TableDefinition, TableError, Value};
use rv_harness::backend::RecBackend;
use rv_harness::{Rng, catch, hex, seed_from_env, silence_panics, tier_is_thorough};
use std::collections::BTreeMap;
use std::fmt::Write as _;
use std::io::Write as _;
use std::ops::Bound;

#[path = "../c04_util.rs"]
mod util;
use util::*;

// ------------------------------------------------------------------------------------------------ program representation

#[derive(Clone, Debug)]
enum COp { PeekNext, PeekPrev, Next, Prev, InsBefore(Vec<u8>, Vec<u8>), InsAfter(Vec<u8>, Vec<u8>), RemNext, RemPrev }

impl COp {
    fn text(&self) -> String {
        let z = |v: &[u8]| tok(v).replace(':', ";");
        match self {
            COp::PeekNext => "pn".into(),
            COp::PeekPrev => "pp".into(),
            COp::Next => "n".into(),
            COp::Prev => "p".into(),
            COp::RemNext => "rn".into(),
            COp::RemPrev => "rp".into(),
            COp::InsBefore(k, v) => format!("ib:{}:{}", hex(k), z(v)),
            COp::InsAfter(k, v) => format!("ia:{}:{}", hex(k), z(v)),
        }
    }
    fn parse(t: &str) -> Option<COp> {
        Some(match t {
            "pn" => COp::PeekNext,
            "pp" => COp::PeekPrev,
            "n" => COp::Next,
            "p" => COp::Prev,
            "rn" => COp::RemNext,
            "rp" => COp::RemPrev,
            _ => {
                let f: Vec<&str> = t.split(':').collect();
                if f.len() != 3 { return None; }
                let v = untok(&f[2].replace(';', ":"));
                match f[0] { "ib" => COp::InsBefore(rv_harness::unhex(f[1]), v), "ia" => COp::InsAfter(rv_harness::unhex(f[1]), v), _ => return None }
            }
        })
    }
}

#[derive(Clone, Debug)]
enum Step {
    Table(Op),
    /// kind: "W" mutable cursor, "RC" read-only cursor on the write transaction's table; lower?; bound; ops; close (true) or drop
    Session(&'static str, bool, BoundS, Vec<COp>, bool),
}

#[derive(Clone, Debug)]
struct CTxn { steps: Vec<Step>, end: End, reopen: bool, ro_session: Option<(bool, BoundS, Vec<COp>)> }

#[derive(Clone, Debug)]
struct CProgram { id: u64, kt: KType, vt: VType, shape: &'static str, txns: Vec<CTxn>,
    /// page size this program's keys were sized for (long-prefix shape): it runs under the configuration with that page size
    target_page: Option<usize> }

fn session_text(kind: &str, lower: bool, b: &BoundS, ops: &[COp], close: bool) -> String {
    let mut s = format!("{} {} {}", kind, if lower { "l" } else { "u" }, b.text());
    for o in ops { s.push(' '); s.push_str(&o.text()); }
    if kind == "W" { s.push_str(if close { " c" } else { " x" }); }
    s
}

impl CProgram {
    fn to_text(&self) -> String {
        let mut s = String::new();
        let kt = match self.kt { KType::Bytes => "bytes", KType::U64 => "u64", KType::Str => "str" };
        let vt = match self.vt { VType::Bytes => "bytes", VType::U64 => "u64" };
        writeln!(s, "C {} {} {}", self.id, kt, vt).unwrap();
        for t in &self.txns {
            writeln!(s, "B").unwrap();
            for st in &t.steps {
                match st {
                    Step::Table(op) => writeln!(s, "{}", op.text()).unwrap(),
                    Step::Session(kind, lower, b, ops, close) => writeln!(s, "{}", session_text(kind, *lower, b, ops, *close)).unwrap(),
                }
            }
            writeln!(s, "{}", if t.end == End::Commit { "K" } else { "A" }).unwrap();
            if let Some((lower, b, ops)) = &t.ro_session { writeln!(s, "{}", session_text("RR", *lower, b, ops, false)).unwrap(); }
            if t.reopen { writeln!(s, "O").unwrap(); }
        }
        s
    }
}

fn parse_session(t: &[&str]) -> (bool, BoundS, Vec<COp>, bool) {
    let lower = t[1] == "l";
    let b = if t[2] == "u" { BoundS::U } else if let Some(x) = t[2].strip_prefix('i') { BoundS::I(rv_harness::unhex(x)) } else { BoundS::E(rv_harness::unhex(&t[2][1..])) };
    let mut ops = vec![];
    let mut close = false;
    for x in &t[3..] {
        if *x == "c" { close = true; } else if let Some(o) = COp::parse(x) { ops.push(o); }
    }
    (lower, b, ops, close)
}

fn parse_cprograms(text: &str) -> Vec<CProgram> {
    let mut out: Vec<CProgram> = vec![];
    let mut cur: Option<CTxn> = None;
    for line in text.lines() {
        let line = line.trim_end();
        if line.is_empty() { continue; }
        let t: Vec<&str> = line.split(' ').collect();
        match t[0] {
            "C" => {
                let kt = match t[2] { "u64" => KType::U64, "str" => KType::Str, _ => KType::Bytes };
                let vt = match t[3] { "u64" => VType::U64, _ => VType::Bytes };
                out.push(CProgram { id: t[1].parse().unwrap(), kt, vt, shape: "file", txns: vec![], target_page: None });
            }
            "B" => cur = Some(CTxn { steps: vec![], end: End::Commit, reopen: false, ro_session: None }),
            "K" | "A" => {
                let mut x = cur.take().expect("K/A without B");
                x.end = if t[0] == "K" { End::Commit } else { End::Abort };
                out.last_mut().unwrap().txns.push(x);
            }
            "O" => out.last_mut().unwrap().txns.last_mut().unwrap().reopen = true,
            "RR" => { let (l, b, ops, _) = parse_session(&t); out.last_mut().unwrap().txns.last_mut().unwrap().ro_session = Some((l, b, ops)); }
            "W" => { let (l, b, ops, c) = parse_session(&t); cur.as_mut().unwrap().steps.push(Step::Session("W", l, b, ops, c)); }
            "RC" => { let (l, b, ops, c) = parse_session(&t); cur.as_mut().unwrap().steps.push(Step::Session("RC", l, b, ops, c)); }
            _ => cur.as_mut().expect("op outside a transaction").steps.push(Step::Table(parse_op(line).expect("bad op line"))),
        }
    }
    out
}

// ------------------------------------------------------------------------------------------------ execution

fn enc<T: Value>(v: &T::SelfType<'_>) -> Vec<u8> { T::as_bytes(v).as_ref().to_vec() }
fn pe<K: Key + 'static, V: Value + 'static>(k: &K::SelfType<'_>, v: &V::SelfType<'_>) -> String {
    format!("{}={}", canon(&enc::<K>(k)), canon(&enc::<V>(v)))
}
fn bound_of<'a, K: Key + 'static>(b: &'a BoundS) -> Bound<K::SelfType<'a>> {
    match b {
        BoundS::U => Bound::Unbounded,
        BoundS::I(k) => Bound::Included(K::from_bytes(k)),
        BoundS::E(k) => Bound::Excluded(K::from_bytes(k)),
    }
}

static FLUSH_BYTES: std::sync::atomic::AtomicUsize = std::sync::atomic::AtomicUsize::new(1 << 20);
fn flush_bytes() -> usize { FLUSH_BYTES.load(std::sync::atomic::Ordering::Relaxed) }

// ------------------------------------------------------------------------------------------------ shape lines (S2)
// Canonical text of the real tree (Table::verif_shape), shared with ocaml/c18_driver.ml (shape mode):
//   S <length> <node> <node> ...       nodes in pre-order, `S 0 -` for the empty tree
//   leaf   L<depth><d|c><allocated>/<used>:<key>=<value length>,...
//   branch B<depth><d|c><allocated>/<used>:<separator>,...
// d = uncommitted page, c = committed page.  Keys are printed IN FULL (the model is started from this text), delta
// encoded against the previous key of the same line: <number of leading bytes shared with it>.<hex of the rest>.
// (Same layout as c04_util::shape_line, which prints long keys as digests.)
fn shape_text(s: &redb::verif::VShape) -> String {
    if s.nodes.is_empty() {
        return format!("S {} -", s.length);
    }
    let mut out = format!("S {}", s.length);
    let mut prev: Vec<u8> = vec![];
    let mut key = |k: &Vec<u8>, out: &mut String| {
        let shared = prev.iter().zip(k.iter()).take_while(|(a, b)| a == b).count();
        write!(out, "{}.{}", shared, hex(&k[shared..])).unwrap();
        prev = k.clone();
    };
    for n in &s.nodes {
        write!(out, " {}{}{}{}/{}:", if n.leaf { 'L' } else { 'B' }, n.depth, if n.uncommitted { 'd' } else { 'c' }, n.allocated_len, n.used_len).unwrap();
        for (i, k) in n.keys.iter().enumerate() {
            if i > 0 { out.push(','); }
            key(k, &mut out);
            if n.leaf { write!(out, "={}", n.value_lens[i]).unwrap(); }
        }
    }
    out
}

/// what the shape correspondence needs per (program, configuration) run: the model's input (tree before every mutable
/// cursor session + the session) and the real tree after the session
#[derive(Default)]
struct ShapeLog { input: String, output: String, sessions: u64 }

#[derive(Default)]
struct Markers { max_height: u32, accepted: u64, rejected: u64, long_runs: u64, flush_crossings: u64, dir_switches: u64, removes: u64 }

fn run_mut_session<K: Key + 'static, V: Value + 'static>(t: &mut Table<K, V>, lower: bool, b: &BoundS, ops: &[COp], close: bool, mk: &mut Markers) -> String {
    let mut outs: Vec<String> = vec![];
    let mut cur = if lower { t.lower_bound_mut(bound_of::<K>(b)).unwrap() } else { t.upper_bound_mut(bound_of::<K>(b)).unwrap() };
    let mut run_bytes = 0usize;
    let mut run_len = 0u64;
    let mut last_dir = 0u8;
    let ent = |e: redb::Result<Option<(redb::AccessGuard<'_, K>, redb::AccessGuard<'_, V>)>>| -> String {
        match e {
            Ok(Some((k, v))) => pe::<K, V>(&k.value(), &v.value()),
            Ok(None) => "~".into(),
            Err(e) => format!("ERR:{e:?}").replace(' ', "_"),
        }
    };
    for o in ops {
        let s = match o {
            COp::PeekNext => ent(cur.peek_next()),
            COp::PeekPrev => ent(cur.peek_prev()),
            COp::Next => { run_bytes = 0; run_len = 0; ent(cur.next()) }
            COp::Prev => { run_bytes = 0; run_len = 0; ent(cur.prev()) }
            COp::RemNext => { run_bytes = 0; run_len = 0; mk.removes += 1; ent(cur.remove_next()) }
            COp::RemPrev => { run_bytes = 0; run_len = 0; mk.removes += 1; ent(cur.remove_prev()) }
            COp::InsBefore(k, v) | COp::InsAfter(k, v) => {
                let before = matches!(o, COp::InsBefore(..));
                let d = if before { 1 } else { 2 };
                if last_dir != 0 && last_dir != d && run_len > 0 { mk.dir_switches += 1; run_bytes = 0; run_len = 0; }
                last_dir = d;
                let r = if before { cur.insert_before(K::from_bytes(k), V::from_bytes(v)) } else { cur.insert_after(K::from_bytes(k), V::from_bytes(v)) };
                match r {
                    Ok(()) => {
                        mk.accepted += 1;
                        run_len += 1;
                        if run_len == 20 { mk.long_runs += 1; }
                        let prev = run_bytes;
                        run_bytes += k.len() + v.len();
                        if prev < flush_bytes() && run_bytes >= flush_bytes() { mk.flush_crossings += 1; }
                        "ok".into()
                    }
                    Err(StorageError::UnorderedKey) => { mk.rejected += 1; "rej".into() }
                    Err(e) => format!("ERR:{e:?}").replace(' ', "_"),
                }
            }
        };
        outs.push(s);
    }
    if close { cur.close().unwrap(); } else { drop(cur); }
    format!("W {}", plist(&outs))
}

fn run_ro_ops<K: Key + 'static, V: Value + 'static>(mut cur: redb::Cursor<'_, K, V>, ops: &[COp]) -> Vec<String> {
    let mut outs = vec![];
    for o in ops {
        let e = match o {
            COp::PeekNext => cur.peek_next(),
            COp::PeekPrev => cur.peek_prev(),
            COp::Next => cur.next(),
            COp::Prev => cur.prev(),
            _ => continue,
        };
        outs.push(match e {
            Ok(Some((k, v))) => pe::<K, V>(&k.value(), &v.value()),
            Ok(None) => "~".into(),
            Err(e) => format!("ERR:{e:?}").replace(' ', "_"),
        });
    }
    outs
}

fn dump<K: Key + 'static, V: Value + 'static>(db: &Database, def: TableDefinition<K, V>, tag: &str, out: &mut String) {
    let r = db.begin_read().unwrap();
    match r.open_table(def) {
        Ok(t) => {
            let n = t.len().unwrap();
            let mut es = vec![];
            for e in t.iter().unwrap() {
                let (k, v) = e.unwrap();
                es.push(pe::<K, V>(&k.value(), &v.value()));
            }
            writeln!(out, "{} {} {}", tag, n, plist(&es)).unwrap();
        }
        Err(TableError::TableDoesNotExist(_)) => writeln!(out, "{} 0 -", tag).unwrap(),
        Err(e) => writeln!(out, "{} ERR {:?}", tag, e).unwrap(),
    }
}

fn exec_table_op<K: Key + 'static, V: Value + 'static>(t: &mut Table<K, V>, op: &Op, out: &mut String) {
    match op {
        Op::Insert(k, v) => {
            let old = t.insert(K::from_bytes(k), V::from_bytes(v)).unwrap();
            let s = match old { Some(g) => canon(&enc::<V>(&g.value())), None => "none".into() };
            writeln!(out, "I {s}").unwrap();
        }
        Op::Remove(k) => {
            let s = match t.remove(K::from_bytes(k)).unwrap() { Some(g) => canon(&enc::<V>(&g.value())), None => "none".into() };
            writeln!(out, "D {s}").unwrap();
        }
        Op::Len => writeln!(out, "N {}", t.len().unwrap()).unwrap(),
        Op::Range(lo, hi, script) => {
            let mut it = t.range((bound_of::<K>(lo), bound_of::<K>(hi))).unwrap();
            let mut outs: Vec<String> = vec![];
            for c in script.chars() {
                match c {
                    'd' => { for e in it.by_ref() { let (k, v) = e.unwrap(); outs.push(pe::<K, V>(&k.value(), &v.value())); } }
                    'D' => { while let Some(e) = it.next_back() { let (k, v) = e.unwrap(); outs.push(pe::<K, V>(&k.value(), &v.value())); } }
                    _ => {}
                }
            }
            writeln!(out, "Q {}", plist(&outs)).unwrap();
        }
        other => panic!("table op {:?} not used by the C18 generator", other.kind()),
    }
}

fn exec<K: Key + 'static, V: Value + 'static>(prog: &CProgram, cfg: &Config, mk: &mut Markers, out: &mut String, shp: &mut ShapeLog) {
    let def: TableDefinition<K, V> = TableDefinition::new("t");
    let backend = RecBackend::new();
    backend.0.lock().unwrap().record = false;
    let mut builder = Builder::new();
    builder.verif_set_page_size(cfg.page_size);
    if let Some(rs) = cfg.region_size { builder.verif_set_region_size(rs); }
    if let Some(cs) = cfg.cache_size { builder.set_cache_size(cs); }
    writeln!(out, "C {}", prog.id).unwrap();
    writeln!(shp.input, "C {} {} {} {}", prog.id, match prog.kt { KType::Bytes => "bytes", KType::U64 => "u64", KType::Str => "str" },
             match prog.vt { VType::Bytes => "bytes", VType::U64 => "u64" }, cfg.page_size).unwrap();
    writeln!(shp.output, "C {}", prog.id).unwrap();
    let mut db = builder.create_with_backend(backend.handle()).unwrap();
    for txn in &prog.txns {
        let w = db.begin_write().unwrap();
        writeln!(out, "B").unwrap();
        {
            let mut t = w.open_table(def).unwrap();
            for st in &txn.steps {
                match st {
                    Step::Table(op) => exec_table_op::<K, V>(&mut t, op, out),
                    Step::Session("W", lower, b, ops, close) => {
                        writeln!(shp.input, "P {}", &shape_text(&t.verif_shape().unwrap())[2..]).unwrap();
                        writeln!(shp.input, "{}", session_text("W", *lower, b, ops, *close)).unwrap();
                        let line = run_mut_session::<K, V>(&mut t, *lower, b, ops, *close, mk);
                        writeln!(out, "{line}").unwrap();
                        writeln!(shp.output, "{}", shape_text(&t.verif_shape().unwrap())).unwrap();
                        shp.sessions += 1;
                        mk.max_height = mk.max_height.max(t.stats().unwrap().tree_height());
                    }
                    Step::Session(_, lower, b, ops, _) => {
                        let cur = if *lower { t.lower_bound(bound_of::<K>(b)).unwrap() } else { t.upper_bound(bound_of::<K>(b)).unwrap() };
                        writeln!(out, "RC {}", plist(&run_ro_ops::<K, V>(cur, ops))).unwrap();
                    }
                }
            }
        }
        match txn.end {
            End::Commit => { w.commit().unwrap(); dump::<K, V>(&db, def, "K", out); }
            End::Abort => { w.abort().unwrap(); dump::<K, V>(&db, def, "A", out); }
        }
        if let Some((lower, b, ops)) = &txn.ro_session {
            let r = db.begin_read().unwrap();
            match r.open_table(def) {
                Ok(t) => {
                    let cur = if *lower { t.lower_bound(bound_of::<K>(b)).unwrap() } else { t.upper_bound(bound_of::<K>(b)).unwrap() };
                    writeln!(out, "RR {}", plist(&run_ro_ops::<K, V>(cur, ops))).unwrap();
                }
                Err(_) => {
                    // no table yet: an empty map's cursor returns None everywhere
                    let n = ops.iter().filter(|o| matches!(o, COp::PeekNext | COp::PeekPrev | COp::Next | COp::Prev)).count();
                    writeln!(out, "RR {}", plist(&vec!["~".to_string(); n])).unwrap();
                }
            }
        }
        if txn.reopen {
            drop(db);
            db = builder.create_with_backend(backend.handle()).unwrap();
            dump::<K, V>(&db, def, "O", out);
        }
    }
}

fn run_prog(prog: &CProgram, cfg: &Config, mk: &mut Markers, shp: &mut ShapeLog) -> String {
    // the output produced before a panic is kept: the first differing line is then the operation that panicked
    let mut out = String::new();
    let r = catch(|| match (prog.kt, prog.vt) {
        (KType::Bytes, VType::Bytes) => exec::<&[u8], &[u8]>(prog, cfg, mk, &mut out, shp),
        (KType::U64, VType::Bytes) => exec::<u64, &[u8]>(prog, cfg, mk, &mut out, shp),
        (KType::Str, VType::U64) => exec::<&str, u64>(prog, cfg, mk, &mut out, shp),
        (KType::Str, VType::Bytes) => exec::<&str, &[u8]>(prog, cfg, mk, &mut out, shp),
        (KType::Bytes, VType::U64) => exec::<&[u8], u64>(prog, cfg, mk, &mut out, shp),
        (KType::U64, VType::U64) => exec::<u64, u64>(prog, cfg, mk, &mut out, shp),
    });
    if let Err(msg) = r {
        if !out.starts_with("C ") { out = format!("C {}\n", prog.id); }
        if !out.ends_with('\n') { out.push('\n'); }
        out.push_str(&format!("PANIC {}\n", msg.replace('\n', " ")));
        if !shp.output.ends_with('\n') { shp.output.push('\n'); }
        shp.output.push_str("PANIC\n");
    }
    out
}

// ------------------------------------------------------------------------------------------------ generation
// The generator keeps its own shadow of the key set and of the gap index only to produce keys that
// usually fit the gap (long accepted runs) and sometimes do not; correctness is judged by the extracted spec.

fn kcmp(kt: KType, a: &[u8], b: &[u8]) -> std::cmp::Ordering {
    match kt {
        KType::U64 => u64::from_le_bytes(a.try_into().unwrap()).cmp(&u64::from_le_bytes(b.try_into().unwrap())),
        _ => a.cmp(b),
    }
}

fn between(r: &mut Rng, kt: KType, lo: Option<&Vec<u8>>, hi: Option<&Vec<u8>>, near_hi: bool) -> Option<Vec<u8>> {
    match kt {
        KType::U64 => {
            let l = match lo { Some(x) => u64::from_le_bytes(x.as_slice().try_into().unwrap()).checked_add(1)?, None => 0 };
            let h = match hi { Some(x) => u64::from_le_bytes(x.as_slice().try_into().unwrap()).checked_sub(1)?, None => u64::MAX };
            if l > h { return None; }
            let span = (h - l).min(if near_hi { 3 } else { 3 });
            let v = if near_hi { h - r.below(span + 1) } else { l + r.below(span + 1) };
            Some(v.to_le_bytes().to_vec())
        }
        _ => {
            let ascii = kt == KType::Str;
            for _ in 0..12 {
                let mut c: Vec<u8> = match (near_hi, lo, hi) {
                    (true, _, Some(h)) if !h.is_empty() && r.chance(2, 3) => {
                        // just below hi: drop hi's last byte, or decrement it and pad
                        let mut c = h.clone();
                        let last = c.pop().unwrap();
                        if last > if ascii { 0x21 } else { 0 } && r.chance(2, 3) { c.push(last - 1); c.push(if ascii { b'z' } else { 0xff }); }
                        c
                    }
                    (_, Some(l), _) => { let mut c = l.clone(); c.push(if ascii { *r.pick(&[b'0', b'a', b'm', b'z']) } else { *r.pick(&[0u8, 1, 0x7f, 0x80, 0xff]) }); c }
                    _ => if ascii { vec![*r.pick(&[b'0', b'a', b'm'])] } else { vec![r.next_u64() as u8] },
                };
                if ascii && std::str::from_utf8(&c).is_err() { c = c.iter().map(|b| if *b < 0x80 { *b } else { b'y' }).collect(); }
                let ok_lo = lo.map(|l| kcmp(kt, l, &c).is_lt()).unwrap_or(true);
                let ok_hi = hi.map(|h| kcmp(kt, &c, h).is_lt()).unwrap_or(true);
                if ok_lo && ok_hi { return Some(c); }
            }
            None
        }
    }
}

fn gen_cvalue(r: &mut Rng, vt: VType, big: usize) -> Vec<u8> {
    match vt {
        VType::U64 => r.next_u64().to_le_bytes().to_vec(),
        VType::Bytes => {
            let l = if big > 0 { big + r.below(64) as usize } else { *r.pick(&[0usize, 1, 8, 8, 20, 40, 100, 170, 260, 700]) };
            pattern(l, r.next_u64() as u8)
        }
    }
}

fn gen_session(r: &mut Rng, kt: KType, vt: VType, shadow: &mut Vec<Vec<u8>>, pool: &[Vec<u8>], mode: &str) -> Step {
    let lower = r.chance(1, 2);
    let b = match r.below(6) {
        0 => BoundS::U,
        1 | 2 => BoundS::I(if !shadow.is_empty() && r.chance(2, 3) { r.pick(shadow).clone() } else { r.pick(pool).clone() }),
        _ => BoundS::E(if !shadow.is_empty() && r.chance(2, 3) { r.pick(shadow).clone() } else { r.pick(pool).clone() }),
    };
    let mut g = match (&b, lower) {
        (BoundS::U, true) => 0,
        (BoundS::U, false) => shadow.len(),
        (BoundS::I(k), true) => shadow.iter().filter(|x| kcmp(kt, x, k).is_lt()).count(),
        (BoundS::E(k), true) => shadow.iter().filter(|x| kcmp(kt, x, k).is_le()).count(),
        (BoundS::I(k), false) => shadow.iter().filter(|x| kcmp(kt, x, k).is_le()).count(),
        (BoundS::E(k), false) => shadow.iter().filter(|x| kcmp(kt, x, k).is_lt()).count(),
    };
    let (nops, big) = match mode {
        "flush-crossing" => (flush_bytes() / 3900 + 52 + r.below(40) as usize, 3900usize),
        "long-run" => (30 + r.below(120) as usize, if vt == VType::Bytes && r.chance(1, 3) { 300 } else { 0 }),
        _ => (1 + r.below(25) as usize, 0),
    };
    let mut ops = vec![];
    let mut dir_before = r.chance(1, 2);
    for i in 0..nops {
        let x = r.below(100);
        let insert_bias = match mode { "flush-crossing" => if i < flush_bytes() / 3900 + 32 { 100 } else { 60 }, "long-run" => 85, _ => 45 };
        if x < insert_bias {
            if mode == "long-run" && r.chance(1, 40) || mode == "random" && r.chance(1, 4) { dir_before = !dir_before; }
            if mode == "flush-crossing" && i == flush_bytes() / 3900 + 22 && r.chance(1, 2) { dir_before = !dir_before; }
            let fitting = mode == "flush-crossing" || r.chance(9, 10);
            let lo = if g > 0 { Some(&shadow[g - 1]) } else { None };
            let hi = shadow.get(g);
            let key = if fitting { between(r, kt, lo, hi, !dir_before) } else { None }.unwrap_or_else(|| {
                match r.below(3) { 0 if g > 0 => shadow[g - 1].clone(), 1 if g < shadow.len() => shadow[g].clone(), _ => r.pick(pool).clone() }
            });
            let fits = lo.map(|l| kcmp(kt, l, &key).is_lt()).unwrap_or(true) && hi.map(|h| kcmp(kt, &key, h).is_lt()).unwrap_or(true);
            let v = gen_cvalue(r, vt, big);
            if fits { shadow.insert(g, key.clone()); if dir_before { g += 1; } }
            ops.push(if dir_before { COp::InsBefore(key, v) } else { COp::InsAfter(key, v) });
        } else {
            match r.below(8) {
                0 => ops.push(COp::PeekNext),
                1 => ops.push(COp::PeekPrev),
                2 | 3 => { ops.push(COp::Next); if g < shadow.len() { g += 1; } }
                4 | 5 => { ops.push(COp::Prev); if g > 0 { g -= 1; } }
                6 => { ops.push(COp::RemNext); if g < shadow.len() { shadow.remove(g); } }
                _ => { ops.push(COp::RemPrev); if g > 0 { shadow.remove(g - 1); g -= 1; } }
            }
        }
    }
    Step::Session("W", lower, b, ops, r.chance(3, 4))
}

fn gen_ro_ops(r: &mut Rng) -> Vec<COp> {
    (0..(1 + r.below(12))).map(|_| match r.below(4) { 0 => COp::PeekNext, 1 => COp::PeekPrev, 2 => COp::Next, _ => COp::Prev }).collect()
}

/// `long_prefix = Some(page size)`: variable-width keys that all share a prefix of about a page (page size - 40..80 bytes,
/// sometimes a little more or less), so that neighbouring keys differ only near the end: branch separators cannot be
/// shortened below ~a page, a branch page holds two or three children, leaves hold one or two entries. Long insert runs
/// through the cursor then rebuild several branch levels per splice.
fn gen_cprogram(r: &mut Rng, id: u64, force_flush: bool, long_prefix: Option<usize>) -> CProgram {
    let (kt, vt) = if force_flush { (KType::U64, VType::Bytes) } else if long_prefix.is_some() {
        *r.pick(&[(KType::Bytes, VType::U64), (KType::Str, VType::U64), (KType::Bytes, VType::Bytes), (KType::Str, VType::Bytes)])
    } else {
        match r.below(10) {
            0..=3 => (KType::U64, VType::Bytes),
            4..=6 => (KType::Bytes, VType::Bytes),
            7 => (KType::Str, VType::U64),
            8 => (KType::Str, VType::Bytes),
            _ => *r.pick(&[(KType::Bytes, VType::U64), (KType::U64, VType::U64)]),
        }
    };
    let shape = if force_flush { "flush-crossing" } else if long_prefix.is_some() { "long-prefix" } else { *r.pick(&["random", "random", "long-run", "long-run", "empty-start"]) };
    // spaced initial keys so that long runs fit
    let n0 = if shape == "empty-start" { 0 } else if long_prefix.is_some() { 2 + r.below(10) as usize } else { r.below(60) as usize };
    let prefix: Vec<u8> = match long_prefix {
        Some(ps) => {
            let d = if r.chance(3, 4) { 40 + r.below(41) as usize } else { 12 + r.below(140) as usize };
            let first = r.below(20) as u8;
            (0..ps - d).map(|i| b'a' + ((first as usize + i) % 23) as u8).collect()
        }
        None => vec![],
    };
    let mut shadow: Vec<Vec<u8>> = vec![];
    for i in 0..n0 {
        let k = match kt {
            _ if long_prefix.is_some() => { let mut k = prefix.clone(); k.extend_from_slice(format!("{:02}", 5 + i * 8).as_bytes()); k }
            KType::U64 => ((i as u64 + 1) * 100_000 + r.below(3)).to_le_bytes().to_vec(),
            KType::Bytes => vec![(i * 4) as u8, r.next_u64() as u8 & 0x7f],
            KType::Str => format!("{}{}", (b'a' + (i % 26) as u8) as char, i).into_bytes(),
        };
        if !shadow.contains(&k) { shadow.push(k); }
    }
    shadow.sort_by(|a, b| kcmp(kt, a, b));
    let pool: Vec<Vec<u8>> = if shadow.is_empty() {
        match kt { KType::U64 => vec![500u64.to_le_bytes().to_vec(), 0u64.to_le_bytes().to_vec()], KType::Bytes => vec![vec![0x40], vec![]], KType::Str => vec![b"m".to_vec(), vec![]] }
    } else { shadow.clone() };
    let mut txns = vec![];
    if !shadow.is_empty() {
        let mut ks = shadow.clone();
        for i in (1..ks.len()).rev() { let j = r.below(i as u64 + 1) as usize; ks.swap(i, j); }
        let steps = ks.iter().map(|k| Step::Table(Op::Insert(k.clone(), gen_cvalue(r, vt, 0)))).collect();
        txns.push(CTxn { steps, end: End::Commit, reopen: false, ro_session: None });
    }
    let ntx = 1 + r.below(3) as usize;
    for ti in 0..ntx {
        let before = shadow.clone();
        let mut steps = vec![];
        let nsess = 1 + r.below(if shape == "random" { 5 } else { 2 }) as usize;
        for si in 0..nsess {
            let mode = if shape == "flush-crossing" && ti == 0 && si == 0 { "flush-crossing" } else if shape == "random" { "random" } else if r.chance(2, 3) { "long-run" } else { "random" };
            steps.push(gen_session(r, kt, vt, &mut shadow, &pool, mode));
            if r.chance(1, 3) {
                let b = if shadow.is_empty() || r.chance(1, 4) { BoundS::U } else if r.chance(1, 2) { BoundS::I(r.pick(&shadow).clone()) } else { BoundS::E(r.pick(&shadow).clone()) };
                steps.push(Step::Session("RC", r.chance(1, 2), b, gen_ro_ops(r), false));
            }
            steps.push(Step::Table(Op::Len));
            steps.push(Step::Table(Op::Range(BoundS::U, BoundS::U, if r.chance(1, 2) { "d".into() } else { "D".into() })));
            if r.chance(1, 5) && !shadow.is_empty() {
                // ordinary table ops between sessions
                let k = r.pick(&shadow).clone();
                if r.chance(1, 2) { shadow.retain(|x| *x != k); steps.push(Step::Table(Op::Remove(k))); } else { steps.push(Step::Table(Op::Insert(k, gen_cvalue(r, vt, 0)))); }
            }
        }
        let end = if r.chance(1, 5) { End::Abort } else { End::Commit };
        if end == End::Abort { shadow = before; }
        let ro = if r.chance(1, 2) {
            let b = if shadow.is_empty() || r.chance(1, 4) { BoundS::U } else if r.chance(1, 2) { BoundS::I(r.pick(&shadow).clone()) } else { BoundS::E(r.pick(&shadow).clone()) };
            Some((r.chance(1, 2), b, gen_ro_ops(r)))
        } else { None };
        txns.push(CTxn { steps, end, reopen: r.chance(1, 5), ro_session: ro });
    }
    CProgram { id, kt, vt, shape, txns, target_page: long_prefix }
}

fn c18_configs() -> Vec<Config> {
    vec![
        Config { name: "p512", page_size: 512, region_size: None, cache_size: None },
        Config { name: "p1024-r128k-c0", page_size: 1024, region_size: Some(1 << 17), cache_size: Some(0) },
        Config { name: "p2048", page_size: 2048, region_size: None, cache_size: None },
        Config { name: "p4096", page_size: 4096, region_size: None, cache_size: None },
    ]
}

fn main() {
    silence_panics();
    let args: Vec<String> = std::env::args().collect();
    let from_file: Option<Vec<CProgram>> = if args.get(1).map(|s| s.as_str()) == Some("file") {
        Some(parse_cprograms(&std::fs::read_to_string(&args[2]).unwrap()))
    } else { None };
    let n: u64 = match &from_file { Some(p) => p.len() as u64, None => args.get(1).map(|s| s.parse().unwrap()).unwrap_or(50) };
    if let Some(fb) = args.get(2).and_then(|s| s.parse::<usize>().ok()) { FLUSH_BYTES.store(fb, std::sync::atomic::Ordering::Relaxed); }
    let n_flush: u64 = if from_file.is_some() { 0 } else if tier_is_thorough() { 12 } else { 2 };
    // programs whose keys share a prefix of about a page, in turn for every page size of the configurations
    let n_long: u64 = if from_file.is_some() { 0 } else if tier_is_thorough() { 240 } else { 24 };
    let mut r = Rng::new(seed_from_env() ^ 0xC18);
    let cfgs = c18_configs();
    let mut cases_f = std::fs::File::create("cases.txt").unwrap();
    let mut progress_f = std::fs::File::create("progress.txt").unwrap();
    let mut outs: BTreeMap<&'static str, String> = BTreeMap::new();
    let mut shps: BTreeMap<&'static str, ShapeLog> = BTreeMap::new();
    let mut tot = Markers::default();
    let mut shapes: BTreeMap<&'static str, u64> = BTreeMap::new();
    let mut opk: BTreeMap<&'static str, u64> = BTreeMap::new();
    let mut runs = 0u64;
    let mut nontrivial = 0u64;
    let mut distinct = std::collections::HashSet::new();
    let mut samples = vec![];
    for id in 0..n {
        let mut pr = r.fork(id);
        let long_prefix = if from_file.is_none() && id >= n_flush && id < n_flush + n_long { Some(cfgs[((id - n_flush) % cfgs.len() as u64) as usize].page_size) } else { None };
        let prog = match &from_file { Some(p) => p[id as usize].clone(), None => gen_cprogram(&mut pr, id, id < n_flush, long_prefix) };
        let text = prog.to_text();
        cases_f.write_all(text.as_bytes()).unwrap();
        cases_f.flush().unwrap();
        *shapes.entry(prog.shape).or_default() += 1;
        for t in &prog.txns { for s in &t.steps { if let Step::Session(_, _, _, ops, _) = s { for o in ops {
            *opk.entry(match o { COp::PeekNext => "peek_next", COp::PeekPrev => "peek_prev", COp::Next => "next", COp::Prev => "prev", COp::InsBefore(..) => "insert_before", COp::InsAfter(..) => "insert_after", COp::RemNext => "remove_next", COp::RemPrev => "remove_prev" }).or_default() += 1;
        } } } }
        if samples.len() < 2 && text.len() < 500 { samples.push(text.replace('\n', " | ")); }
        let chosen: Vec<usize> = if from_file.is_some() { (0..cfgs.len()).collect() } else if let Some(ps) = prog.target_page {
            // under the configuration the keys were sized for, and sometimes under the smallest pages as well (keys of several pages)
            let mut c = vec![cfgs.iter().position(|c| c.page_size == ps).unwrap()];
            if c[0] != 0 && pr.chance(1, 3) { c.push(0); }
            c
        } else {
            let mut c = vec![0usize];
            let x = 1 + pr.below(cfgs.len() as u64 - 1) as usize;
            c.push(x);
            c
        };
        let mut hit = false;
        for (ci, cfg) in cfgs.iter().enumerate() {
            let o = outs.entry(cfg.name).or_default();
            if chosen.contains(&ci) {
                let mut mk = Markers::default();
                writeln!(progress_f, "RUN {} {}", prog.id, cfg.name).unwrap();
                progress_f.flush().unwrap();
                o.push_str(&run_prog(&prog, cfg, &mut mk, shps.entry(cfg.name).or_default()));
                runs += 1;
                if mk.accepted > 0 && mk.rejected > 0 || mk.long_runs > 0 { hit = true; }
                tot.max_height = tot.max_height.max(mk.max_height);
                tot.accepted += mk.accepted; tot.rejected += mk.rejected; tot.long_runs += mk.long_runs;
                tot.flush_crossings += mk.flush_crossings; tot.dir_switches += mk.dir_switches; tot.removes += mk.removes;
            } else {
                writeln!(o, "SKIP {}", prog.id).unwrap();
            }
        }
        if hit && distinct.insert(text) { nontrivial += 1; }
    }
    writeln!(progress_f, "DONE").unwrap();
    for (name, o) in &outs { std::fs::write(format!("impl.{name}.txt"), o).unwrap(); }
    let mut shape_sessions = 0u64;
    for (name, l) in &shps {
        std::fs::write(format!("shapein.{name}.txt"), &l.input).unwrap();
        std::fs::write(format!("shapeimpl.{name}.txt"), &l.output).unwrap();
        shape_sessions += l.sessions;
    }
    let mut st = String::new();
    writeln!(st, "programs={} runs={} distinct_nontrivial={}", n, runs, nontrivial).unwrap();
    writeln!(st, "markers=max_height:{},inserts_accepted:{},inserts_rejected:{},runs_of_20_or_more:{},runs_crossing_INSERT_FLUSH_BYTES:{},direction_switches_inside_a_run:{},removals:{}",
        tot.max_height, tot.accepted, tot.rejected, tot.long_runs, tot.flush_crossings, tot.dir_switches, tot.removes).unwrap();
    writeln!(st, "shape_sessions={}", shape_sessions).unwrap();
    writeln!(st, "opkinds={}", opk.iter().map(|(k, v)| format!("{k}:{v}")).collect::<Vec<_>>().join(",")).unwrap();
    writeln!(st, "shapes={}", shapes.iter().map(|(k, v)| format!("{k}:{v}")).collect::<Vec<_>>().join(",")).unwrap();
    for s in samples { writeln!(st, "sample={s}").unwrap(); }
    std::fs::write("stats.txt", &st).unwrap();
    print!("{st}");
}
