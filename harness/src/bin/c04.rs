//! C04 harness: random table programs run on the REAL crate under several storage configurations.
//! usage: c04 <n_programs>
//! writes (into the cwd)  cases.txt            the operation log (input of ocaml/c04_driver.ml)
//!                        impl.<cfg>.txt       what redb returned, one line per log line, per configuration
//!                        stats.txt            measured distribution / path markers
//! The log format is documented in ocaml/c04_driver.ml.
use redb::{
    Builder, Database, Key, ReadableDatabase, ReadableTable, ReadableTableMetadata, Table,
    TableDefinition, TableError, Value,
};
use rv_harness::backend::RecBackend;
use rv_harness::{Rng, catch, hex, seed_from_env, silence_panics, tier_is_thorough};
use std::collections::BTreeMap;
use std::fmt::Write as _;
use std::ops::Bound;

#[path = "../c04_util.rs"]
mod util;
use util::*;

// ------------------------------------------------------------------------------------------------ execution

struct Markers {
    max_height: u32,
    leaf_splits: u64,
    leaf_merges: u64,
    height_grow: u64,
    height_shrink: u64,
    branch_pages_max: u64,
    ops_on_clean: u64,
    ops_on_dirty: u64,
}

fn pred_eval(kt: KType, m: u64, r: u64, k: &[u8], v: &[u8]) -> bool {
    let h: u128 = match kt {
        KType::U64 => u64::from_le_bytes(k.try_into().unwrap()) as u128,
        _ => k.iter().map(|b| *b as u128).sum(),
    };
    ((h + v.len() as u128) % (m as u128)) < r as u128
}

fn enc<T: Value>(v: &T::SelfType<'_>) -> Vec<u8> {
    T::as_bytes(v).as_ref().to_vec()
}

fn bound_of<'a, K: Key + 'static>(b: &'a BoundS) -> Bound<K::SelfType<'a>> {
    match b {
        BoundS::U => Bound::Unbounded,
        BoundS::I(k) => Bound::Included(K::from_bytes(k)),
        BoundS::E(k) => Bound::Excluded(K::from_bytes(k)),
    }
}

type Reserve<K, V> = fn(&mut Table<K, V>, &[u8], &[u8]);

fn reserve_bytes<K: Key + 'static>(t: &mut Table<K, &'static [u8]>, k: &[u8], v: &[u8]) {
    let mut g = t.insert_reserve(K::from_bytes(k), v.len()).unwrap();
    let dst: &mut [u8] = <AccessGuardInPlace<'_> as AsMut<[u8]>>::as_mut(&mut g);
    dst.copy_from_slice(v);
}
type AccessGuardInPlace<'a> = redb::AccessGuardMutInPlace<'a, &'static [u8]>;

fn dump<K: Key + 'static, V: Value + 'static>(db: &Database, def: TableDefinition<K, V>, tag: &str, out: &mut String, flip: bool) {
    let r = db.begin_read().unwrap();
    match r.open_table(def) {
        Ok(t) => {
            let n = t.len().unwrap();
            let mut es = vec![];
            if flip {
                for e in t.iter().unwrap().rev() {
                    let (k, v) = e.unwrap();
                    es.push(format!("{}={}", canon(&enc::<K>(&k.value())), canon(&enc::<V>(&v.value()))));
                }
                es.reverse();
            } else {
                for e in t.iter().unwrap() {
                    let (k, v) = e.unwrap();
                    es.push(format!("{}={}", canon(&enc::<K>(&k.value())), canon(&enc::<V>(&v.value()))));
                }
            }
            writeln!(out, "{} {} {}", tag, n, plist(&es)).unwrap();
        }
        Err(TableError::TableDoesNotExist(_)) => {
            writeln!(out, "{} 0 -", tag).unwrap();
        }
        Err(e) => {
            writeln!(out, "{} ERR {:?}", tag, e).unwrap();
        }
    }
}

fn pe<K: Key + 'static, V: Value + 'static>(k: &K::SelfType<'_>, v: &V::SelfType<'_>) -> String {
    format!("{}={}", canon(&enc::<K>(k)), canon(&enc::<V>(v)))
}

fn exec_op<K: Key + 'static, V: Value + 'static>(
    t: &mut Table<K, V>,
    op: &Op,
    kt: KType,
    reserve: Option<Reserve<K, V>>,
    out: &mut String,
) {
    match op {
        Op::Insert(k, v) => {
            let old = t.insert(K::from_bytes(k), V::from_bytes(v)).unwrap();
            let s = match old {
                Some(g) => canon(&enc::<V>(&g.value())),
                None => "none".into(),
            };
            writeln!(out, "I {s}").unwrap();
        }
        Op::Reserve(k, v) => {
            (reserve.expect("reserve op on a table without insert_reserve"))(t, k, v);
            writeln!(out, "R ok").unwrap();
        }
        Op::Get(k) => {
            let s = match t.get(K::from_bytes(k)).unwrap() {
                Some(g) => canon(&enc::<V>(&g.value())),
                None => "none".into(),
            };
            writeln!(out, "G {s}").unwrap();
        }
        Op::GetMut(k, a, b) => match t.get_mut(K::from_bytes(k)).unwrap() {
            None => writeln!(out, "M none").unwrap(),
            Some(mut g) => {
                let mut s = format!("M {}", canon(&enc::<V>(&g.value())));
                for x in [a, b].into_iter().flatten() {
                    g.insert(V::from_bytes(x)).unwrap();
                    write!(s, " {}", canon(&enc::<V>(&g.value()))).unwrap();
                }
                writeln!(out, "{s}").unwrap();
            }
        },
        Op::EntryOrInsert(k, v) => {
            let g = t.entry(K::from_bytes(k)).unwrap().or_insert(V::from_bytes(v)).unwrap();
            writeln!(out, "EO {}", canon(&enc::<V>(&g.value()))).unwrap();
        }
        Op::EntryModify(k, v2, vdef) => {
            let g = t
                .entry(K::from_bytes(k))
                .unwrap()
                .and_modify(|g| g.insert(V::from_bytes(v2)))
                .unwrap()
                .or_insert(V::from_bytes(vdef))
                .unwrap();
            writeln!(out, "EM {}", canon(&enc::<V>(&g.value()))).unwrap();
        }
        Op::EntryInsert(k, v) => match t.entry(K::from_bytes(k)).unwrap() {
            redb::Entry::Occupied(mut e) => {
                let old = e.insert(V::from_bytes(v)).unwrap();
                writeln!(out, "EI occ {}", canon(&enc::<V>(&old.value()))).unwrap();
            }
            redb::Entry::Vacant(e) => {
                let g = e.insert(V::from_bytes(v)).unwrap();
                writeln!(out, "EI vac {}", canon(&enc::<V>(&g.value()))).unwrap();
            }
        },
        Op::EntryRemove(k) => match t.entry(K::from_bytes(k)).unwrap() {
            redb::Entry::Occupied(e) => {
                let old = e.remove().unwrap();
                writeln!(out, "ER occ {}", canon(&enc::<V>(&old.value()))).unwrap();
            }
            redb::Entry::Vacant(_) => writeln!(out, "ER vac").unwrap(),
        },
        Op::EntryRemoveEntry(k) => match t.entry(K::from_bytes(k)).unwrap() {
            redb::Entry::Occupied(e) => {
                let (kk, old) = e.remove_entry().unwrap();
                writeln!(out, "EE occ {}", pe::<K, V>(&kk, &old.value())).unwrap();
            }
            redb::Entry::Vacant(_) => writeln!(out, "EE vac").unwrap(),
        },
        Op::EntryGet(k) => match t.entry(K::from_bytes(k)).unwrap() {
            redb::Entry::Occupied(e) => {
                let g = e.get().unwrap();
                writeln!(out, "EG occ {}", canon(&enc::<V>(&g.value()))).unwrap();
            }
            redb::Entry::Vacant(_) => writeln!(out, "EG vac").unwrap(),
        },
        Op::Remove(k) => {
            let s = match t.remove(K::from_bytes(k)).unwrap() {
                Some(g) => canon(&enc::<V>(&g.value())),
                None => "none".into(),
            };
            writeln!(out, "D {s}").unwrap();
        }
        Op::PopFirst => {
            let s = match t.pop_first().unwrap() {
                Some((k, v)) => pe::<K, V>(&k.value(), &v.value()),
                None => "none".into(),
            };
            writeln!(out, "PF {s}").unwrap();
        }
        Op::PopLast => {
            let s = match t.pop_last().unwrap() {
                Some((k, v)) => pe::<K, V>(&k.value(), &v.value()),
                None => "none".into(),
            };
            writeln!(out, "PL {s}").unwrap();
        }
        Op::First => {
            let s = match t.first().unwrap() {
                Some((k, v)) => pe::<K, V>(&k.value(), &v.value()),
                None => "none".into(),
            };
            writeln!(out, "F {s}").unwrap();
        }
        Op::Last => {
            let s = match t.last().unwrap() {
                Some((k, v)) => pe::<K, V>(&k.value(), &v.value()),
                None => "none".into(),
            };
            writeln!(out, "L {s}").unwrap();
        }
        Op::Len => writeln!(out, "N {}", t.len().unwrap()).unwrap(),
        Op::Range(lo, hi, script) => {
            let mut it = t.range((bound_of::<K>(lo), bound_of::<K>(hi))).unwrap();
            let mut outs: Vec<String> = vec![];
            for c in script.chars() {
                match c {
                    'f' => outs.push(match it.next() {
                        Some(e) => {
                            let (k, v) = e.unwrap();
                            pe::<K, V>(&k.value(), &v.value())
                        }
                        None => "~".into(),
                    }),
                    'b' => outs.push(match it.next_back() {
                        Some(e) => {
                            let (k, v) = e.unwrap();
                            pe::<K, V>(&k.value(), &v.value())
                        }
                        None => "~".into(),
                    }),
                    'd' => {
                        for e in it.by_ref() {
                            let (k, v) = e.unwrap();
                            outs.push(pe::<K, V>(&k.value(), &v.value()));
                        }
                    }
                    'D' => {
                        while let Some(e) = it.next_back() {
                            let (k, v) = e.unwrap();
                            outs.push(pe::<K, V>(&k.value(), &v.value()));
                        }
                    }
                    _ => {}
                }
            }
            writeln!(out, "Q {}", plist(&outs)).unwrap();
        }
        Op::Retain(m, r) => {
            let (m, r) = (*m, *r);
            t.retain(|k, v| pred_eval(kt, m, r, &enc::<K>(&k), &enc::<V>(&v))).unwrap();
            writeln!(out, "T ok").unwrap();
        }
        Op::RetainIn(lo, hi, m, r) => {
            let (m, r) = (*m, *r);
            t.retain_in((bound_of::<K>(lo), bound_of::<K>(hi)), |k, v| pred_eval(kt, m, r, &enc::<K>(&k), &enc::<V>(&v)))
                .unwrap();
            writeln!(out, "U ok").unwrap();
        }
        Op::Extract(lo, hi, m, r, script, full_api) => {
            let (m, r) = (*m, *r);
            let p = move |k: K::SelfType<'_>, v: V::SelfType<'_>| pred_eval(kt, m, r, &enc::<K>(&k), &enc::<V>(&v));
            let mut outs: Vec<String> = vec![];
            {
                let mut it = if *full_api {
                    t.extract_if(p).unwrap()
                } else {
                    t.extract_from_if((bound_of::<K>(lo), bound_of::<K>(hi)), p).unwrap()
                };
                for c in script.chars() {
                    let e = match c {
                        'f' => it.next(),
                        'b' => it.next_back(),
                        'd' => {
                            // drain from the front until the iterator reports exhaustion
                            while let Some(e) = it.next() {
                                let (k, v) = e.unwrap();
                                outs.push(pe::<K, V>(&k.value(), &v.value()));
                            }
                            continue;
                        }
                        'D' => {
                            while let Some(e) = it.next_back() {
                                let (k, v) = e.unwrap();
                                outs.push(pe::<K, V>(&k.value(), &v.value()));
                            }
                            continue;
                        }
                        _ => continue,
                    };
                    outs.push(match e {
                        Some(e) => {
                            let (k, v) = e.unwrap();
                            pe::<K, V>(&k.value(), &v.value())
                        }
                        None => "~".into(),
                    });
                }
                if script.ends_with('c') {
                    it.close().unwrap();
                }
            }
            writeln!(out, "X {}", plist(&outs)).unwrap();
        }
    }
}

fn exec<K: Key + 'static, V: Value + 'static>(
    prog: &Program,
    cfg: &Config,
    reserve: Option<Reserve<K, V>>,
    mk: &mut Markers,
    out: &mut String,
) {
    let def: TableDefinition<K, V> = TableDefinition::new("t");
    let backend = RecBackend::new();
    backend.0.lock().unwrap().record = false;
    let mut builder = Builder::new();
    builder.verif_set_page_size(cfg.page_size);
    if let Some(rs) = cfg.region_size {
        builder.verif_set_region_size(rs);
    }
    if let Some(cs) = cfg.cache_size {
        builder.set_cache_size(cs);
    }
    writeln!(out, "C {}", prog.id).unwrap();
    let mut db = builder.create_with_backend(backend.handle()).unwrap();
    let mut flip = false;
    for txn in &prog.txns {
        let w = db.begin_write().unwrap();
        writeln!(out, "B").unwrap();
        {
            let mut t = w.open_table(def).unwrap();
            let mut prev = t.stats().unwrap();
            for (i, op) in txn.ops.iter().enumerate() {
                exec_op::<K, V>(&mut t, op, prog.kt, reserve, out);
                if op.mutates() {
                    if i == 0 { mk.ops_on_clean += 1 } else { mk.ops_on_dirty += 1 }
                    let st = t.stats().unwrap();
                    if st.leaf_pages() > prev.leaf_pages() { mk.leaf_splits += 1 }
                    if st.leaf_pages() < prev.leaf_pages() { mk.leaf_merges += 1 }
                    if st.tree_height() > prev.tree_height() { mk.height_grow += 1 }
                    if st.tree_height() < prev.tree_height() { mk.height_shrink += 1 }
                    mk.max_height = mk.max_height.max(st.tree_height());
                    mk.branch_pages_max = mk.branch_pages_max.max(st.branch_pages());
                    prev = st;
                }
            }
        }
        match txn.end {
            End::Commit => {
                w.commit().unwrap();
                flip = !flip;
                dump::<K, V>(&db, def, "K", out, flip);
            }
            End::Abort => {
                w.abort().unwrap();
                dump::<K, V>(&db, def, "A", out, flip);
            }
        }
        if txn.reopen {
            drop(db);
            db = builder.create_with_backend(backend.handle()).unwrap();
            dump::<K, V>(&db, def, "O", out, !flip);
        }
    }
}

// ------------------------------------------------------------------------------------------------ shape mode (S2)
// Runs a shape program under its own page size and prints, after the opening of every transaction and
// after EVERY operation, the real tree (Table::verif_shape, uncommitted pages included).

fn emit_shape(out: &mut String, sh: &redb::verif::VShape, verbose: bool) {
    let t = shape_line(sh);
    if verbose {
        writeln!(out, "{t}").unwrap();
    } else {
        // length + FNV-1a digest of the canonical text (the full text is printed in verbose mode: replay / diagnosis)
        let mut h: u64 = 0xcbf29ce484222325;
        for x in t.as_bytes() { h = (h ^ (*x as u64)).wrapping_mul(0x100000001b3); }
        writeln!(out, "S {} #{}:{:016x}", sh.length, t.len(), h).unwrap();
    }
}

fn exec_shape<K: Key + 'static, V: Value + 'static>(prog: &Program, reserve: Option<Reserve<K, V>>, out: &mut String, max_depth: &mut u32, verbose: bool) {
    let def: TableDefinition<K, V> = TableDefinition::new("t");
    let backend = RecBackend::new();
    backend.0.lock().unwrap().record = false;
    let mut builder = Builder::new();
    builder.verif_set_page_size(prog.page);
    writeln!(out, "C {}", prog.id).unwrap();
    let db = builder.create_with_backend(backend.handle()).unwrap();
    for txn in &prog.txns {
        let w = db.begin_write().unwrap();
        {
            let mut t = w.open_table(def).unwrap();
            writeln!(out, "B").unwrap();
            emit_shape(out, &t.verif_shape().unwrap(), verbose);
            for op in &txn.ops {
                exec_op::<K, V>(&mut t, op, prog.kt, reserve, out);
                let sh = t.verif_shape().unwrap();
                for n in &sh.nodes { *max_depth = (*max_depth).max(n.depth); }
                emit_shape(out, &sh, verbose);
            }
        }
        match txn.end {
            End::Commit => { w.commit().unwrap(); writeln!(out, "K").unwrap(); }
            End::Abort => { w.abort().unwrap(); writeln!(out, "A").unwrap(); }
        }
    }
}

fn run_shape_prog(prog: &Program, max_depth: &mut u32, verbose: bool) -> String {
    let mut out = String::new();
    let r = catch(|| match (prog.kt, prog.vt) {
        (KType::Bytes, VType::Bytes) => exec_shape::<&[u8], &[u8]>(prog, Some(reserve_bytes::<&[u8]>), &mut out, max_depth, verbose),
        (KType::U64, VType::Bytes) => exec_shape::<u64, &[u8]>(prog, Some(reserve_bytes::<u64>), &mut out, max_depth, verbose),
        (KType::Str, VType::U64) => exec_shape::<&str, u64>(prog, None, &mut out, max_depth, verbose),
        (KType::Str, VType::Bytes) => exec_shape::<&str, &[u8]>(prog, Some(reserve_bytes::<&str>), &mut out, max_depth, verbose),
        (KType::Bytes, VType::U64) => exec_shape::<&[u8], u64>(prog, None, &mut out, max_depth, verbose),
        (KType::U64, VType::U64) => exec_shape::<u64, u64>(prog, None, &mut out, max_depth, verbose),
    });
    if let Err(msg) = r {
        if !out.starts_with("C ") { out = format!("C {}\n", prog.id); }
        if !out.ends_with('\n') { out.push('\n'); }
        out.push_str(&format!("PANIC {}\n", msg.replace('\n', " ")));
    }
    out
}

/// c04 shape <n> [level]  |  c04 shapefile <file>
fn shape_main(args: &[String]) {
    use std::io::Write as _;
    let from_file: Option<Vec<Program>> = if args[1] == "shapefile" {
        Some(parse_programs(&std::fs::read_to_string(&args[2]).unwrap()))
    } else {
        None
    };
    let n: u64 = match &from_file { Some(p) => p.len() as u64, None => args.get(2).map(|s| s.parse().unwrap()).unwrap_or(50) };
    let level: u32 = if from_file.is_some() { 2 } else { args.get(3).map(|s| s.parse().unwrap()).unwrap_or(1) };
    let verbose = from_file.is_some() || args.iter().any(|a| a == "verbose");
    let mut r = Rng::new(seed_from_env() ^ 0x5C04);
    let mut cases_f = std::fs::File::create("shape_cases.txt").unwrap();
    let mut impl_f = std::fs::File::create("shape_impl.txt").unwrap();
    let mut progress_f = std::fs::File::create("shape_progress.txt").unwrap();
    let mut opk: BTreeMap<&'static str, u64> = BTreeMap::new();
    let mut shapes: BTreeMap<&'static str, u64> = BTreeMap::new();
    let mut tables: BTreeMap<String, u64> = BTreeMap::new();
    let mut pages: BTreeMap<usize, u64> = BTreeMap::new();
    let mut depth_hist: BTreeMap<u32, u64> = BTreeMap::new();
    let mut total_ops = 0u64;
    // level 4: one extract sweep program (gen_shape_sweep_program) per five random programs, appended with their own ids
    let n_sweeps: u64 = if from_file.is_none() && level >= 4 { n / 5 } else { 0 };
    for id in 0..(n + n_sweeps) {
        let mut pr = r.fork(id);
        let prog = match &from_file {
            Some(p) => p[id as usize].clone(),
            None if id >= n => util::gen_shape_sweep_program(&mut pr, id, tier_is_thorough()),
            None => gen_shape_program(&mut pr, id, tier_is_thorough(), level),
        };
        cases_f.write_all(prog.to_text().as_bytes()).unwrap();
        cases_f.flush().unwrap();
        *shapes.entry(prog.shape).or_default() += 1;
        *tables.entry(format!("{:?},{:?}", prog.kt, prog.vt)).or_default() += 1;
        *pages.entry(prog.page).or_default() += 1;
        for t in &prog.txns { for op in &t.ops { *opk.entry(op.kind()).or_default() += 1; total_ops += 1; } }
        writeln!(progress_f, "RUN {} p{}", prog.id, prog.page).unwrap();
        progress_f.flush().unwrap();
        let mut md = 0u32;
        let o = run_shape_prog(&prog, &mut md, verbose);
        *depth_hist.entry(md).or_default() += 1;
        impl_f.write_all(o.as_bytes()).unwrap();
    }
    writeln!(progress_f, "DONE").unwrap();
    let mut st = String::new();
    writeln!(st, "shape_programs={} shape_ops={}", n + n_sweeps, total_ops).unwrap();
    writeln!(st, "shape_opkinds={}", opk.iter().map(|(k, v)| format!("{k}:{v}")).collect::<Vec<_>>().join(",")).unwrap();
    writeln!(st, "shape_shapes={}", shapes.iter().map(|(k, v)| format!("{k}:{v}")).collect::<Vec<_>>().join(",")).unwrap();
    writeln!(st, "shape_tables={}", tables.iter().map(|(k, v)| format!("{k}:{v}")).collect::<Vec<_>>().join(";")).unwrap();
    writeln!(st, "shape_page_sizes={}", pages.iter().map(|(k, v)| format!("{k}:{v}")).collect::<Vec<_>>().join(",")).unwrap();
    writeln!(st, "shape_max_depth_of_program={}", depth_hist.iter().map(|(k, v)| format!("{k}:{v}")).collect::<Vec<_>>().join(",")).unwrap();
    std::fs::write("shape_stats.txt", &st).unwrap();
    print!("{st}");
}

fn run_prog(prog: &Program, cfg: &Config, mk: &mut Markers) -> String {
    // the output produced before a panic is kept: the first differing line is then the operation that panicked
    let mut out = String::new();
    let r = catch(|| match (prog.kt, prog.vt) {
        (KType::Bytes, VType::Bytes) => exec::<&[u8], &[u8]>(prog, cfg, Some(reserve_bytes::<&[u8]>), mk, &mut out),
        (KType::U64, VType::Bytes) => exec::<u64, &[u8]>(prog, cfg, Some(reserve_bytes::<u64>), mk, &mut out),
        (KType::Str, VType::U64) => exec::<&str, u64>(prog, cfg, None, mk, &mut out),
        (KType::Str, VType::Bytes) => exec::<&str, &[u8]>(prog, cfg, Some(reserve_bytes::<&str>), mk, &mut out),
        (KType::Bytes, VType::U64) => exec::<&[u8], u64>(prog, cfg, None, mk, &mut out),
        (KType::U64, VType::U64) => exec::<u64, u64>(prog, cfg, None, mk, &mut out),
    });
    if let Err(msg) = r {
        if !out.starts_with("C ") { out = format!("C {}\n", prog.id); }
        if !out.ends_with('\n') { out.push('\n'); }
        out.push_str(&format!("PANIC {}\n", msg.replace('\n', " ")));
    }
    out
}

fn main() {
    silence_panics();
    let args: Vec<String> = std::env::args().collect();
    if matches!(args.get(1).map(|s| s.as_str()), Some("shape") | Some("shapefile")) {
        shape_main(&args);
        return;
    }
    // file mode: c04 file <cases file>  -- run the given programs under EVERY configuration
    let from_file: Option<Vec<Program>> = if args.get(1).map(|s| s.as_str()) == Some("file") {
        Some(parse_programs(&std::fs::read_to_string(&args[2]).unwrap()))
    } else {
        None
    };
    let n: u64 = match &from_file { Some(p) => p.len() as u64, None => args.get(1).map(|s| s.parse().unwrap()).unwrap_or(50) };
    let seed = seed_from_env();
    let mut r = Rng::new(seed ^ 0xC04);
    let cfgs = configs();
    use std::io::Write as _;
    // cases.txt and progress.txt are written incrementally: if the crate aborts the process (a panic while
    // unwinding), the check still knows which program under which configuration did it
    let mut cases_f = std::fs::File::create("cases.txt").unwrap();
    let mut progress_f = std::fs::File::create("progress.txt").unwrap();
    let mut outs: BTreeMap<&'static str, String> = BTreeMap::new();
    let mut distinct = std::collections::HashSet::new();
    let mut nontrivial = 0u64;
    let mut opk: BTreeMap<&'static str, u64> = BTreeMap::new();
    let mut vclass: BTreeMap<&'static str, u64> = BTreeMap::new();
    let mut tot = Markers { max_height: 0, leaf_splits: 0, leaf_merges: 0, height_grow: 0, height_shrink: 0, branch_pages_max: 0, ops_on_clean: 0, ops_on_dirty: 0 };
    let mut per_cfg_runs: BTreeMap<&'static str, u64> = BTreeMap::new();
    let mut shapes: BTreeMap<&'static str, u64> = BTreeMap::new();
    let mut tables: BTreeMap<String, u64> = BTreeMap::new();
    let mut total_ops = 0u64;
    let mut samples: Vec<String> = vec![];
    for id in 0..n {
        let mut pr = r.fork(id);
        let prog = match &from_file { Some(p) => p[id as usize].clone(), None => gen_program(&mut pr, id, tier_is_thorough()) };
        let text = prog.to_text();
        cases_f.write_all(text.as_bytes()).unwrap();
        cases_f.flush().unwrap();
        *shapes.entry(prog.shape).or_default() += 1;
        *tables.entry(format!("{:?},{:?}", prog.kt, prog.vt)).or_default() += 1;
        for t in &prog.txns {
            for op in &t.ops {
                *opk.entry(op.kind()).or_default() += 1;
                total_ops += 1;
                if let Some(c) = op.value_class(prog.base) { *vclass.entry(c).or_default() += 1; }
            }
        }
        if samples.len() < 2 && prog.txns.iter().map(|t| t.ops.len()).sum::<usize>() < 14 {
            samples.push(text.replace('\n', " | "));
        }
        // every program runs at 512 plus two more configurations chosen by the program's own stream
        let mut chosen: Vec<usize> = if from_file.is_some() { (0..cfgs.len()).collect() } else { vec![0] };
        while chosen.len() < 3 {
            let c = pr.below(cfgs.len() as u64) as usize;
            if !chosen.contains(&c) { chosen.push(c); }
        }
        let mut hit = false;
        for (ci, cfg) in cfgs.iter().enumerate() {
            let o = outs.entry(cfg.name).or_default();
            if chosen.contains(&ci) {
                let mut mk = Markers { max_height: 0, leaf_splits: 0, leaf_merges: 0, height_grow: 0, height_shrink: 0, branch_pages_max: 0, ops_on_clean: 0, ops_on_dirty: 0 };
                writeln!(progress_f, "RUN {} {}", prog.id, cfg.name).unwrap();
                progress_f.flush().unwrap();
                o.push_str(&run_prog(&prog, cfg, &mut mk));
                *per_cfg_runs.entry(cfg.name).or_default() += 1;
                if mk.max_height >= 2 { hit = true; }
                tot.max_height = tot.max_height.max(mk.max_height);
                tot.leaf_splits += mk.leaf_splits; tot.leaf_merges += mk.leaf_merges;
                tot.height_grow += mk.height_grow; tot.height_shrink += mk.height_shrink;
                tot.branch_pages_max = tot.branch_pages_max.max(mk.branch_pages_max);
                tot.ops_on_clean += mk.ops_on_clean; tot.ops_on_dirty += mk.ops_on_dirty;
            } else {
                // not run under this configuration: marker line so that line numbers stay aligned per program
                writeln!(o, "SKIP {}", prog.id).unwrap();
            }
        }
        if hit && distinct.insert(text) { nontrivial += 1; }
    }
    writeln!(progress_f, "DONE").unwrap();
    for (name, o) in &outs {
        std::fs::write(format!("impl.{name}.txt"), o).unwrap();
    }
    let mut st = String::new();
    writeln!(st, "programs={} ops={} distinct_nontrivial={}", n, total_ops, nontrivial).unwrap();
    writeln!(st, "configs={}", cfgs.iter().map(|c| format!("{}:{}", c.name, per_cfg_runs.get(c.name).copied().unwrap_or(0))).collect::<Vec<_>>().join(",")).unwrap();
    writeln!(st, "markers=max_height:{},leaf_page_count_up:{},leaf_page_count_down:{},height_grow:{},height_shrink:{},branch_pages_max:{},first_op_of_txn(clean pages):{},later_ops(dirty pages):{}",
        tot.max_height, tot.leaf_splits, tot.leaf_merges, tot.height_grow, tot.height_shrink, tot.branch_pages_max, tot.ops_on_clean, tot.ops_on_dirty).unwrap();
    writeln!(st, "opkinds={}", opk.iter().map(|(k, v)| format!("{k}:{v}")).collect::<Vec<_>>().join(",")).unwrap();
    writeln!(st, "valueclasses={}", vclass.iter().map(|(k, v)| format!("{k}:{v}")).collect::<Vec<_>>().join(",")).unwrap();
    writeln!(st, "shapes={}", shapes.iter().map(|(k, v)| format!("{k}:{v}")).collect::<Vec<_>>().join(",")).unwrap();
    writeln!(st, "tables={}", tables.iter().map(|(k, v)| format!("{k}:{v}")).collect::<Vec<_>>().join(";")).unwrap();
    for s in samples { writeln!(st, "sample={s}").unwrap(); }
    std::fs::write("stats.txt", &st).unwrap();
    print!("{st}");
    let _ = hex(&[]);
}
