(* Line-protocol driver around the extracted C05 model (coq/Txn/Abandon.v, Poison.v over Own.v).

   stdin: c05_cases.txt / fcases.txt written by harness/src/bin/c05.rs, one block per abandoned transaction
     R <label> ...                        new block
     P k=v ...                            observed abstract state right before begin_write   (mode A)
     O <op> <args>                        model steps of the body, in order (syntax of c06_driver.ml)
     C <kind> <mutated 0|1> <io|logical|panic> <poisoned before> <latched before> <poisoned after> <latched after>
                                          a call that FAILED: the flags observed around it
     L <kind> <staged 0|1|-> <poisoned after> <latched after>    the same for an argument / state error after a damaged read
     K <kind> <unreported part staged 0|1|-> <poisoned after> <latched after>
                                          a call that failed with Err(Corrupted) (a corrupted read: harness c05c) in a
                                          transaction that was not poisoned; `-`: entry-by-entry call, staged not judged
     E <abort|drop|commit> <poisoned 0|1> <latched 0|1> <result>    how the transaction ended and what the call returned
     Q k=v ...                            observed abstract state after the end               (mode A)
   stdout, one line per block:
     <label> S3=ok|DIFF:<fields>|none FLAGS=ok|DIFF:<i>:<what> END=ok|DIFF:<what>
   S3    = the statement of theorem abort_restores_eq evaluated on the observation:
           extracted `bump (run (pin_part body) pre)` must equal the observed post state (as sets).
   FLAGS = extracted `flags_after` (the flag part of Poison.exec, theorem flags_after_exec) against the
           observed poisoned / latched flags of every failed call.  For I/O errors the b-tree's internal
           "lost changes" flag is not observable, so there the model's poisoned flag is a lower bound:
           model poisoned => observed poisoned; logical errors must not have mutated the transaction.
           K lines: extracted `corrupt_outcome_ok` / `corrupt_poison_ok` (theorem corrupt_outcome_sound: every
           outcome the model can produce passes) must accept the observed pair; a corrupted read never latches.
   END   = extracted `commit_result` against the observed result of commit(); abort() fails iff latched. *)
open C05_model

let rec pos_of_int (i : int) : positive =
  if i <= 0 then failwith "pos_of_int" else if i = 1 then XH
  else if i land 1 = 1 then XI (pos_of_int (i lsr 1)) else XO (pos_of_int (i lsr 1))
let n_of_int (i : int) : n = if i = 0 then N0 else Npos (pos_of_int i)
let rec int_of_pos = function XH -> 1 | XO p -> 2 * int_of_pos p | XI p -> 2 * int_of_pos p + 1
let int_of_n = function N0 -> 0 | Npos p -> int_of_pos p

let split c s = if s = "" then [] else String.split_on_char c s
let plist (s : string) : positive list =
  if s = "-" || s = "" then [] else List.map (fun x -> pos_of_int (int_of_string x)) (split ',' s)
let nlist (s : string) : n list =
  if s = "-" || s = "" then [] else List.map (fun x -> n_of_int (int_of_string x)) (split ',' s)
let ptab (s : string) : (n * positive list) list =
  if s = "-" || s = "" then [] else
    List.map (fun e -> match split ':' e with
      | [k; v] -> (n_of_int (int_of_string k), plist v)
      | _ -> failwith ("bad table entry " ^ e)) (split ';' s)
let pver (s : string) : ver =
  match split '|' s with
  | [i; d; y] -> { vid = n_of_int (int_of_string i); vdata = plist d; vsys = plist y }
  | _ -> failwith ("bad version " ^ s)
let ppins (s : string) : pin list =
  if s = "-" || s = "" then [] else
    List.map (fun e -> match split ':' e with
      | [h; t; p; pages] -> { ph = n_of_int (int_of_string h); ptxn = n_of_int (int_of_string t);
                              ppersist = (p = "1"); ppages = plist pages }
      | _ -> failwith ("bad pin " ^ e)) (split ';' s)
let ppend (s : string) : (n * n) list =
  if s = "-" || s = "" then [] else
    List.map (fun e -> match split ':' e with
      | [a; b] -> (n_of_int (int_of_string a), n_of_int (int_of_string b))
      | _ -> failwith ("bad pend " ^ e)) (split ';' s)

let parse_state (fields : string list) : st =
  let tbl = Hashtbl.create 32 in
  List.iter (fun f -> match String.index_opt f '=' with
    | Some i -> Hashtbl.replace tbl (String.sub f 0 i) (String.sub f (i + 1) (String.length f - i - 1))
    | None -> ()) fields;
  let g k = try Hashtbl.find tbl k with Not_found -> failwith ("missing field " ^ k) in
  { alloc = plist (g "alloc"); lastid = n_of_int (int_of_string (g "lastid"));
    dur = pver (g "dur"); lat = pver (g "lat");
    dfreed = ptab (g "dfreed"); sfreed = ptab (g "sfreed"); ufreed = ptab (g "ufreed");
    unpers = plist (g "unpers"); pca = plist (g "pca"); pins = ppins (g "pins"); pend = ppend (g "pend");
    inw = (g "inw" = "1"); wdata = plist (g "wdata"); wsys = plist (g "wsys"); wasc = plist (g "wasc");
    wdfr = plist (g "wdfr"); wsfr = plist (g "wsfr"); wdfreed = ptab (g "wdfreed");
    wrest = (if g "wrest" = "-" then None else Some (n_of_int (int_of_string (g "wrest"))));
    wcreated = nlist (g "wcreated"); wdeleted = nlist (g "wdeleted") }

let parse_op (args : string list) : op =
  match args with
  | ["bw"] -> OBeginWrite
  | ["md"; p] -> OMutData (plist p)
  | ["ms"; p] -> OMutSys (plist p)
  | ["br"; h] -> OBeginRead (n_of_int (int_of_string h))
  | ["dp"; h] -> ODropPin (n_of_int (int_of_string h))
  | ["sc"; h; p] -> OSpCreate (n_of_int (int_of_string h), p = "1")
  | ["sd"; h] -> OSpDelete (n_of_int (int_of_string h))
  | ["rs"; h] -> ORestore (n_of_int (int_of_string h))
  | ["ab"] -> OAbort
  | _ -> failwith ("bad body op " ^ String.concat " " args)

let sorted_p (l : positive list) = List.sort compare (List.map int_of_pos l)
let sorted_n (l : n list) = List.sort compare (List.map int_of_n l)
let canon_tab (t : (n * positive list) list) =
  let h = Hashtbl.create 8 in
  List.iter (fun (k, v) -> let k = int_of_n k in
    let old = try Hashtbl.find h k with Not_found -> [] in
    Hashtbl.replace h k (List.map int_of_pos v @ old)) t;
  let l = Hashtbl.fold (fun k v acc -> if v = [] then acc else (k, List.sort compare v) :: acc) h [] in
  List.sort compare l
let canon_pins (l : pin list) =
  List.sort compare (List.map (fun x -> (int_of_n x.ph, int_of_n x.ptxn, x.ppersist, sorted_p x.ppages)) l)
let canon_pend l = List.sort compare (List.map (fun (a, b) -> (int_of_n a, int_of_n b)) l)
let canon_ver v = (int_of_n v.vid, sorted_p v.vdata, sorted_p v.vsys)

let diff_fields (m : st) (o : st) : string list =
  let d = ref [] in
  let chk name b = if not b then d := name :: !d in
  chk "alloc" (sorted_p m.alloc = sorted_p o.alloc);
  chk "lastid" (int_of_n m.lastid = int_of_n o.lastid);
  chk "dur" (canon_ver m.dur = canon_ver o.dur);
  chk "lat" (canon_ver m.lat = canon_ver o.lat);
  chk "dfreed" (canon_tab m.dfreed = canon_tab o.dfreed);
  chk "sfreed" (canon_tab m.sfreed = canon_tab o.sfreed);
  chk "ufreed" (canon_tab m.ufreed = canon_tab o.ufreed);
  chk "unpers" (sorted_p m.unpers = sorted_p o.unpers);
  chk "pca" (sorted_p m.pca = sorted_p o.pca);
  chk "pins" (canon_pins m.pins = canon_pins o.pins);
  chk "pend" (canon_pend m.pend = canon_pend o.pend);
  chk "inw" (m.inw = o.inw);
  chk "wdata" (sorted_p m.wdata = sorted_p o.wdata);
  chk "wsys" (sorted_p m.wsys = sorted_p o.wsys);
  chk "wasc" (sorted_p m.wasc = sorted_p o.wasc);
  chk "wdfr" (sorted_p m.wdfr = sorted_p o.wdfr);
  chk "wsfr" (sorted_p m.wsfr = sorted_p o.wsfr);
  chk "wdfreed" (canon_tab m.wdfreed = canon_tab o.wdfreed);
  chk "wrest" ((match m.wrest with None -> -1 | Some x -> int_of_n x) = (match o.wrest with None -> -1 | Some x -> int_of_n x));
  chk "wcreated" (sorted_n m.wcreated = sorted_n o.wcreated);
  chk "wdeleted" (sorted_n m.wdeleted = sorted_n o.wdeleted);
  List.rev !d

let kind_of = function
  | "write" -> KWrite | "rename" -> KRename | "delete" -> KDelete | "restore" -> KRestore
  | "retain" -> KRetain | "extract" -> KExtract | "cursor" -> KCursor | "savepoint" -> KSavepoint
  | "spdelete" -> KSpDelete | "setting" -> KSetting | "multimap" -> KMultimap
  | s -> failwith ("bad kind " ^ s)
let errk_of = function
  | "io" -> EIo | "logical" -> ELogical | "panic" -> EPanic | "corrupt" -> ECorrupt
  | s -> failwith ("bad error kind " ^ s)

type block = {
  mutable label : string; mutable pre : st option; mutable post : st option;
  mutable ops : op list; mutable calls : string list list; mutable fin : string list option }

let flush (b : block) =
  if b.label <> "" then begin
    let s3 = match b.pre, b.post with
      | Some p, Some q ->
        let body = List.rev b.ops in
        if not (is_body body) then "DIFF:not-a-body"
        else (match diff_fields (bump (run (pin_part body) p)) q with [] -> "ok" | l -> "DIFF:" ^ String.concat "," l)
      | _ -> "none" in
    let bad = ref [] in
    List.iteri (fun i c -> match c with
      | [k; m; e; po0; io0; po1; io1] ->
        let k = kind_of k and e = errk_of e in
        let mut = (m = "1") in
        (* the PartialUpdateGuard of a multimap call is armed at the latest when it mutates (lower bound) *)
        let (mpo, mio) = flags_after k mut e false mut (po0 = "1") (io0 = "1") in
        let opo = (po1 = "1") and oio = (io1 = "1") in
        (match e with
         | EIo ->
           if mio <> oio then bad := Printf.sprintf "%d:latched(model=%b,observed=%b)" i mio oio :: !bad;
           if mpo && not opo then bad := Printf.sprintf "%d:poisoned(model=true,observed=false)" i :: !bad
         | ELogical ->
           if mut then bad := Printf.sprintf "%d:logical-error-after-mutation" i :: !bad;
           if mpo <> opo || mio <> oio then bad := Printf.sprintf "%d:flags(model=%b/%b,observed=%b/%b)" i mpo mio opo oio :: !bad
         | EPanic | ECorrupt ->
           if mpo <> opo || mio <> oio then bad := Printf.sprintf "%d:flags(model=%b/%b,observed=%b/%b)" i mpo mio opo oio :: !bad)
      | ["L"; k; st; po1; io1] ->
        (* an argument / state error reported after a damaged read: either a plain logical error (before any
           mutation, flags unchanged) or a failure caused by the damaged bytes (judged like Err(Corrupted)) *)
        let kk = kind_of k in
        let opo = (po1 = "1") in
        let plain = (st <> "1") && (flags_after kk false ELogical false false false false = (opo, io1 = "1")) in
        let corrupt = (io1 <> "1") && (if st = "-" then corrupt_poison_ok kk opo else corrupt_outcome_ok kk (st = "1") opo) in
        if not (plain || corrupt) then
          bad := Printf.sprintf "%d:logical-error-outcome(kind=%s,staged=%s,poisoned=%b)-not-allowed-by-the-model" i k st opo :: !bad
      | ["K"; k; st; po1; io1] ->
        let kk = kind_of k in
        let opo = (po1 = "1") in
        if io1 = "1" then bad := Printf.sprintf "%d:corrupted-read-latched" i :: !bad;
        let ok = if st = "-" then corrupt_poison_ok kk opo else corrupt_outcome_ok kk (st = "1") opo in
        if not ok then bad := Printf.sprintf "%d:corrupt-outcome(kind=%s,staged=%s,poisoned=%b)-not-allowed-by-the-model" i k st opo :: !bad
      | _ -> bad := Printf.sprintf "%d:unparsed" i :: !bad) (List.rev b.calls);
    let flags = if !bad = [] then "ok" else "DIFF:" ^ String.concat "," (List.rev !bad) in
    let fin = match b.fin with
      | Some [how; po; io; res] ->
        let po = (po = "1") in
        let io = (io = "1") in
        (match how with
         | "commit" ->
           let want = match commit_result po io with COk -> "ok" | CPoisoned -> "poisoned" | CIoError -> "ioerr" in
           if want = res then "ok" else Printf.sprintf "DIFF:commit(model=%s,observed=%s)" want res
         | "abort" ->
           let want = if io then "ioerr" else "ok" in
           if want = res then "ok" else Printf.sprintf "DIFF:abort(model=%s,observed=%s)" want res
         | _ -> "ok")
      | Some ("none" :: _) -> "ok"
      | _ -> "DIFF:no-end" in
    Printf.printf "%s S3=%s FLAGS=%s END=%s\n" b.label s3 flags fin
  end

let () =
  let b = { label = ""; pre = None; post = None; ops = []; calls = []; fin = None } in
  (try
     while true do
       let line = input_line stdin in
       if line <> "" then begin
         match String.split_on_char ' ' line with
         | "R" :: label :: _ ->
           flush b;
           b.label <- label; b.pre <- None; b.post <- None; b.ops <- []; b.calls <- []; b.fin <- None
         | "P" :: fields -> b.pre <- Some (parse_state fields)
         | "Q" :: fields -> b.post <- Some (parse_state fields)
         | "O" :: args -> b.ops <- parse_op args :: b.ops
         | "C" :: args -> b.calls <- args :: b.calls
         | "K" :: args -> b.calls <- ("K" :: args) :: b.calls
         | "L" :: args -> b.calls <- ("L" :: args) :: b.calls
         | "E" :: args -> b.fin <- Some args
         | _ -> failwith ("bad line: " ^ (String.sub line 0 (min 40 (String.length line))))
       end
     done
   with End_of_file -> ());
  flush b
