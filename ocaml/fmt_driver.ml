(* fmt: command-line reader of redb v3 database images built around the extracted Coq format model
   (coq/Format/*.v).  See design.d/FORMAT.md for the CLI and the output grammar.
   All decoding/hashing/checking is done by extracted code over the inductive N; OCaml ints are used
   only for printing and for reading the file. *)
open Fmt_model

(* ---- conversions *)
let rec pos_of_int i = if i = 1 then XH else if i land 1 = 1 then XI (pos_of_int (i lsr 1)) else XO (pos_of_int (i lsr 1))
let n_of_int i = if i = 0 then N0 else Npos (pos_of_int i)
let byte_tbl : n array = Array.init 256 n_of_int          (* shared: one value per byte *)
let rec bits_of_pos acc = function XH -> true :: acc | XO p -> bits_of_pos (false :: acc) p | XI p -> bits_of_pos (true :: acc) p
(* most significant bit first *)
let hex_of_n (x : n) : string =
  match x with
  | N0 -> "0"
  | Npos p ->
    let bits = Array.of_list (bits_of_pos [] p) in
    let nb = Array.length bits in
    let nd = (nb + 3) / 4 in
    let pad = nd * 4 - nb in
    String.init nd (fun i ->
      let v = ref 0 in
      for j = 0 to 3 do
        let idx = i * 4 + j - pad in
        v := !v * 2 + (if idx >= 0 && bits.(idx) then 1 else 0) done;
      "0123456789abcdef".[!v])
let hex_pad w x = let s = hex_of_n x in if String.length s >= w then s else String.make (w - String.length s) '0' ^ s
let int_of_n (x : n) : int =
  match x with N0 -> 0 | Npos p -> List.fold_left (fun a b -> a * 2 + (if b then 1 else 0)) 0 (bits_of_pos [] p)
let dec_of_n (x : n) : string =
  (* decimal printing; values that matter fit in 62 bits, larger ones are printed in hex *)
  match x with N0 -> "0" | Npos p -> if List.length (bits_of_pos [] p) <= 62 then string_of_int (int_of_n x) else "0x" ^ hex_of_n x
let hex_of_bytes (l : n list) : string =
  if l = [] then "-" else begin
    let b = Buffer.create 64 in
    List.iter (fun x -> Buffer.add_string b (Printf.sprintf "%02x" (int_of_n x))) l;
    Buffer.contents b end
let bytes_of_hex (s : string) : n list =
  if s = "-" || s = "" then [] else
    List.init (String.length s / 2) (fun i -> byte_tbl.(int_of_string ("0x" ^ String.sub s (2 * i) 2)))
let string_of_chars (l : char list) = String.init (List.length l) (List.nth l)
let text_of_bytes (l : n list) : string =          (* printable rendering for names *)
  String.concat "" (List.map (fun x -> let c = int_of_n x in
    if c >= 33 && c < 127 && c <> 37 then String.make 1 (Char.chr c) else Printf.sprintf "%%%02x" c) l)

(* the file as (first 320 bytes, length, page-size chunks); the cut is done here, natively, so that no
   multi-megabyte list is ever built.  FMT_PURE=1 builds the flat list instead and lets the extracted
   chunks_of do the cut (slow; used to cross-check this function). *)
let read_string path : string =
  let ic = open_in_bin path in
  let len = in_channel_length ic in
  let s = really_input_string ic len in
  close_in ic; s
let list_of_sub (s : string) (off : int) (len : int) : n list =
  let r = ref [] in
  for i = off + len - 1 downto off do r := byte_tbl.(Char.code s.[i]) :: !r done;
  !r
let pure = Sys.getenv_opt "FMT_PURE" <> None
let load (path : string) : n list * n * n list list =
  let s = read_string path in
  let len = String.length s in
  if pure then begin
    let bs = list_of_sub s 0 len in
    (header_bytes bs, lenN bs, chunks_of bs)
  end else begin
    let hb = list_of_sub s 0 (min len 320) in
    let chunks = (match decode_header hb with
      | Ok h when int_of_n h.h_psz > 0 ->
        let psz = int_of_n h.h_psz in
        let nchunks = (len + psz - 1) / psz in
        let r = ref [] in
        for k = nchunks - 1 downto 0 do
          r := list_of_sub s (k * psz) (min psz (len - k * psz)) :: !r done;
        !r
      | _ -> []) in
    (hb, n_of_int len, chunks)
  end

(* ---- printing *)
let pn_s (p : pagenum) = Printf.sprintf "r%s.%s/%s" (dec_of_n p.pn_region) (dec_of_n p.pn_index) (dec_of_n p.pn_order)
let bhdr_s = function
  | None -> "root=none"
  | Some h -> Printf.sprintf "root=%s sum=%s len=%s" (pn_s h.bh_root) (hex_pad 32 h.bh_sum) (dec_of_n h.bh_len)
let width_s = function None -> "var" | Some w -> dec_of_n w
let typename_s (tn : n list) = match tn with [] -> "?" | c :: name -> Printf.sprintf "%s:%s" (dec_of_n c) (text_of_bytes name)
let loc_s (l : n list) = String.concat "," (List.map dec_of_n l)
let b2i b = if b then 1 else 0

let print_header (bs : n list) (file_len : n) (h : header) =
  Printf.printf "file_len=%s\n" (dec_of_n file_len);
  Printf.printf "header magic=ok god=0x%s primary=%s recovery_required=%d two_phase_commit=%d page_size=%s region_header_pages=%s region_max_data_pages=%s full_regions=%s trailing_pages=%s stored_layout_len=%s\n"
    (hex_pad 2 h.h_god) (dec_of_n (god_primary h.h_god)) (b2i (god_recovery h.h_god)) (b2i (god_2pc h.h_god))
    (dec_of_n h.h_psz) (dec_of_n h.h_hdr_pages) (dec_of_n h.h_max_pages) (dec_of_n h.h_full) (dec_of_n h.h_trailing)
    (dec_of_n (layout_len (geom_of_header h)));
  let g = choose_geom h file_len in
  Printf.printf "layout page_size=%s region_header_pages=%s region_max_data_pages=%s full_regions=%s trailing_pages=%s len=%s matches_file=%d\n"
    (dec_of_n g.g_psz) (dec_of_n g.g_hdr_pages) (dec_of_n g.g_max_pages) (dec_of_n g.g_full) (dec_of_n g.g_trailing)
    (dec_of_n (layout_len g)) (b2i (layout_len g = file_len));
  List.iter (fun i ->
    let s = slot_of h i in
    let computed = slot_sum_computed (takeN (dropN bs (slot_offset i)) tRANSACTION_SIZE) in
    Printf.printf "slot %s version=%s txid=%s user_%s system_%s sum_stored=%s sum_computed=%s valid=%d\n"
      (dec_of_n i) (dec_of_n s.sl_version) (dec_of_n s.sl_txid) (bhdr_s s.sl_user) (bhdr_s s.sl_system)
      (hex_pad 32 s.sl_sum) (hex_pad 32 computed) (b2i (s.sl_sum = computed))) [N0; Npos XH]

let rec print_tree_pages (g : geom) (owner : string) (depth : int) (t : tree) =
  let line kind p cov sum n =
    Printf.printf "page %s %s start=%s end=%s kind=%s depth=%d cov=%s sum=%s items=%d\n" owner (pn_s p)
      (dec_of_n (page_start g p)) (dec_of_n (page_end g p)) kind depth (dec_of_n cov) (hex_pad 32 sum) n in
  match t with
  | TLeaf (p, cov, sum, es) -> line "leaf" p cov sum (List.length es)
  | TBranch (p, cov, sum, cs, ks) ->
    line "branch" p cov sum (List.length ks);
    List.iter (fun (_, c) -> print_tree_pages g owner (depth + 1) c) cs

let print_table (g : geom) (forest : string) (pages : bool) (contents : bool) (t : table) =
  let d = t.tb_def in
  let mm = d.td_kind = tABLE_MULTIMAP in
  let name = text_of_bytes t.tb_name in
  let kcmp = (match cmp_of_typename d.td_ktype with Some _ -> 1 | None -> 0) in
  let vcmp = (match cmp_of_typename d.td_vtype with Some _ -> 1 | None -> 0) in
  Printf.printf "table %s name=%s namehex=%s kind=%s ktype=%s vtype=%s key_width=%s value_width=%s table_len=%s %s keys=%d values=%s key_order_known=%d value_order_known=%d\n"
    forest name (hex_of_bytes t.tb_name) (if mm then "multimap" else "normal")
    (typename_s d.td_ktype) (typename_s d.td_vtype) (width_s d.td_ks) (width_s d.td_vs) (dec_of_n d.td_len)
    (bhdr_s d.td_root) (List.length (table_contents t)) (dec_of_n (table_num_values t)) kcmp vcmp;
  if pages then begin
    (match t.tb_tree with Some tr -> print_tree_pages g (forest ^ ":" ^ name) 0 tr | None -> ());
    List.iter (fun (k, c) -> match c with
      | CSubtree (_, tr) -> print_tree_pages g (forest ^ ":" ^ name ^ "/sub:" ^ hex_of_bytes k) 0 tr
      | CInline _ -> ()) t.tb_colls
  end;
  if contents then begin
    if mm then
      List.iter (fun (k, c) ->
        let kind, extra = (match c with
          | CInline _ -> "inline", ""
          | CSubtree (h, _) -> "subtree", Printf.sprintf " %s" (bhdr_s (Some h))) in
        Printf.printf "kvs %s %s n=%d%s %s\n" (hex_of_bytes k) kind (List.length (coll_values c)) extra
          (String.concat " " (List.map hex_of_bytes (coll_values c)))) t.tb_colls
    else
      List.iter (fun (k, vs) -> Printf.printf "kv %s %s\n" (hex_of_bytes k) (String.concat " " (List.map hex_of_bytes vs)))
        (table_contents t)
  end

let print_forest (g : geom) (what : string) (pages : bool) (contents : bool) (f : forest) =
  Printf.printf "forest %s %s tables=%d\n" what (bhdr_s f.fo_root) (List.length f.fo_tables);
  if pages then (match f.fo_tree with Some tr -> print_tree_pages g (what ^ "-master") 0 tr | None -> ());
  List.iter (print_table g what pages contents) f.fo_tables

let print_pagelists tag (r : ((n * n) * pagenum list) list result) =
  match r with
  | Err (m, l) -> Printf.printf "%s ERROR %s loc=%s\n" tag (string_of_chars m) (loc_s l)
  | Ok l -> List.iter (fun ((tx, pg), ps) ->
      Printf.printf "%s txid=%s pagination=%s n=%d %s\n" tag (dec_of_n tx) (dec_of_n pg) (List.length ps)
        (String.concat " " (List.map pn_s ps))) l

let print_system (d : db_image) =
  print_pagelists "freed data" (pagelist_table d nAME_DATA_FREED);
  print_pagelists "freed system" (pagelist_table d nAME_SYSTEM_FREED);
  print_pagelists "allocated data" (pagelist_table d nAME_DATA_ALLOCATED);
  (match savepoints d with
   | Err (m, l) -> Printf.printf "savepoint ERROR %s loc=%s\n" (string_of_chars m) (loc_s l)
   | Ok l -> List.iter (fun s -> Printf.printf "savepoint id=%s txid=%s version=%s %s\n" (dec_of_n s.sp_id) (dec_of_n s.sp_txid)
                          (dec_of_n s.sp_version) (bhdr_s s.sp_root)) l);
  (match next_savepoint_id d with Some x -> Printf.printf "next_savepoint_id=%s\n" (dec_of_n x) | None -> ());
  (match alloc_state d with
   | Err (m, l) -> Printf.printf "alloc_state ERROR %s loc=%s\n" (string_of_chars m) (loc_s l)
   | Ok l -> List.iter (fun (k, v) ->
       let ks = (match k with AKDeprecated -> "deprecated" | AKRegion r -> "region:" ^ dec_of_n r
                            | AKTracker -> "tracker" | AKTxnId -> "txnid") in
       Printf.printf "alloc_state key=%s len=%d bytes=%s\n" ks (List.length v) (hex_of_bytes v)) l)

let print_verdict (d : db_image) =
  let unk = unknown_order_tables d in
  Printf.printf "unknown_order_tables=%d %s\n" (List.length unk) (String.concat " " (List.map text_of_bytes unk));
  let ok = wf_dbb d in
  let why = wf_explain d in
  Printf.printf "reachable_pages=%d\n" (List.length (reach d));
  if ok then print_string "wf=ok\n" else print_string "wf=FAIL\n";
  List.iter (fun (m, l) -> Printf.printf "reason %s loc=%s\n" (string_of_chars m) (loc_s l)) why;
  if ok && why <> [] then print_string "reason-inconsistent checker accepts but diagnostics list problems\n";
  if (not ok) && why = [] then print_string "reason (none located by diagnostics)\n"

let choice_of_string = function
  | "primary" -> SlotPrimary | "secondary" -> SlotSecondary | "recover" -> SlotRecover
  | "0" -> SlotIndex N0 | "1" -> SlotIndex (Npos XH)
  | s -> failwith ("unknown slot choice " ^ s)

(* what: header | verdict | pages | contents | system | dump *)
let run_image (what : string) (path : string) (choice : string) =
  let (hb, file_len, chunks) = load path in
  match decode_header hb with
  | Err (m, l) -> Printf.printf "header ERROR %s loc=%s\nwf=FAIL\nreason %s loc=%s\n" (string_of_chars m) (loc_s l) (string_of_chars m) (loc_s l)
  | Ok h ->
    if what = "header" || what = "dump" then print_header hb file_len h;
    if what <> "header" then begin
      match decode_chunks hb file_len chunks (choice_of_string choice) with
      | Err (m, l) ->
        Printf.printf "decode ERROR %s loc=%s\nwf=FAIL\nreason decode: %s loc=%s\n" (string_of_chars m) (loc_s l) (string_of_chars m) (loc_s l)
      | Ok d ->
        Printf.printf "chosen slot=%s txid=%s\n" (dec_of_n d.di_slot_index) (dec_of_n d.di_slot.sl_txid);
        let pages = (what = "pages" || what = "dump") and contents = (what = "contents" || what = "dump") in
        if pages || contents then begin
          print_forest d.di_geom "data" pages contents d.di_data;
          print_forest d.di_geom "system" pages (what = "dump") d.di_system
        end;
        if what = "system" || what = "dump" then print_system d;
        print_verdict d
    end

let run_xxh () =
  try while true do
      let line = String.trim (input_line stdin) in
      print_endline (hex_pad 32 (xxh3_128 (bytes_of_hex line)))
    done with End_of_file -> ()

let usage () =
  prerr_endline "usage: fmt_driver xxh | example <page_size> <god_byte> <outfile> | (header|verdict|pages|contents|system|dump) <file> [primary|secondary|0|1|recover] | batch";
  exit 2

(* the image assembled by the model's encoders (Format/Example.v), written to a file *)
let run_example psz god out =
  let bs = ex_image_of (n_of_int (int_of_string psz)) (n_of_int (int_of_string god)) in
  let oc = open_out_bin out in
  List.iter (fun b -> output_char oc (Char.chr (int_of_n b))) bs;
  close_out oc;
  Printf.printf "example written bytes=%d\n" (List.length bs)


(* ---- writer-model correspondence (C10): the extracted encode_tree applied to a logical tree dumped by the
   harness (Table::verif_shape + contents) must reproduce, byte for byte, the covered bytes the crate left in
   the image at the same page numbers, and the root BtreeHeader stored in the catalog.
   tree file: see harness/src/c10_tree.rs *)
type tnode = TL of pagenum * (n list * n list) list | TB of pagenum * int * n list list
let parse_tree_file path =
  let ic = open_in path in
  let lines = ref [] in
  (try while true do lines := input_line ic :: !lines done with End_of_file -> ());
  close_in ic;
  let lines = List.rev !lines in
  let kv s = match String.index_opt s '=' with
    | Some i -> (String.sub s 0 i, String.sub s (i + 1) (String.length s - i - 1)) | None -> (s, "") in
  let hdr = ref [] and nodes = ref [] in
  List.iter (fun l ->
    match String.split_on_char ' ' (String.trim l) with
    | "T" :: rest -> hdr := List.map kv rest
    | "N" :: _ :: "L" :: r :: i :: o :: _ :: es ->
      let pn = { pn_region = n_of_int (int_of_string r); pn_index = n_of_int (int_of_string i); pn_order = n_of_int (int_of_string o) } in
      let es = List.filter (fun x -> x <> "") es in
      nodes := TL (pn, List.map (fun e -> match String.split_on_char ':' e with
          | [k; v] -> (bytes_of_hex k, bytes_of_hex v) | _ -> failwith ("bad entry " ^ e)) es) :: !nodes
    | "N" :: _ :: "B" :: r :: i :: o :: nc :: ks ->
      let pn = { pn_region = n_of_int (int_of_string r); pn_index = n_of_int (int_of_string i); pn_order = n_of_int (int_of_string o) } in
      nodes := TB (pn, int_of_string nc, List.map bytes_of_hex (List.filter (fun x -> x <> "") ks)) :: !nodes
    | [""] | [] -> ()
    | _ -> failwith ("bad tree line " ^ l)) lines;
  (!hdr, List.rev !nodes)
let rec build_wtree (nodes : tnode list) : wtree * tnode list =
  match nodes with
  | [] -> failwith "tree file: node list ends early"
  | TL (pn, es) :: rest -> (WLeaf (pn, es), rest)
  | TB (pn, nc, ks) :: rest ->
    let rec kids k acc rest = if k = 0 then (List.rev acc, rest) else
        let (c, rest') = build_wtree rest in kids (k - 1) (c :: acc) rest' in
    let (cs, rest') = kids nc [] rest in
    (WBranch (pn, cs, ks), rest')
let width_of_string s = if s = "var" then None else Some (n_of_int (int_of_string s))
let run_treecmp treefile image =
  let (hdr, nodes) = parse_tree_file treefile in
  let get k = try List.assoc k hdr with Not_found -> failwith ("tree file: no " ^ k) in
  let ks = width_of_string (get "ks") and vs = width_of_string (get "vs") in
  let fill = n_of_int (int_of_string (get "fill")) in
  let name = bytes_of_hex (get "name") in
  let s = read_string image in
  let len = String.length s in
  let (hb, file_len, chunks) = load image in
  match decode_header hb with
  | Err (m, _) -> Printf.printf "treecmp ERROR header %s\n" (string_of_chars m)
  | Ok h ->
    let g = choose_geom h file_len in
    (* the root header the catalog of the image stores for the table *)
    let stored = (match decode_chunks hb file_len chunks SlotPrimary with
      | Err (m, _) -> Error ("decode: " ^ string_of_chars m)
      | Ok d -> (match find_table name d.di_data.fo_tables with
          | None -> Error "table not in the catalog"
          | Some t -> Ok t.tb_def)) in
    (match stored with
     | Error e -> Printf.printf "treecmp ERROR %s\n" e
     | Ok td ->
       if nodes = [] then
         Printf.printf "treecmp name=%s empty=1 nodes=0 pages_equal=0 pages_differ=0 bytes=0 root_ok=%d limits=1 placed=1 widths_ok=%d\n"
           (text_of_bytes name) (b2i (td.td_root = None && int_of_n td.td_len = 0)) (b2i (td.td_ks = ks && td.td_vs = vs))
       else begin
         let (w, rest) = build_wtree nodes in
         if rest <> [] then failwith "tree file: nodes left over";
         let (pages, bh) = encode_tree fill ks vs w in
         let equal = ref 0 and differ = ref 0 and total = ref 0 in
         let diffs = Buffer.create 64 in
         List.iter (fun (pn, bytes) ->
           let start = int_of_n (page_start g pn) in
           let n = List.length bytes in
           total := !total + n;
           let first = ref (-1) in
           List.iteri (fun i b ->
             if !first < 0 then begin
               let have = if start + i < len then Char.code s.[start + i] else -1 in
               if have <> int_of_n b then first := i end) bytes;
           if !first < 0 && n <= int_of_n (page_len g pn) then incr equal else begin
             incr differ;
             let i = max 0 !first in
             let lo = max 0 (i - 4) in
             let m = String.concat "" (List.filteri (fun j _ -> j >= lo && j < i + 12) (List.map (fun b -> Printf.sprintf "%02x" (int_of_n b)) bytes)) in
             let im = String.concat "" (List.init (min 16 (max 0 (len - start - lo))) (fun j -> Printf.sprintf "%02x" (Char.code s.[start + lo + j]))) in
             Buffer.add_string diffs (Printf.sprintf "treediff page=%s model_len=%d page_len=%s first_offset=%d from=%d model=%s image=%s\n"
                                        (pn_s pn) n (dec_of_n (page_len g pn)) !first lo m im) end) pages;
         let root_ok = (match td.td_root with
           | Some r -> r.bh_root = bh.bh_root && r.bh_sum = bh.bh_sum && r.bh_len = bh.bh_len && td.td_len = bh.bh_len
           | None -> false) in
         let placed = List.for_all (fun nd -> int_of_n (wnode_len fill ks vs nd) <= int_of_n (page_len g (match nd with WLeaf (p, _) -> p | WBranch (p, _, _) -> p))) (wnodes w) in
         Printf.printf "treecmp name=%s empty=0 nodes=%d pages_equal=%d pages_differ=%d bytes=%d root_ok=%d limits=%d placed=%d widths_ok=%d height=%d\n"
           (text_of_bytes name) (List.length pages) !equal !differ !total (b2i root_ok) (b2i (writer_okb fill ks vs w)) (b2i placed)
           (b2i (td.td_ks = ks && td.td_vs = vs)) (let rec nat_to_int = function O -> 0 | S k -> 1 + nat_to_int k in nat_to_int (wheight w));
         if not root_ok then
           Printf.printf "treediff root model=%s stored=%s table_len=%s\n" (bhdr_s (Some bh)) (bhdr_s td.td_root) (dec_of_n td.td_len);
         print_string (Buffer.contents diffs)
       end)

let dispatch (args : string list) =
  match args with
  | ["treecmp"; tf; img] -> run_treecmp tf img
  | ["xxh"] -> run_xxh ()
  | ["example"; psz; god; out] -> run_example psz god out
  | [what; path] when List.mem what ["header"; "verdict"; "pages"; "contents"; "system"; "dump"] -> run_image what path "primary"
  | [what; path; c] when List.mem what ["header"; "verdict"; "pages"; "contents"; "system"; "dump"] -> run_image what path c
  | _ -> usage ()

let () =
  (* deep non-tail recursion over multi-megabyte lists: re-exec once with an unlimited stack *)
  if Sys.getenv_opt "FMT_STACK" = None then begin
    let cmd = Filename.quote_command "sh"
        (["-c"; "ulimit -s unlimited 2>/dev/null || ulimit -s 4000000 2>/dev/null; FMT_STACK=1 exec \"$0\" \"$@\""; Sys.executable_name]
         @ List.tl (Array.to_list Sys.argv)) in
    exit (Sys.command cmd)
  end;
  match List.tl (Array.to_list Sys.argv) with
  | ["batch"] ->
    (try while true do
         let line = String.trim (input_line stdin) in
         if line <> "" then begin
           Printf.printf "=== %s\n" line;
           (try dispatch (String.split_on_char ' ' line)
            with e -> Printf.printf "driver EXCEPTION %s\nwf=FAIL\n" (Printexc.to_string e));
           print_string "=== end\n"; flush stdout
         end
       done with End_of_file -> ())
  | args -> dispatch args
