(* Line-protocol driver around the extracted C07 savepoint model (coq/Savepoint/Model.v).
   input  (cases.txt of harness/src/bin/c07.rs):  CFG ephid=<0|1> | H <n> | one operation per line
   output: the model's answer to each line, in the same canonical form the harness prints for the
           implementation. *)
open C07_model

let rec pos_of_bits = function
  | [] -> failwith "pos_of_bits"
  | [true] -> XH
  | b :: r -> if b then XI (pos_of_bits r) else XO (pos_of_bits r)
let n_of_int (i : int) : n =
  if i < 0 then failwith "negative" else
  if i = 0 then N0 else
  let rec bits i = if i = 0 then [] else (i land 1 = 1) :: bits (i lsr 1) in
  Npos (pos_of_bits (bits i))
let rec int_of_pos = function XH -> 1 | XO p -> 2 * int_of_pos p | XI p -> 2 * int_of_pos p + 1
let int_of_n = function N0 -> 0 | Npos p -> int_of_pos p
let n_of_string s = n_of_int (int_of_string s)
let string_of_n x = string_of_int (int_of_n x)

let ephid = ref false
let st = ref (init N0)

let show_res (o : op) (r : res) : string =
  match r with
  | ROk -> "ok"
  | RHandle (h, id) ->
    (match o with
     | OEph when not !ephid -> Printf.sprintf "handle %s ?" (string_of_n h)
     | _ -> Printf.sprintf "handle %s %s" (string_of_n h) (string_of_n id))
  | RNum x -> "num " ^ string_of_n x
  | RBool b -> if b then "bool true" else "bool false"
  | RList l -> if l = [] then "list -" else "list " ^ String.concat "," (List.map string_of_n l)
  | RState d -> "state " ^ string_of_n d
  | RErrInvalid -> "err invalid"
  | RErrImm -> "err imm"
  | RErrDurab -> "err durab"
  | RErrBusy -> "err busy"
  | RMisuse -> "misuse"

let parse (line : string) : op option =
  match String.split_on_char ' ' line with
  | ["begin"] -> Some OBegin
  | ["dur"; "none"] -> Some (OSetDur DNone)
  | ["dur"; "imm"] -> Some (OSetDur DImm)
  | ["touch"] -> Some OTouch
  | ["write"; t] -> Some (OWrite (n_of_string t))
  | ["eph"] -> Some OEph
  | ["pers"] -> Some OPers
  | ["get"; i] -> Some (OGet (n_of_string i))
  | ["del"; i] -> Some (ODel (n_of_string i))
  | ["restore"; h] -> Some (ORestore (n_of_string h))
  | ["list"] -> Some OList
  | ["commit"] -> Some OCommit
  | ["abort"] -> Some OAbort
  | ["drop"; h] -> Some (ODrop (n_of_string h))
  | ["reopen"] -> Some OReopen
  | "crash" :: _ -> Some OCrash
  | ["integrity"] -> Some OIntegrity
  | "flag" :: _ -> Some OFlag
  | ["peekdb"] -> Some OPeekDb
  | ["look"] -> Some OLook
  | _ -> None

let () =
  try
    while true do
      let line = input_line stdin in
      if String.length line >= 3 && String.sub line 0 3 = "CFG" then begin
        ephid := (line = "CFG ephid=1");
        print_endline line
      end else if String.length line >= 2 && String.sub line 0 2 = "H " then begin
        st := init N0;
        print_endline line
      end else
        if line = "snap" then begin
          let s = !st in
          let v = List.sort compare (List.map (fun (i, p) -> (int_of_n i, p)) s.valid) in
          let vs = if v = [] then "-" else
            String.concat "," (List.map (fun (i, p) -> string_of_int i ^ (if p then "p" else "e")) v) in
          Printf.printf "snap v=%s n=%s userrefs=%s\n" vs (string_of_n s.next_id) (string_of_n (user_refs s))
        end else
        match parse line with
        | None -> print_endline "BADLINE"
        | Some o ->
          let (s', r) = step !st o in
          st := s';
          print_endline (show_res o r)
    done
  with End_of_file -> ()
