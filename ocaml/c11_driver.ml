(* Line-protocol driver around the extracted C11 open-path model (coq/Reopen/Model.v).
   input  line: <hist> open p=<0|1> rr=<0|1> tpc=<0|1> s0=<txid>,<cksum ok>,<tree ok>,<snap txid|-> s1=...
   output line: <hist> ok path=<load|rebuild> after=<txid of the primary slot once the open is done>  |  <hist> err *)
open C11_model

let rec pos_of_bits = function
  | [] -> failwith "pos_of_bits"
  | [true] -> XH
  | b :: r -> if b then XI (pos_of_bits r) else XO (pos_of_bits r)
let n_of_int (i : int) : n =
  if i < 0 then failwith "negative" else
  if i = 0 then N0 else
  let rec bits i = if i = 0 then [] else (i land 1 = 1) :: bits (i lsr 1) in
  Npos (pos_of_bits (bits i))
let rec int_of_pos = function XH -> 1 | XO p -> 2 * int_of_pos p | XI p -> 2 * int_of_pos p + 1
let int_of_n = function N0 -> 0 | Npos p -> int_of_pos p

let kv s = match String.index_opt s '=' with
  | Some i -> String.sub s (i + 1) (String.length s - i - 1)
  | None -> failwith "kv"
let slot_of s : slot =
  match String.split_on_char ',' (kv s) with
  | [t; c; tr; sn] ->
    { s_txid = n_of_int (int_of_string t); s_cksum_ok = (c = "1"); s_tree_ok = (tr = "1");
      s_snap = (if sn = "-" then None else Some (n_of_int (int_of_string sn)));
      s_snap_pages = []; s_req = [] }
  | _ -> failwith "slot"

(* ---- second protocol: the ownership-level model (coq/Reopen/Snapshot.v) carried along a recorded history.
   The driver keeps an extracted [xst] whose ownership part is a placeholder (page sets are validated by the
   direct oracle allocated == required); what it predicts per event is: the needs_repair latch, whether the
   durable image holds an allocator-state table and with which id, the two-phase flag, and the path the next
   open takes.  Events (after the history id):
     x new                               new history
     x commit k=<1pc|2pc|qr> id=<n>      a durable WriteTransaction commit that published id n
     x leak | x abort                    a panic unwound the write transaction | a successful rollback
     x check clean=<0|1>                 check_integrity without a pending non-durable commit, and its verdict
     x promote id=<n>                    check_integrity rebuilt the live state and promoted a pending non-durable commit
                                         by an ordinary one-phase durable commit that published id n
     x probe                             which path would an open of the durable image take now?
     x crash | x close                   the process ends (kill | Database::drop), the next line of output is the open
     x resync id=<n> snap=<n|-> tpc=<b>  image taken from observation (stop in the middle of a commit)
   Output: `<hist> x nrep=<b> snap=<id|-> tpc=<b> id=<n|*> [path=<load|rebuild>]` *)
let xs = ref xinit
let known = ref true
let b01 b = if b then "1" else "0"
let show path =
  let i = (!xs).img in
  Printf.sprintf "x nrep=%s snap=%s tpc=%s id=%s%s" (b01 (!xs).nrep)
    (match i.d_snap with
     | Some s -> if !known then string_of_int (int_of_n s.snap_txid)
                 else if int_of_n s.snap_txid = int_of_n i.d_ver.vid then "=" else "*"
     | None -> "-")
    (b01 i.d_tpc) (if !known then string_of_int (int_of_n i.d_ver.vid) else "*")
    (match path with Some Load -> " path=load" | Some Rebuild -> " path=rebuild" | None -> "")
let xevent h (w : string list) =
  let out s = Printf.printf "%s %s\n" h s in
  match w with
  | ["new"] -> xs := xinit; known := true; out (show None)
  | ["commit"; k; id] ->
    let k = kv k and id = n_of_int (int_of_string (kv id)) in
    let fl = commit_flags !xs (k = "qr") (k = "2pc") in
    xs := { !xs with img = flag_image fl id }; known := true; out (show None)
  | ["leak"] -> xs := xstep !xs XLeak; out (show None)
  | ["abort"] -> xs := xstep !xs (XOp (OAbort, false)); out (show None)
  | ["check"; c] -> xs := xstep { !xs with own = init } (XCheck ([], kv c = "1")); out (show None)
  | ["promote"; id] ->
    let id = n_of_int (int_of_string (kv id)) in
    xs := { !xs with leaked = []; nrep = false };
    xs := { !xs with img = flag_image (commit_flags !xs false false) id }; known := true; out (show None)
  | ["probe"] -> out (show (Some (open_path (!xs).img)))
  | ["crash"] -> let p = open_path (!xs).img in xs := xstep !xs XCrash; out (show (Some p))
  | ["close"] ->
    let x0 = { !xs with own = init } in
    let p = open_path (closed_image [] x0) in
    if not x0.nrep then known := false;
    xs := xstep x0 (XClose []); out (show (Some p))
  | ["resync"; id; sn; tpc] ->
    let id = n_of_int (int_of_string (kv id)) in
    let sn = if kv sn = "-" then None else Some { snap_txid = n_of_int (int_of_string (kv sn)); snap_pages = [] } in
    xs := { own = init; leaked = []; nrep = false;
            img = { d_ver = { vid = id; vdata = []; vsys = [] }; d_dfreed = []; d_sfreed = []; d_sps = [];
                    d_snap = sn; d_tpc = (kv tpc = "1"); d_clean = false } };
    known := true; out (show None)
  | _ -> out "BADEVENT"

let () =
  try
    while true do
      let line = input_line stdin in
      match String.split_on_char ' ' line with
      | h :: "x" :: w -> xevent h w
      | [h; "open"; p; rr; tpc; s0; s1] ->
        let i = { g_primary = (kv p = "1"); g_rr = (kv rr = "1"); g_tpc = (kv tpc = "1");
                  slot0 = slot_of s0; slot1 = slot_of s1 } in
        (match open0 i, image_after_open i with
         | Ok o, Ok i' ->
           Printf.printf "%s ok path=%s after=%d\n" h
             (match o.o_path with Load -> "load" | Rebuild -> "rebuild") (int_of_n (primary i').s_txid)
         | _ -> Printf.printf "%s err\n" h)
      | _ -> print_endline "BADLINE"
    done
  with End_of_file -> ()
