(* Line-protocol driver around the extracted C11 open-path model (coq/Reopen/Model.v).
   input  line: <hist> open p=<0|1> rr=<0|1> tpc=<0|1> s0=<txid>,<cksum ok>,<tree ok>,<snap txid|-> s1=...
   output line: <hist> ok path=<load|rebuild> after=<txid of the primary slot once the open is done>  |  <hist> err *)
open C11_model

let rec pos_of_bits = function
  | [] -> failwith "pos_of_bits"
  | [true] -> XH
  | b :: r -> if b then XI (pos_of_bits r) else XO (pos_of_bits r)
let n_of_int (i : int) : n =
  if i < 0 then failwith "negative" else
  if i = 0 then N0 else
  let rec bits i = if i = 0 then [] else (i land 1 = 1) :: bits (i lsr 1) in
  Npos (pos_of_bits (bits i))
let rec int_of_pos = function XH -> 1 | XO p -> 2 * int_of_pos p | XI p -> 2 * int_of_pos p + 1
let int_of_n = function N0 -> 0 | Npos p -> int_of_pos p

let kv s = match String.index_opt s '=' with
  | Some i -> String.sub s (i + 1) (String.length s - i - 1)
  | None -> failwith "kv"
let slot_of s : slot =
  match String.split_on_char ',' (kv s) with
  | [t; c; tr; sn] ->
    { s_txid = n_of_int (int_of_string t); s_cksum_ok = (c = "1"); s_tree_ok = (tr = "1");
      s_snap = (if sn = "-" then None else Some (n_of_int (int_of_string sn)));
      s_snap_pages = []; s_req = [] }
  | _ -> failwith "slot"

let () =
  try
    while true do
      let line = input_line stdin in
      match String.split_on_char ' ' line with
      | [h; "open"; p; rr; tpc; s0; s1] ->
        let i = { g_primary = (kv p = "1"); g_rr = (kv rr = "1"); g_tpc = (kv tpc = "1");
                  slot0 = slot_of s0; slot1 = slot_of s1 } in
        (match open0 i, image_after_open i with
         | Ok o, Ok i' ->
           Printf.printf "%s ok path=%s after=%d\n" h
             (match o.o_path with Load -> "load" | Rebuild -> "rebuild") (int_of_n (primary i').s_txid)
         | _ -> Printf.printf "%s err\n" h)
      | _ -> print_endline "BADLINE"
    done
  with End_of_file -> ()
