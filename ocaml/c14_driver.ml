(* Line-protocol driver around the extracted C14 model (coq/Alloc/{Bitmap,Buddy,Region}.v).
   One output line per input line.  Numbers inside the model stay the extracted inductive N; OCaml ints
   are used only to parse the text and to print/hash the model's output bytes.

   program headers:   B <num_pages> <max_capacity>            BuddyAllocator::new
                      T <num_pages> <capacity>                BtreeBitmap::new
                      P <num_pages> <capacity> <max_capacity> BtreeBitmap::new_padded
                      U <len> <capacity>                      U64GroupedBitmap::new_full
                      R <regions> <orders>                    RegionTracker::new
                      M <page_size> <region_pages>            TransactionalMemory::new + reset_allocator_state
   ops: see the match arms below.   E = end of program.   ( and ) = push / pop the current state.
   output:  <ret>|<observations>|<serialised bytes: hex if short, else #len:hash>   or   panic   *)
open C14_model

let rec int_of_pos = function XH -> 1 | XO p -> 2 * int_of_pos p | XI p -> 2 * int_of_pos p + 1
let int_of_n = function N0 -> 0 | Npos p -> int_of_pos p
let rec pos_of_int i = if i = 1 then XH else if i land 1 = 0 then XO (pos_of_int (i lsr 1)) else XI (pos_of_int (i lsr 1))
let n_of_int i = if i < 0 then failwith "negative" else if i = 0 then N0 else Npos (pos_of_int i)
let nn s = n_of_int (int_of_string s)
let sn x = string_of_int (int_of_n x)
let son = function None -> "none" | Some x -> sn x
let sb b = if b then "1" else "0"

let mask = 0x3FFFFFFFFFFFFFFF
let dump = (try Sys.getenv "VERIF_C14_DUMP" <> "" with Not_found -> false)
let hexdigits = "0123456789abcdef"
let show_bytes (l : n list) : string =
  let n = List.length l in
  if n <= 200 || dump then begin
    if n = 0 then "-" else begin
      let b = Bytes.create (2 * n) in
      List.iteri (fun i x -> let v = int_of_n x in
                   Bytes.unsafe_set b (2 * i) hexdigits.[(v lsr 4) land 15];
                   Bytes.unsafe_set b (2 * i + 1) hexdigits.[v land 15]) l;
      Bytes.to_string b end
  end else begin
    let h = ref (1469598103934665603 land mask) in
    List.iter (fun x -> h := (((!h) lxor (int_of_n x)) * 1099511628211) land mask) l;
    Printf.sprintf "#%d:%x" n !h
  end

type st =
  | SNone
  | SB of buddy
  | ST of btree
  | SU of u64
  | SR of tracker
  | SM of mem

let buddy_obs a =
  let fr = count_free_pages a in
  Printf.sprintf "%s %s %s %s %s" (sn a.blen) (sn a.bmax)
    (if N.ltb a.blen fr then "uf" (* u32 underflow in count_allocated_pages: debug panic *) else sn (count_allocated_pages a)) (sn fr)
    (son (highest_free_order a))
let buddy_line ret a = Printf.sprintf "%s|%s|%s" ret (buddy_obs a) (show_bytes (buddy_to_vec a))
let bt_line ret t =
  Printf.sprintf "%s|%s %s %s %s|%s" ret (sn (bt_len t)) (sn (bt_count_unset t)) (sb (bt_has_unset t))
    (son (bt_find_first_unset t)) (show_bytes (bt_to_vec t))
let u_line ret u = Printf.sprintf "%s|%s|%s" ret (sn u.ulen) (show_bytes (u_to_vec u))
let rec upto a b = if a >= b then [] else a :: upto (a + 1) b
let trk_line ret t =
  let orders = List.length t in
  Printf.sprintf "%s|%s|%s" ret
    (String.concat "," (List.map (fun k -> son (tracker_find_free t (n_of_int k))) (upto 0 orders)))
    (show_bytes (tracker_to_vec t))
let layout_s l = Printf.sprintf "%s,%s,%s" (sn l.full_pages) (sn l.num_full) (son l.trailing)
let mem_line ret m =
  Printf.sprintf "%s|%s %d|%s|%s" ret (layout_s m.lay) (List.length m.als.regs)
    (show_bytes (tracker_to_vec m.als.trk))
    (if dump then String.concat ";" (List.map (fun a -> show_bytes (buddy_to_vec a)) m.als.regs)
     else show_bytes (List.concat (List.map buddy_to_vec m.als.regs)))

let slots : (int, n list) Hashtbl.t = Hashtbl.create 16

(* returns (output line, new state); SNone after a modelled panic *)
let step (s : st) (tok : string list) : string * st =
  match s, tok with
  | _, ["B"; n; c] ->
    Hashtbl.reset slots;
    if buddy_new_pre (nn n) (nn c) then let a = buddy_new (nn n) (nn c) in (buddy_line "new" a, SB a) else ("panic", SNone)
  | _, ["T"; n; c] -> let t = bt_new (nn n) (nn c) in (bt_line "new" t, ST t)
  | _, ["P"; n; c; m] -> let t = bt_new_padded (nn n) (nn c) (nn m) in (bt_line "new" t, ST t)
  | _, ["U"; n; c] -> let u = u_new_full (nn n) (nn c) in (u_line "new" u, SU u)
  | _, ["R"; r; o] -> let t = tracker_new (nn r) (nn o) in (trk_line "new" t, SR t)
  | _, ["M"; ps; rp] -> let m = mem_new (initial_layout (nn ps) (nn rp)) in (mem_line "new" m, SM m)
  | _, ["E"] -> ("E", SNone)
  | SNone, _ -> ("dead", SNone)
  (* ---- buddy *)
  | SB a, ["a"; k] -> let (r, a') = buddy_alloc a (nn k) in (buddy_line (son r) a', SB a')
  | SB a, ["l"; k] -> let (r, a') = buddy_alloc_lowest a (nn k) in (buddy_line (son r) a', SB a')
  | SB a, ["f"; p; k] ->
    if buddy_free_pre a (nn p) (nn k) then let (o, a') = buddy_free a (nn p) (nn k) in (buddy_line (sn o) a', SB a')
    else ("panic", SNone)
  | SB a, ["r"; p; k] -> let (r, a') = buddy_record_alloc a (nn p) (nn k) in (buddy_line (sb r) a', SB a')
  | SB a, ["z"; n] ->
    if buddy_resize_pre a (nn n) then let a' = buddy_resize a (nn n) in (buddy_line "ok" a', SB a') else ("panic", SNone)
  | SB a, ["s"] -> let a' = buddy_from_bytes (buddy_to_vec a) in (buddy_line "rt" a', SB a')
  | SB a, ["k"; j] -> Hashtbl.replace slots (int_of_string j) (buddy_to_vec a); (buddy_line "saved" a, SB a)
  | SB a, ["t"; j] -> let a' = buddy_from_bytes (Hashtbl.find slots (int_of_string j)) in (buddy_line "restored" a', SB a')
  | SB a, ["q"] ->
    if trailing_free_pages_pre a then (buddy_line (sn (trailing_free_pages a)) a, SB a) else ("panic", SNone)
  | SB a, ["c"] -> (buddy_line (sb (consistentb a)) a, SB a)
  (* ---- btree bitmap *)
  | ST t, ["s"; i] -> if N.ltb (nn i) (bt_len t) then let t' = bt_set t (nn i) in (bt_line "ok" t', ST t') else ("panic", SNone)
  | ST t, ["c"; i] -> if N.ltb (nn i) (bt_len t) then let t' = bt_clear t (nn i) in (bt_line "ok" t', ST t') else ("panic", SNone)
  | ST t, ["g"; i] -> if N.ltb (nn i) (bt_len t) then (bt_line (sb (bt_get t (nn i))) t, ST t) else ("panic", SNone)
  | ST t, ["a"] -> let (r, t') = bt_alloc t in (bt_line (son r) t', ST t')
  | ST t, ["z"; n; f] ->
    if f = "1" && not (bt_resize_pre t (nn n)) then ("panic", SNone)
    else let t' = bt_resize t (nn n) (f = "1") in (bt_line "ok" t', ST t')
  | ST t, ["y"] -> let t' = bt_from_bytes (bt_to_vec t) in (bt_line "rt" t', ST t')
  (* ---- u64 grouped bitmap *)
  | SU u, ["s"; i] -> if N.ltb (nn i) u.ulen then let (u', f) = u_set u (nn i) in (u_line (sb f) u', SU u') else ("panic", SNone)
  | SU u, ["c"; i] -> if N.ltb (nn i) u.ulen then let u' = u_clear u (nn i) in (u_line "ok" u', SU u') else ("panic", SNone)
  | SU u, ["g"; i] -> if N.ltb (nn i) u.ulen then (u_line (sb (u_get u (nn i))) u, SU u) else ("panic", SNone)
  | SU u, ["z"; n; f] -> let u' = u_resize u (nn n) (f = "1") in (u_line "ok" u', SU u')
  | SU u, ["y"] -> let u' = u_from_bytes (u_to_vec u) in (u_line "rt" u', SU u')
  (* ---- region tracker *)
  | SR t, ["f"; k; r] -> let t' = tracker_mark_free t (nn k) (nn r) in (trk_line "ok" t', SR t')
  | SR t, ["u"; k; r] -> let t' = tracker_mark_full t (nn k) (nn r) in (trk_line "ok" t', SR t')
  | SR t, ["y"] -> let t' = tracker_from_bytes (tracker_to_vec t) in (trk_line "rt" t', SR t')
  (* ---- allocation bookkeeping of TransactionalMemory *)
  | SM m, ["a"; k; low] ->
    (match mem_allocate m (nn k) (low = "1") with
     | (Some (r, p), m') -> (mem_line (Printf.sprintf "%s,%s" (sn r) (sn p)) m', SM m')
     | (None, _) -> ("panic", SNone))
  | SM m, ["f"; r; p; k] -> let m' = mem_free m (nn r) (nn p) (nn k) in (mem_line "ok" m', SM m')
  | SM m, ["r"; r; p; k] -> let (ok, m') = mem_record_alloc m (nn r) (nn p) (nn k) in (mem_line (sb ok) m', SM m')
  | SM m, ["h"; f] -> let (ok, m') = mem_try_shrink m (f = "1") in (mem_line (sb ok) m', SM m')
  | _, _ -> ("BADLINE", s)

let () =
  let stack = ref [] in
  let cur = ref SNone in
  try
    while true do
      let line = input_line stdin in
      let tok = List.filter (fun x -> x <> "") (String.split_on_char ' ' line) in
      match tok with
      | ["("] -> stack := !cur :: !stack; print_endline "("
      | [")"] -> (match !stack with x :: r -> cur := x; stack := r | [] -> ()); print_endline ")"
      | _ ->
        let (out, s') = (try step !cur tok with
            | Stack_overflow -> ("EXN stack", SNone)
            | Not_found -> ("EXN notfound", SNone)
            | Failure m -> ("EXN " ^ m, SNone)) in
        cur := s';
        print_endline out
    done
  with End_of_file -> ()
