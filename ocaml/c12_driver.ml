(* Line-protocol driver around the extracted C12 model (coq/Integrity/Merkle.v).
   The checksum function H and the link parser are Section variables of the model; here they are
   instantiated by finite tables supplied with each image: H(payload) = the real XXH3-128 of the payload
   as computed by the crate's own hash, parse(payload) = the links the independent format reader found.
   input, one block per image:
     I <free text id>
     G <two_phase 0|1> <primary slot 0|1>
     S <slot index> <payload hex> <stored sum hex> <H(payload) hex> <txid hex> <links ptrhex=sumhex,...|->
     P <ptr hex> <payload hex> <H(payload) hex> <links|->
     E
   a block may instead start with  D <id>  : start from the tables of the last I block, then apply the
   G/S/P lines given (overriding) and  X <ptr hex>  (page absent)
   output per block:  <id> TAB <clean|repaired|failed> TAB <served slot index|-> TAB <reached pointers, sorted, comma separated>
                      TAB <transaction id (hex) stored in the served slot|->
                      TAB <whole verdict (Verdict.full): true|false|erropen|errcheck|indeterminate|->
                      TAB <transaction id (hex) in the slot the whole verdict serves|->
   Whole verdict: an optional line
     F <len> <magic> <rr> <page size> <region header pages> <region max pages> <full regions> <trailing pages>
       <versions ok> <forest present> <loaded> <counted slot 0> <counted slot 1>       (numbers hex, flags 0|1)
   supplies the remaining fields of Verdict.file.  Allocator states are abstracted to one value (the
   comparison of allocator hashes always succeeds, the rebuild never fails), so the model's verdict is an
   UPPER bound of the crate's in the order error < Ok(false) < Ok(true); `counted` comes from the reader.
   The page size the database is opened with is the first command line argument (hex, default 200).
   forest present = 0: the reader could not decode slots/pages (then the model must say erropen, which
   needs no forest; anything else is printed as indeterminate). *)
open C12_model

let rec pos_of_bits = function
  | [] -> failwith "pos_of_bits"
  | [true] -> XH
  | b :: r -> if b then XI (pos_of_bits r) else XO (pos_of_bits r)
let n_of_hex (s : string) : n =
  let bits = ref [] in
  String.iter (fun c ->
    let d = int_of_string ("0x" ^ String.make 1 c) in
    bits := (d land 1 <> 0) :: (d land 2 <> 0) :: (d land 4 <> 0) :: (d land 8 <> 0) :: !bits) s;
  (* !bits is least significant first *)
  let rec strip = function false :: r -> strip r | l -> l in
  match strip (List.rev !bits) with [] -> N0 | l -> Npos (pos_of_bits (List.rev l))
let rec bits_of_pos = function XH -> [true] | XO p -> false :: bits_of_pos p | XI p -> true :: bits_of_pos p
let hex_of_n (x : n) : string =
  match x with N0 -> "0" | Npos p ->
    let bits = Array.of_list (bits_of_pos p) in
    let nb = Array.length bits in
    let nd = (nb + 3) / 4 in
    String.init nd (fun i ->
      let k = nd - 1 - i in
      let v = ref 0 in
      for j = 3 downto 0 do
        let idx = 4 * k + j in
        v := !v * 2 + (if idx < nb && bits.(idx) then 1 else 0) done;
      "0123456789abcdef".[!v])
let byte_table : n array = Array.init 256 (fun i -> n_of_hex (Printf.sprintf "%x" i))
let bytes_of_hex s : n list =
  if s = "-" then [] else List.init (String.length s / 2) (fun i -> byte_table.(int_of_string ("0x" ^ String.sub s (2*i) 2)))
(* a byte (< 256) as an OCaml int, for printing only *)
let rec int_of_pos = function XH -> 1 | XO p -> 2 * int_of_pos p | XI p -> 2 * int_of_pos p + 1
let int_of_byte (b : n) = match b with N0 -> 0 | Npos p -> int_of_pos p
let hex_of_bytes (l : n list) =
  let b = Buffer.create 1024 in
  List.iter (fun x -> Buffer.add_string b (Printf.sprintf "%02x" (int_of_byte x))) l;
  Buffer.contents b
let rec nat_of_int i = if i <= 0 then O else S (nat_of_int (i - 1))

let parse_links s : (n * string) list =
  if s = "-" then [] else
    List.map (fun kv -> match String.split_on_char '=' kv with
      | [p; c] -> (n_of_hex p, c)
      | _ -> failwith "link") (String.split_on_char ',' s)

let () =
  let id = ref "" in
  let two_phase = ref false and prim = ref 0 in
  let slots : (int, string slot) Hashtbl.t = Hashtbl.create 2 in
  let htab : (string, string) Hashtbl.t = Hashtbl.create 64 in
  let ltab : (string, (n * string) list) Hashtbl.t = Hashtbl.create 64 in
  let ptab : (string, n list) Hashtbl.t = Hashtbl.create 64 in
  let in_base = ref false in
  let ps_exp = n_of_hex (if Array.length Sys.argv > 1 then Sys.argv.(1) else "200") in
  let fline : string list option ref = ref None in
  let base_fline : string list option ref = ref None in
  (* payloads whose links were defined by a line of the current block *)
  let fresh : string list ref = ref [] in
  let reset () = Hashtbl.reset slots; Hashtbl.reset htab; Hashtbl.reset ltab; Hashtbl.reset ptab in
  let base = ref (false, 0, Hashtbl.copy slots, Hashtbl.copy ptab, Hashtbl.copy htab, Hashtbl.copy ltab) in
  let restore () =
    let (tp, p, sl, pt, ht, lt) = !base in
    two_phase := tp; prim := p;
    Hashtbl.reset slots; Hashtbl.iter (Hashtbl.replace slots) sl;
    Hashtbl.reset ptab; Hashtbl.iter (Hashtbl.replace ptab) pt;
    Hashtbl.reset htab; Hashtbl.iter (Hashtbl.replace htab) ht;
    Hashtbl.reset ltab; Hashtbl.iter (Hashtbl.replace ltab) lt in
  (* the payload lists handed out by `img` are the ones stored at P/S time: find their hex text by
     physical equality before falling back to printing them *)
  let phys_base : (n list * string) list ref = ref [] in
  let phys_delta : (n list * string) list ref = ref [] in
  let key (pl : n list) : string =
    try List.assq pl !phys_delta with Not_found ->
    (try List.assq pl !phys_base with Not_found -> hex_of_bytes pl) in
  let h (pl : n list) : string = let k = key pl in (try Hashtbl.find htab k with Not_found -> "unknown:" ^ k) in
  let parse (pl : n list) : (n * string) list = (try Hashtbl.find ltab (key pl) with Not_found -> []) in
  let remember pl hex = if !in_base then phys_base := (pl, hex) :: !phys_base else phys_delta := (pl, hex) :: !phys_delta in
  let img (p : n) : n list option = Hashtbl.find_opt ptab (hex_of_n p) in
  let sum_eqb (a : string) (b : string) = (a = b) in
  (try
    while true do
      let line = input_line stdin in
      match String.split_on_char ' ' line with
      | "I" :: rest -> reset (); fline := None; in_base := true; fresh := []; phys_base := []; phys_delta := []; id := String.concat " " rest
      | "D" :: rest -> restore (); fline := !base_fline; in_base := false; fresh := []; phys_delta := []; id := String.concat " " rest
      | "F" :: rest -> fline := Some rest
      | ["X"; ptr] -> Hashtbl.remove ptab (hex_of_n (n_of_hex ptr))
      | ["G"; tp; p] -> two_phase := (tp = "1"); prim := int_of_string p
      | ["S"; i; payload; stored; hsum; txid; links] ->
        Hashtbl.replace htab payload hsum;
        if not (List.mem payload !fresh) then begin
          Hashtbl.replace ltab payload (parse_links links); fresh := payload :: !fresh end;
        let pl = bytes_of_hex payload in
        remember pl payload;
        Hashtbl.replace slots (int_of_string i) { s_payload = pl; s_sum = stored; s_txid = n_of_hex txid }
      | ["P"; ptr; payload; hsum; links] ->
        Hashtbl.replace htab payload hsum;
        if not (List.mem payload !fresh) then begin
          Hashtbl.replace ltab payload (parse_links links); fresh := payload :: !fresh end;
        let pl = bytes_of_hex payload in
        remember pl payload;
        Hashtbl.replace ptab (hex_of_n (n_of_hex ptr)) pl
      | ["E"] ->
        if !in_base then begin
          base := (!two_phase, !prim, Hashtbl.copy slots, Hashtbl.copy ptab, Hashtbl.copy htab, Hashtbl.copy ltab);
          base_fline := !fline end;
        let dummy = { s_payload = []; s_sum = "dummy"; s_txid = N0 } in
        let slot_at i = (try Hashtbl.find slots i with Not_found -> dummy) in
        let x = { two_phase = !two_phase; primary = slot_at !prim; secondary = slot_at (1 - !prim); pages = img } in
        let v = recover sum_eqb h parse walk_depth x in
        let which s = if s == x.primary then string_of_int !prim else string_of_int (1 - !prim) in
        let (vs, slot, reached, txid) = (match v with
          | Clean s -> ("clean", which s, cov parse walk_depth img s, hex_of_n s.s_txid)
          | Repaired s -> ("repaired", which s, cov parse walk_depth img s, hex_of_n s.s_txid)
          | Failed -> ("failed", "-", [], "-")) in
        let ptrs = List.sort_uniq compare (List.map hex_of_n reached) in
        let (fv, ftx) = (match !fline with
          | Some [len; magic; rr; ps; hp; cap; fullr; trail; vers; forest; loaded; c0; c1] ->
            let counted_of (s : string slot) = if s == slot_at 0 then c0 = "1" else if s == slot_at 1 then c1 = "1" else false in
            let f = { f_len = n_of_hex len; f_magic = (magic = "1"); f_rr = (rr = "1"); f_ps = n_of_hex ps;
                      f_hp = n_of_hex hp; f_cap = n_of_hex cap; f_full = n_of_hex fullr; f_trail = n_of_hex trail;
                      f_vers = (vers = "1"); f_db = x; f_loaded = (if loaded = "1" then Some "a" else None) } in
            let r = full sum_eqb h parse (fun (a : string) b -> a = b) (fun _ _ _ -> Some "a")
                      (fun _ s -> counted_of s) ps_exp walk_depth f in
            (match r with
             | FErrOpen -> ("erropen", "-")
             | _ when forest <> "1" -> ("indeterminate", "-")
             | FErrCheck -> ("errcheck", "-")
             | FOk (c, o) -> ((if c then "true" else "false"), hex_of_n o.o_slot.s_txid))
          | Some _ -> ("badfline", "-")
          | None -> ("-", "-")) in
        Printf.printf "%s\t%s\t%s\t%s\t%s\t%s\t%s\n" !id vs slot (String.concat "," ptrs) txid fv ftx
      | [""] | [] -> ()
      | _ -> Printf.printf "BADLINE %s\n" line
    done
  with End_of_file -> ())
