(* Line-protocol driver around the extracted C13 model (coq/Compact/Model.v): the guards of Database::compact.
   input  line: <hist> guard p=<persistent savepoints> e=<ephemeral savepoints> r=<read transactions>
   output line: <hist> none | <hist> err persistent|ephemeral|inprogress *)
open C13_model

let rec pos_of_bits = function
  | [] -> failwith "pos_of_bits"
  | [true] -> XH
  | b :: r -> if b then XI (pos_of_bits r) else XO (pos_of_bits r)
let n_of_int (i : int) : n =
  if i < 0 then failwith "negative" else
  if i = 0 then N0 else
  let rec bits i = if i = 0 then [] else (i land 1 = 1) :: bits (i lsr 1) in
  Npos (pos_of_bits (bits i))
let kv s = match String.index_opt s '=' with
  | Some i -> int_of_string (String.sub s (i + 1) (String.length s - i - 1))
  | None -> failwith "kv"

let () =
  try
    while true do
      let line = input_line stdin in
      match String.split_on_char ' ' line with
      | [h; "guard"; p; e; r] ->
        let k = { persistent_sp = n_of_int (kv p); ephemeral_sp = n_of_int (kv e); user_reads = n_of_int (kv r) } in
        (* the relocation itself is exercised on a fixed small tree so that the extracted [compact] runs end to end *)
        let t = PNode (n_of_int 9, [(n_of_int 1, n_of_int 1)], [PNode (n_of_int 12, [(n_of_int 2, n_of_int 2)], [])]) in
        let m = [(n_of_int 12, n_of_int 3); (n_of_int 9, n_of_int 4)] in
        let ((_, t'), res) = compact k m t in
        if abs t' <> abs t then print_endline (h ^ " MODEL-BROKEN") else
        (match res with
         | None -> print_endline (h ^ " none")
         | Some EPersistent -> print_endline (h ^ " err persistent")
         | Some EEphemeral -> print_endline (h ^ " err ephemeral")
         | Some EInProgress -> print_endline (h ^ " err inprogress"))
      | _ -> print_endline "BADLINE"
    done
  with End_of_file -> ()
