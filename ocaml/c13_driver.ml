(* Line-protocol driver around the extracted C13 model (coq/Compact/Model.v, Guard.v): the guards of Database::compact.
   input  line: <hist> guard p=<persistent savepoints> e=<ephemeral savepoints> r=<read transactions>
   output line: <hist> none | <hist> err persistent|ephemeral|inprogress
   input  line: <hist> conc p=<committed persistent savepoints> e=<ephemeral savepoints> r=<read transactions>
                            w=<0|1 a write transaction is open> wn=<persistent savepoints it created> : <labels>
                labels (the schedule the harness forced, step machine of Guard.v): C esp psp commit abort dropesp dropread
   output line: <hist> none | <hist> err ... | <hist> pending | <hist> invalid-schedule
   input  line: <hist> pass <page>/<ancestor>.<ancestor>... ... ; <old>><new> ...
                one OBSERVED pass of compact(): the page paths of the data tables before the pass (positions in
                order-0 units, ancestors root first) and the relocation that was observed
   input  line: <hist> packed <allocated order-0 positions up to the highest page>     (a pass without progress)
   output line: <hist> packed true|false            the extracted packedb (Pass.v, theorem c13_pass_no_progress)
   output line: <hist> passok|passbad lt|eq|other      the extracted checker pass_okP (Pass.v), and how the measure of
                the relocated paths compares with the measure before (lexltb (msr ..) (msr ..)) *)
open C13_model

let rec pos_of_bits = function
  | [] -> failwith "pos_of_bits"
  | [true] -> XH
  | b :: r -> if b then XI (pos_of_bits r) else XO (pos_of_bits r)
let n_of_int (i : int) : n =
  if i < 0 then failwith "negative" else
  if i = 0 then N0 else
  let rec bits i = if i = 0 then [] else (i land 1 = 1) :: bits (i lsr 1) in
  Npos (pos_of_bits (bits i))
let kv s = match String.index_opt s '=' with
  | Some i -> int_of_string (String.sub s (i + 1) (String.length s - i - 1))
  | None -> failwith "kv"

let () =
  try
    while true do
      let line = input_line stdin in
      match String.split_on_char ' ' line with
      | [h; "guard"; p; e; r] ->
        let k = { persistent_sp = n_of_int (kv p); ephemeral_sp = n_of_int (kv e); user_reads = n_of_int (kv r) } in
        (* the relocation itself is exercised on a fixed small tree so that the extracted [compact] runs end to end *)
        let t = PNode (n_of_int 9, [(n_of_int 1, n_of_int 1)], [PNode (n_of_int 12, [(n_of_int 2, n_of_int 2)], [])]) in
        let m = [(n_of_int 12, n_of_int 3); (n_of_int 9, n_of_int 4)] in
        let ((_, t'), res) = compact k m t in
        if abs t' <> abs t then print_endline (h ^ " MODEL-BROKEN") else
        (match res with
         | None -> print_endline (h ^ " none")
         | Some EPersistent -> print_endline (h ^ " err persistent")
         | Some EEphemeral -> print_endline (h ^ " err ephemeral")
         | Some EInProgress -> print_endline (h ^ " err inprogress"))
      | h :: "conc" :: p :: e :: r :: w :: wn :: ":" :: labels ->
        let lab = function
          | "C" -> LC | "esp" -> LEsp | "psp" -> LPsp | "commit" -> LCommit | "abort" -> LAbort
          | "dropesp" -> LDropEsp | "dropread" -> LDropRead | x -> failwith ("label " ^ x) in
        let ls = List.map lab (List.filter (fun x -> x <> "") labels) in
        let s0 = ginit (n_of_int (kv p)) (n_of_int (kv e)) (n_of_int (kv r)) (kv w = 1) (n_of_int (kv wn)) in
        (match grun v_code ls s0 with
         | None -> print_endline (h ^ " invalid-schedule")
         | Some s ->
           (match answer s with
            | ARan -> print_endline (h ^ " none")
            | ARefused EPersistent -> print_endline (h ^ " err persistent")
            | ARefused EEphemeral -> print_endline (h ^ " err ephemeral")
            | ARefused EInProgress -> print_endline (h ^ " err inprogress")
            | APending -> print_endline (h ^ " pending")))
      | h :: "pass" :: rest ->
        let rec split acc = function
          | ";" :: r -> (List.rev acc, r)
          | x :: r -> split (x :: acc) r
          | [] -> (List.rev acc, []) in
        let (es, ms) = split [] (List.filter (fun x -> x <> "") rest) in
        let entry s = match String.index_opt s '/' with
          | Some i ->
            let p = int_of_string (String.sub s 0 i) in
            let a = String.sub s (i + 1) (String.length s - i - 1) in
            let anc = if a = "" then [] else List.map (fun x -> n_of_int (int_of_string x)) (String.split_on_char '.' a) in
            (n_of_int p, anc)
          | None -> failwith "entry" in
        let move s = match String.index_opt s '>' with
          | Some i -> (n_of_int (int_of_string (String.sub s 0 i)), n_of_int (int_of_string (String.sub s (i + 1) (String.length s - i - 1))))
          | None -> failwith "move" in
        let ps = List.map entry es in
        let m = List.map move ms in
        let ok = pass_okP m ps in
        let before = msr ps in
        let after = msr (ren_paths m ps) in
        let cmp = if lexltb after before then "lt" else if after = before then "eq" else "other" in
        print_endline (h ^ (if ok then " passok " else " passbad ") ^ cmp)
      | h :: "packed" :: units ->
        (* a pass that reported no progress, highest page of order 0: the allocated order-0 positions up to it *)
        let l = List.map (fun x -> n_of_int (int_of_string x)) (List.filter (fun x -> x <> "") units) in
        print_endline (h ^ " packed " ^ (if packedb l then "true" else "false"))
      | h :: "packedblocks" :: hi :: blocks ->
        (* same with a highest page of order > 0 (not in the model: buddy blocks): no free block of at least its
           order starts below it.  Hand-written comparison, not extracted. *)
        let blk s = match String.index_opt s '^' with
          | Some i -> (int_of_string (String.sub s 0 i), int_of_string (String.sub s (i + 1) (String.length s - i - 1)))
          | None -> failwith "block" in
        let (at, order) = blk hi in
        let ok = List.for_all (fun b -> let (s, o) = blk b in o < order || s > at) (List.filter (fun x -> x <> "") blocks) in
        print_endline (h ^ " packedblocks " ^ (if ok then "true" else "false"))
      | _ -> print_endline "BADLINE"
    done
  with End_of_file -> ()
